//! Common utilities for the correspondence harness binaries.
//! Every binary reads case lines on stdin and prints one canonical result line per case.

use std::io::{self, BufRead, Write};
use std::panic::{self, AssertUnwindSafe};

/// splitmix64, the single PRNG all Rust-side random choices derive from.
pub struct Rng(pub u64);
impl Rng {
	pub fn next(&mut self) -> u64 {
		self.0 = self.0.wrapping_add(0x9E3779B97F4A7C15);
		let mut z = self.0;
		z = (z ^ (z >> 30)).wrapping_mul(0xBF58476D1CE4E5B9);
		z = (z ^ (z >> 27)).wrapping_mul(0x94D049BB133111EB);
		z ^ (z >> 31)
	}
	pub fn below(&mut self, n: u64) -> u64 {
		if n == 0 {
			0
		} else {
			self.next() % n
		}
	}
}

/// Runs `f` on every non-empty, non-comment stdin line; a panic inside `f` prints `PANIC`.
pub fn for_each_case<F: FnMut(&str) -> String>(mut f: F) {
	panic::set_hook(Box::new(|info| {
		// silent by default (a panic is reported as the result `PANIC`); set VERIF_PANIC_MSG to see it
		if std::env::var("VERIF_PANIC_MSG").is_ok() {
			eprintln!("{}", info);
		}
	}));
	let stdin = io::stdin();
	let stdout = io::stdout();
	let mut out = io::BufWriter::new(stdout.lock());
	for line in stdin.lock().lines() {
		let line = line.unwrap();
		let l = line.trim();
		if l.is_empty() || l.starts_with('#') {
			continue;
		}
		let r = panic::catch_unwind(AssertUnwindSafe(|| f(l)));
		match r {
			Ok(s) => writeln!(out, "{}", s).unwrap(),
			Err(_) => writeln!(out, "PANIC").unwrap(),
		}
	}
	out.flush().unwrap();
}

pub fn parse_u64s(l: &str) -> Vec<u64> {
	l.split_whitespace().filter_map(|t| t.parse::<u64>().ok()).collect()
}

pub fn hex(b: &[u8]) -> String {
	let mut s = String::with_capacity(b.len() * 2);
	for x in b {
		s.push_str(&format!("{:02x}", x));
	}
	s
}

pub fn unhex(s: &str) -> Vec<u8> {
	let s = s.trim();
	(0..s.len() / 2).map(|i| u8::from_str_radix(&s[2 * i..2 * i + 2], 16).unwrap()).collect()
}
