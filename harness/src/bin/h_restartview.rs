//! C11 restart harness: "restart" as one more way of being told the chain.
//!
//! Three real nodes A - B - C. B has outbound HTLCs on the B-C channel: its own payments and payments
//! forwarded for A, below and above the dust limit, optionally one that is in no commitment of B's yet.
//! The B-C channel is closed unilaterally (B's or C's commitment, seeded); the commitment confirms, is
//! optionally reorganised out after fewer than ANTI_REORG_DELAY blocks and confirms again, and is buried.
//! The same seeded plan is run twice on fresh networks: once straight through, once with B's
//! ChannelManager and ChannelMonitors serialized and read back (`reload_node!`) after a seeded step
//! (every depth 0..ANTI_REORG_DELAY+1 after the confirmation, before or after the reorganisation).
//!
//! Judged on the real node B, in both runs:
//!  * an irreversible conclusion about an HTLC of the closed channel (PaymentPathFailed / PaymentFailed
//!    for B's own payments, HTLCHandlingFailed = fail-back for forwarded ones) appears only once the
//!    commitment has been ANTI_REORG_DELAY deep in B's chain, at startup as well as while running;
//!  * what the monitor would tell a restarting manager (`get_onchain_failed_outbound_htlcs`) is empty
//!    before that point;
//!  * after the reorganisation nothing of the disconnected blocks is left in `get_relevant_txids`;
//!  * after every step both runs have drawn the same conclusions and B's monitor of the closed channel
//!    shows the same balances and relevant txids.
//!
//! usage: h_restartview run <first_seed> <count>     one `R {json}` line per scenario
//!        h_restartview replay <seed>
use std::collections::BTreeSet;
use std::panic::{self, AssertUnwindSafe};
use std::sync::Mutex;

use bitcoin::{Amount, Transaction};

use lightning::chain::channelmonitor::ANTI_REORG_DELAY;
use lightning::events::{Event, HTLCHandlingFailureType};
use lightning::ln::channelmanager::PaymentId;
use lightning::ln::functional_test_utils::*;
use lightning::ln::msgs::{BaseMessageHandler, ChannelMessageHandler};
use lightning::ln::outbound_payment::RecipientOnionFields;
use lightning::util::ser::Writeable;
use lightning::{get_local_commitment_txn, get_route_and_payment_hash};
use verif_harness::Rng;

static PANIC_MSG: Mutex<String> = Mutex::new(String::new());

struct Fail {
	why: String,
	detail: String,
}
fn fail<T>(why: &str, detail: String) -> Result<T, Fail> {
	Err(Fail { why: why.to_string(), detail })
}

fn jstr(s: &str) -> String {
	let mut o = String::from("\"");
	for c in s.chars() {
		match c {
			'"' => o.push_str("\\\""),
			'\\' => o.push_str("\\\\"),
			'\n' => o.push_str("\\n"),
			c if (c as u32) < 0x20 => o.push(' '),
			c => o.push(c),
		}
	}
	o.push('"');
	o
}

#[derive(Clone, Copy, PartialEq, Eq, Debug)]
enum Op {
	/// a block with the commitment transaction
	Mine,
	/// an empty block
	Blk,
	/// that many blocks disconnected (the commitment goes)
	Reorg(u32),
}

#[derive(Clone, PartialEq, Eq, Debug)]
struct StepView {
	op: String,
	height: u32,
	conclusions: BTreeSet<String>,
	balances: Vec<String>,
	relevant: Vec<String>,
	failed_outbound: Vec<String>,
}

struct Plan {
	chan_type: u64,
	/// (one for all nodes: the test nodes of a network share one style cell)
	style: ConnectStyle,
	htlcs: Vec<(u64, u64)>,
	partial: bool,
	closer: usize,
	ops: Vec<Op>,
}

fn style_of(k: u64) -> ConnectStyle {
	match k % 6 {
		0 => ConnectStyle::FullBlockViaListen,
		1 => ConnectStyle::BestBlockFirst,
		2 => ConnectStyle::TransactionsFirst,
		3 => ConnectStyle::BestBlockFirstReorgsOnlyTip,
		4 => ConnectStyle::TransactionsFirstReorgsOnlyTip,
		_ => ConnectStyle::FullBlockDisconnectionsSkippingViaListen,
	}
}

fn plan(seed: u64) -> Plan {
	let mut rng = Rng(seed.wrapping_mul(0x9E37_79B9_7F4A_7C15) ^ 0xC11_5747);
	let chan_type = rng.below(2);
	let style = style_of(rng.below(6));
	let n = 1 + rng.below(4);
	let mut htlcs = Vec::new();
	for _ in 0..n {
		let kind = rng.below(4);
		let msat = if kind % 2 == 0 { 60_000 + rng.below(240_000) } else { 2_000_000 + rng.below(9_000_000) };
		htlcs.push((kind, msat));
	}
	let partial = rng.below(2) == 0;
	let closer = 1 + rng.below(2) as usize;
	let mut ops = vec![Op::Mine];
	if rng.below(2) == 0 {
		let r = 1 + rng.below(ANTI_REORG_DELAY as u64 - 1) as u32;
		for _ in 1..r {
			ops.push(Op::Blk);
		}
		ops.push(Op::Reorg(r));
		for _ in 0..rng.below(3) {
			ops.push(Op::Blk);
		}
		ops.push(Op::Mine);
	}
	for _ in 0..(ANTI_REORG_DELAY + 1) {
		ops.push(Op::Blk);
	}
	Plan { chan_type, style, htlcs, partial, closer, ops }
}

struct State {
	conclusions: BTreeSet<String>,
	failbacks: usize,
	conf_height: Option<u32>,
	buried: bool,
}

fn apply_op(nodes: &Vec<Node>, op: &Op, commitment: &Transaction, st: &mut State) {
	match op {
		Op::Mine | Op::Blk => {
			// (the nodes are not on one chain: channel opening connected blocks to the two parties only)
			for n in 0..3 {
				let h = nodes[n].best_block_info().1 + 1;
				let txs = if *op == Op::Mine { vec![commitment.clone()] } else { vec![] };
				let block = create_dummy_block(nodes[n].best_block_hash(), h, txs);
				connect_block(&nodes[n], &block);
			}
			if *op == Op::Mine {
				st.conf_height = Some(nodes[1].best_block_info().1);
			}
		},
		Op::Reorg(r) => {
			for n in 0..3 {
				disconnect_blocks(&nodes[n], *r);
			}
			st.conf_height = None;
		},
	}
	let best = nodes[1].best_block_info().1;
	if let Some(c) = st.conf_height {
		if c + ANTI_REORG_DELAY - 1 <= best {
			st.buried = true;
		}
	}
}

/// what B concludes after step `k`, judged and recorded
fn observe(nodes: &Vec<Node>, k: usize, op: &Op, restarted: bool, chan_bc: lightning::ln::types::ChannelId, st: &mut State, views: &mut Vec<StepView>) -> Result<(), Fail> {
	let best = nodes[1].best_block_info().1;
	nodes[1].node.process_pending_htlc_forwards();
	let mut evs = nodes[1].node.get_and_clear_pending_events();
	nodes[1].node.process_pending_htlc_forwards();
	evs.extend(nodes[1].node.get_and_clear_pending_events());
	let _ = nodes[1].node.get_and_clear_pending_msg_events();
	let mut new_conclusions: Vec<String> = Vec::new();
	for ev in evs {
		match ev {
			Event::PaymentPathFailed { payment_hash, .. } => new_conclusions.push(format!("path_failed:{}", payment_hash)),
			Event::PaymentFailed { payment_hash, .. } => new_conclusions.push(format!("failed:{:?}", payment_hash.map(|h| format!("{}", h)))),
			Event::HTLCHandlingFailed { failure_type: HTLCHandlingFailureType::Forward { channel_id, .. }, .. } if channel_id == chan_bc => {
				// (the event carries no HTLC identity and is legitimately replayed after a restart)
				st.failbacks += 1;
				new_conclusions.push("fail_back".to_string());
			},
			_ => {},
		}
	}
	for c in new_conclusions {
		if !st.buried {
			return fail(
				"an HTLC of the closed channel was failed before the closing transaction was buried",
				format!("{} after step {} ({:?}{}), best height {}, commitment confirmed at {:?}", c, k, op, if restarted { " + restart" } else { "" }, best, st.conf_height),
			);
		}
		st.conclusions.insert(c);
	}
	let mon = lightning::get_monitor!(nodes[1], chan_bc);
	let failed_outbound: Vec<String> = mon.verif_onchain_failed_outbound_htlcs().iter().map(|h| format!("{}", h)).collect();
	// (VERIF_SKIP_JUDGE: mutation experiments only, to see which other judge catches a defect)
	if !failed_outbound.is_empty() && !st.buried && !std::env::var("VERIF_SKIP_JUDGE").map(|v| v.contains("hook")).unwrap_or(false) {
		return fail(
			"the monitor reports outbound HTLCs as failed on chain (a restart acts on it) before the closing transaction was buried",
			format!("{:?} after step {} ({:?}), best height {}, commitment confirmed at {:?}", failed_outbound, k, op, best, st.conf_height),
		);
	}
	let relevant_raw = mon.get_relevant_txids();
	if let Op::Reorg(_) = op {
		if relevant_raw.iter().any(|(_, h, _)| *h > best) {
			return fail("after a reorganisation the monitor still lists confirmations above the new tip", format!("{:?} best {}", relevant_raw, best));
		}
	}
	let mut balances: Vec<String> = mon.get_claimable_balances().iter().map(|b| format!("{:?}", b)).collect();
	balances.sort();
	let mut relevant: Vec<String> = relevant_raw.iter().map(|(t, h, b)| format!("{}@{}:{:?}", t, h, b)).collect();
	relevant.sort();
	views.push(StepView { op: format!("{:?}", op), height: best, conclusions: st.conclusions.clone(), balances, relevant, failed_outbound });
	Ok(())
}

fn run(p: &Plan, restart_after: Option<usize>, views: &mut Vec<StepView>) -> Result<(), Fail> {
	let chanmon_cfgs = create_chanmon_cfgs(3);
	let node_cfgs = create_node_cfgs(3, &chanmon_cfgs);
	let persister;
	let new_chain_monitor;
	let mut cfg = test_legacy_channel_config();
	cfg.channel_handshake_config.negotiate_anchors_zero_fee_htlc_tx = p.chan_type == 1;
	let node_chanmgrs = create_node_chanmgrs(3, &node_cfgs, &[Some(cfg.clone()), Some(cfg.clone()), Some(cfg.clone())]);
	let nodes_1_deserialized;
	// (never dropped: the drop checks of the test nodes would turn a reported failure into a panic)
	let mut nodes = std::mem::ManuallyDrop::new(create_network(3, &node_cfgs, &node_chanmgrs));
	*nodes[0].connect_style.borrow_mut() = p.style;
	let ids = [nodes[0].node.get_our_node_id(), nodes[1].node.get_our_node_id(), nodes[2].node.get_our_node_id()];
	provide_utxo_reserves(&nodes, 8, Amount::from_sat(5_000_000));
	let (_, _, chan_ab, _) = create_announced_chan_between_nodes_with_value(&nodes, 0, 1, 1_000_000, 300_000_000);
	let (_, _, chan_bc, _) = create_announced_chan_between_nodes_with_value(&nodes, 1, 2, 1_000_000, 300_000_000);
	for (kind, msat) in p.htlcs.iter() {
		if *kind < 2 {
			route_payment(&nodes[1], &[&nodes[2]], *msat);
		} else {
			route_payment(&nodes[0], &[&nodes[1], &nodes[2]], *msat);
		}
	}
	if p.partial {
		// an HTLC that C has (update_add + commitment_signed delivered) but that is in no commitment of B's
		let amt = 3_000_000;
		let (route, hash, _pre, secret) = get_route_and_payment_hash!(nodes[1], nodes[2], amt);
		if nodes[1].node.send_payment_with_route(route, hash, RecipientOnionFields::secret_only(secret, amt), PaymentId(hash.0)).is_ok() {
			let mut evs = nodes[1].node.get_and_clear_pending_msg_events();
			if !evs.is_empty() {
				let ev = SendEvent::from_event(evs.remove(0));
				nodes[2].node.handle_update_add_htlc(ids[1], &ev.msgs[0]);
				nodes[2].node.handle_commitment_signed_batch_test(ids[1], &ev.commitment_msg);
			}
		}
	}
	let drain_all = |nodes: &Vec<Node>| {
		for n in nodes.iter() {
			n.chain_monitor.added_monitors.lock().unwrap().clear();
			let _ = n.tx_broadcaster.txn_broadcast();
		}
		for i in [0usize, 2] {
			let _ = nodes[i].node.get_and_clear_pending_events();
			let _ = nodes[i].node.get_and_clear_pending_msg_events();
		}
	};
	drain_all(&nodes);
	let _ = nodes[1].node.get_and_clear_pending_events();
	let _ = nodes[1].node.get_and_clear_pending_msg_events();
	let commitment: Transaction = get_local_commitment_txn!(nodes[p.closer], chan_bc)[0].clone();
	let ctxid = commitment.compute_txid();

	let mut st = State { conclusions: BTreeSet::new(), failbacks: 0, conf_height: None, buried: false };
	let n_ops = p.ops.len();
	for k in 0..n_ops {
		if Some(k) == restart_after {
			break;
		}
		apply_op(&nodes, &p.ops[k], &commitment, &mut st);
		observe(&nodes, k, &p.ops[k], false, chan_bc, &mut st, views)?;
		drain_all(&nodes);
	}
	if let Some(r) = restart_after {
		apply_op(&nodes, &p.ops[r], &commitment, &mut st);
		let node_ser = nodes[1].node.encode();
		let mon_ab = lightning::get_monitor!(nodes[1], chan_ab).encode();
		let mon_bc = lightning::get_monitor!(nodes[1], chan_bc).encode();
		let mons = &[&mon_ab[..], &mon_bc[..]];
		lightning::reload_node!(nodes[1], &node_ser, mons, persister, new_chain_monitor, nodes_1_deserialized);
		nodes[0].node.peer_disconnected(ids[1]);
		nodes[2].node.peer_disconnected(ids[1]);
		observe(&nodes, r, &p.ops[r], true, chan_bc, &mut st, views)?;
		drain_all(&nodes);
		for k in (r + 1)..n_ops {
			apply_op(&nodes, &p.ops[k], &commitment, &mut st);
			observe(&nodes, k, &p.ops[k], false, chan_bc, &mut st, views)?;
			drain_all(&nodes);
		}
	}
	let _ = ctxid;
	Ok(())
}

struct Out {
	steps: usize,
	restart_after: usize,
	restart_depth: i64,
	reorg: bool,
	conclusions: usize,
	cfg: String,
}

fn scenario(seed: u64) -> Result<Out, Fail> {
	let p = plan(seed);
	let mut rng = Rng(seed.wrapping_mul(0xD6E8_FEB8_6659_FD93) ^ 0x2E57);
	let restart_after = rng.below(p.ops.len() as u64) as usize;
	let mut straight = Vec::new();
	run(&p, None, &mut straight)?;
	let mut restarted = Vec::new();
	run(&p, Some(restart_after), &mut restarted)?;
	for (k, (a, b)) in straight.iter().zip(restarted.iter()).enumerate() {
		if a != b {
			return fail(
				"a node that was restarted concludes something else from the same chain than one that was not",
				format!("after step {} (restart after step {}): straight {:?} vs restarted {:?}", k, restart_after, a, b),
			);
		}
	}
	// depth of the commitment at the restart: confirmations it had (0 = not confirmed at that point)
	let mut conf_at: Option<usize> = None;
	let mut depth: i64 = 0;
	for (k, op) in p.ops.iter().enumerate() {
		match op {
			Op::Mine => conf_at = Some(k),
			Op::Reorg(_) => conf_at = None,
			Op::Blk => {},
		}
		if k == restart_after {
			depth = match conf_at {
				Some(c) => (p.ops[c..=k].iter().filter(|o| **o != Op::Reorg(0)).count()) as i64,
				None => 0,
			};
		}
	}
	let cfg = format!(
		"{{\"chan_type\":{},\"closer\":{},\"partial\":{},\"htlcs\":{:?},\"style\":\"{:?}\",\"ops\":\"{:?}\"}}",
		p.chan_type,
		p.closer,
		p.partial,
		p.htlcs.iter().map(|(k, m)| vec![*k, *m]).collect::<Vec<_>>(),
		p.style,
		p.ops
	);
	Ok(Out {
		steps: p.ops.len(),
		restart_after,
		restart_depth: depth,
		reorg: p.ops.iter().any(|o| matches!(o, Op::Reorg(_))),
		conclusions: straight.last().map(|v| v.conclusions.len()).unwrap_or(0),
		cfg,
	})
}

fn run_one(seed: u64) -> String {
	let r = panic::catch_unwind(AssertUnwindSafe(|| scenario(seed)));
	match r {
		Ok(Ok(o)) => format!(
			"R {{\"seed\":{},\"ok\":true,\"steps\":{},\"restart_after\":{},\"restart_depth\":{},\"reorg\":{},\"conclusions\":{},\"cfg\":{}}}",
			seed,
			o.steps,
			o.restart_after,
			o.restart_depth,
			if o.reorg { 1 } else { 0 },
			o.conclusions,
			jstr(&o.cfg)
		),
		Ok(Err(f)) => format!("R {{\"seed\":{},\"ok\":false,\"why\":{},\"detail\":{}}}", seed, jstr(&f.why), jstr(&f.detail)),
		Err(_) => {
			let p = plan(seed);
			let restart_after = Rng(seed.wrapping_mul(0xD6E8_FEB8_6659_FD93) ^ 0x2E57).below(p.ops.len() as u64);
			let msg = format!("{}; plan: style {:?} closer {} ops {:?} restart after step {}", PANIC_MSG.lock().unwrap().clone(), p.style, p.closer, p.ops, restart_after);
			format!("R {{\"seed\":{},\"ok\":false,\"why\":\"panic inside the library or its test utilities\",\"detail\":{}}}", seed, jstr(&msg))
		},
	}
}

fn main() {
	panic::set_hook(Box::new(|info| {
		*PANIC_MSG.lock().unwrap() = format!("{}", info);
	}));
	let args: Vec<String> = std::env::args().collect();
	let deadline = std::env::var("VERIF_DEADLINE_S").ok().and_then(|s| s.parse::<u64>().ok());
	let t0 = std::time::Instant::now();
	if args.len() >= 4 && args[1] == "run" {
		let first: u64 = args[2].parse().unwrap();
		let count: u64 = args[3].parse().unwrap();
		for s in first..first + count {
			if let Some(d) = deadline {
				if t0.elapsed().as_secs() >= d {
					println!("R {{\"seed\":{},\"ok\":true,\"skipped\":true}}", s);
					continue;
				}
			}
			println!("{}", run_one(s));
		}
	} else if args.len() >= 3 && args[1] == "replay" {
		println!("{}", run_one(args[2].parse().unwrap()));
	} else {
		eprintln!("usage: h_restartview run <first_seed> <count> | replay <seed>");
		std::process::exit(2);
	}
}
