//! C04 harness.
//!
//! `h_inbound secret`  — stateless payment secrets: one command per stdin line, one result line each
//!     key <hex32>
//!     create <min|-1> <delta> <rand hex32> <now> <cltv|-1>        -> OK <hash> <secret> | ERR
//!     fromhash <min|-1> <hash hex32> <delta> <now> <cltv|-1>      -> OK <secret> | ERR
//!     spont <min|-1> <delta> <now> <cltv|-1>                      -> OK <secret> | ERR
//!     info <min|-1> <method> <delta> <now> <cltv|-1>              -> OK <hex16> | ERR
//!     verify <hash hex32> <secret hex32> <total> <now>            -> OK <preimage|-> <cltv|-1> | ERR
//!   create / create_from_hash are the public functions, verify / spontaneous / info the `_verif_hooks`
//!   wrappers around the crate-private ones.
//!
//! `h_inbound mpp <style>` — a 4-node diamond 0 -> {1,2} -> 3 of real ChannelManagers; a script on
//!   stdin drives parts, ticks, blocks and the recipient's claim/fail; after every command one JSON
//!   line with what the recipient (node 3) observed and did:
//!     invoice <min|-1> <cltvdelta|-1>          register a payment (create_inbound_payment)
//!     part <via 1|2> <amt> <total> <extra_cltv> <secret 0 good|1 flipped>
//!     tick | block <n> | claim | claimknown | failback
//!   {"c04":1,"cmd":..,"height":h,"adds":[[chan,htlc,amt,cltv]],"fulfills":[[chan,htlc]],
//!    "fails":[[chan,htlc]],"claimable":[[amt,deadline]],"claimed":[[amt,[[chan,value,cltv],..]]]}
use std::io::{self, BufRead, Write};
use std::panic::{self, AssertUnwindSafe};

use bitcoin::secp256k1::PublicKey;

use lightning::events::Event;
use lightning::ln::channelmanager::PaymentId;
use lightning::ln::functional_test_utils::*;
use lightning::ln::inbound_payment::{self, verif_hooks_inbound as vh, ExpandedKey};
use lightning::ln::msgs::{BaseMessageHandler, ChannelMessageHandler, MessageSendEvent};
use lightning::ln::outbound_payment::RecipientOnionFields;
use lightning::ln::types::ChannelId;
use lightning::routing::router::{PaymentParameters, RouteParameters};
use lightning::sign::EntropySource;
use lightning::types::payment::{PaymentHash, PaymentSecret};
use verif_harness::{hex, unhex};

struct FixedEntropy([u8; 32]);
impl EntropySource for FixedEntropy {
	fn get_secure_random_bytes(&self) -> [u8; 32] {
		self.0
	}
}

fn arr32(v: &[u8]) -> [u8; 32] {
	let mut a = [0u8; 32];
	a.copy_from_slice(&v[..32]);
	a
}
fn opt_u64(s: &str) -> Option<u64> {
	let v: i128 = s.parse().unwrap();
	if v < 0 {
		None
	} else {
		Some(v as u64)
	}
}
fn opt_u16(s: &str) -> Option<u16> {
	let v: i64 = s.parse().unwrap();
	if v < 0 {
		None
	} else {
		Some(v as u16)
	}
}

fn secret_mode() {
	let stdin = io::stdin();
	let stdout = io::stdout();
	let mut out = io::BufWriter::new(stdout.lock());
	let mut keys = ExpandedKey::new([0u8; 32]);
	for line in stdin.lock().lines() {
		let line = line.unwrap();
		let t: Vec<&str> = line.split_whitespace().collect();
		if t.is_empty() {
			continue;
		}
		let res = panic::catch_unwind(AssertUnwindSafe(|| match t[0] {
			"key" => {
				keys = ExpandedKey::new(arr32(&unhex(t[1])));
				"OK".to_string()
			},
			"create" => {
				let es = FixedEntropy(arr32(&unhex(t[3])));
				match inbound_payment::create(
					&keys,
					opt_u64(t[1]),
					t[2].parse().unwrap(),
					&es,
					t[4].parse().unwrap(),
					opt_u16(t[5]),
					None,
				) {
					Ok((h, s, _)) => format!("OK {} {}", hex(&h.0), hex(&s.0)),
					Err(()) => "ERR".to_string(),
				}
			},
			"fromhash" => {
				let es = FixedEntropy([0; 32]);
				match inbound_payment::create_from_hash(
					&keys,
					opt_u64(t[1]),
					PaymentHash(arr32(&unhex(t[2]))),
					t[3].parse().unwrap(),
					&es,
					t[4].parse().unwrap(),
					opt_u16(t[5]),
					None,
				) {
					Ok((s, _)) => format!("OK {}", hex(&s.0)),
					Err(()) => "ERR".to_string(),
				}
			},
			"spont" => match vh::create_for_spontaneous_payment(
				&keys,
				opt_u64(t[1]),
				t[2].parse().unwrap(),
				t[3].parse().unwrap(),
				opt_u16(t[4]),
			) {
				Ok(s) => format!("OK {}", hex(&s.0)),
				Err(()) => "ERR".to_string(),
			},
			"info" => match vh::construct_info_bytes(
				opt_u64(t[1]),
				t[2].parse().unwrap(),
				t[3].parse().unwrap(),
				t[4].parse().unwrap(),
				opt_u16(t[5]),
			) {
				Ok(b) => format!("OK {}", hex(&b)),
				Err(()) => "ERR".to_string(),
			},
			"verify" => match vh::verify(
				PaymentHash(arr32(&unhex(t[1]))),
				PaymentSecret(arr32(&unhex(t[2]))),
				t[3].parse().unwrap(),
				t[4].parse().unwrap(),
				&keys,
			) {
				Ok((pre, cltv)) => format!(
					"OK {} {}",
					pre.map(|p| hex(&p.0)).unwrap_or("-".to_string()),
					cltv.map(|c| c as i64).unwrap_or(-1)
				),
				Err(()) => "ERR".to_string(),
			},
			_ => "BADCMD".to_string(),
		}));
		match res {
			Ok(s) => writeln!(out, "{}", s).unwrap(),
			Err(_) => writeln!(out, "PANIC").unwrap(),
		}
	}
	out.flush().unwrap();
}

// ------------------------------------------------------------------------------------------- mpp
#[derive(Default)]
struct Obs {
	/// (channel, htlc id, amount, expiry, skimmed_fee_msat of the update_add_htlc, payment-hash index)
	adds: Vec<(usize, u64, u64, u32, u64, usize)>,
	fulfills: Vec<(usize, u64)>,
	fails: Vec<(usize, u64)>,
	/// (amount, claim deadline, counterparty_skimmed_fee_msat, payment-hash index, purpose: 0 invoice
	/// | 1 keysend, the purpose's preimage hashes to the payment hash: 1 | 0 | -1 no preimage)
	claimable: Vec<(u64, i64, u64, usize, u8, i8)>,
	claimed: Vec<(u64, Vec<(usize, u64, u32)>, usize)>,
	/// update_fulfill_htlc messages (of any node) whose preimage does not hash to the HTLC's payment hash
	bad_fulfills: usize,
}

/// Payment hashes in order of first appearance (their index is what the records name), the hash of
/// every HTLC offered to any node, and the preimage named by the last keysend PaymentClaimable.
#[derive(Default)]
struct Reg {
	hashes: Vec<PaymentHash>,
	htlc_hash: std::collections::HashMap<(usize, usize, u64), PaymentHash>,
	last_keysend: Option<(usize, lightning::types::payment::PaymentPreimage)>,
}

impl Reg {
	fn idx(&mut self, h: &PaymentHash) -> usize {
		if let Some(i) = self.hashes.iter().position(|x| x == h) {
			return i;
		}
		self.hashes.push(*h);
		self.hashes.len() - 1
	}
}

fn idx_of(nodes: &[Node], pk: &PublicKey) -> Option<usize> {
	nodes.iter().position(|n| n.node.get_our_node_id() == *pk)
}

fn chan_idx(chans: &[ChannelId], c: &ChannelId) -> usize {
	chans.iter().position(|x| x == c).unwrap_or(99)
}

/// what the forwarders (nodes 1 and 2, LSP-like) take off the next HTLC they intercept (negative:
/// they forward more than the onion says)
static PENDING_SKIM: std::sync::atomic::AtomicI64 = std::sync::atomic::AtomicI64::new(0);

/// Delivers all pending messages; records what goes to / comes from the recipient (node 3).
fn pump(nodes: &[Node], chans: &[ChannelId], obs: &mut Obs, reg: &mut Reg) {
	let mut idle = 0;
	for _round in 0..200 {
		let mut progressed = false;
		for i in 0..nodes.len() {
			let from = nodes[i].node.get_our_node_id();
			for ev in nodes[i].node.get_and_clear_pending_msg_events() {
				let to_pk = match &ev {
					MessageSendEvent::UpdateHTLCs { node_id, .. }
					| MessageSendEvent::SendRevokeAndACK { node_id, .. }
					| MessageSendEvent::SendChannelUpdate { node_id, .. } => Some(*node_id),
					_ => None,
				};
				let to = match to_pk.and_then(|pk| idx_of(nodes, &pk)) {
					Some(t) => t,
					None => continue,
				};
				progressed = true;
				let n = &nodes[to].node;
				match ev {
					MessageSendEvent::UpdateHTLCs { updates, channel_id, .. } => {
						for m in updates.update_add_htlcs.iter() {
							reg.htlc_hash.insert((to, chan_idx(chans, &channel_id), m.htlc_id), m.payment_hash);
							if to == 3 {
								let hidx = reg.idx(&m.payment_hash);
								obs.adds.push((chan_idx(chans, &channel_id), m.htlc_id, m.amount_msat, m.cltv_expiry, m.skimmed_fee_msat.unwrap_or(0), hidx));
							}
							n.handle_update_add_htlc(from, m);
						}
						for m in updates.update_fulfill_htlcs.iter() {
							// whoever fulfils an HTLC must name a preimage of ITS payment hash
							use bitcoin::hashes::Hash;
							let want = reg.htlc_hash.get(&(i, chan_idx(chans, &channel_id), m.htlc_id));
							let got = bitcoin::hashes::sha256::Hash::hash(&m.payment_preimage.0).to_byte_array();
							if want.map(|h| h.0 != got).unwrap_or(true) {
								obs.bad_fulfills += 1;
							}
							if i == 3 {
								obs.fulfills.push((chan_idx(chans, &channel_id), m.htlc_id));
							}
							n.handle_update_fulfill_htlc(from, m.clone());
						}
						for m in updates.update_fail_htlcs.iter() {
							if i == 3 {
								obs.fails.push((chan_idx(chans, &channel_id), m.htlc_id));
							}
							n.handle_update_fail_htlc(from, m);
						}
						for m in updates.update_fail_malformed_htlcs.iter() {
							if i == 3 {
								obs.fails.push((chan_idx(chans, &channel_id), m.htlc_id));
							}
							n.handle_update_fail_malformed_htlc(from, m);
						}
						n.handle_commitment_signed_batch_test(from, &updates.commitment_signed);
					},
					MessageSendEvent::SendRevokeAndACK { msg, .. } => n.handle_revoke_and_ack(from, &msg),
					MessageSendEvent::SendChannelUpdate { msg, .. } => n.handle_channel_update(from, &msg),
					_ => {},
				}
			}
		}
		for i in 0..nodes.len() {
			nodes[i].node.process_pending_htlc_forwards();
			let evs = nodes[i].node.get_and_clear_pending_events();
			if !evs.is_empty() {
				progressed = true;
			}
			if i == 1 || i == 2 {
				for e in evs.iter() {
					if let Event::HTLCIntercepted { intercept_id, expected_outbound_amount_msat, .. } = e {
						let skim = PENDING_SKIM.swap(0, std::sync::atomic::Ordering::SeqCst);
						let amt = (*expected_outbound_amount_msat as i64 - skim).max(1) as u64;
						let chan = if i == 1 { chans[2] } else { chans[3] };
						let _ = nodes[i].node.forward_intercepted_htlc(*intercept_id, &chan, nodes[3].node.get_our_node_id(), amt);
					}
				}
			}
			if i == 3 {
				for e in evs {
					match e {
						Event::PaymentClaimable { amount_msat, claim_deadline, counterparty_skimmed_fee_msat, payment_hash, purpose, .. } => {
							use bitcoin::hashes::Hash;
							let hidx = reg.idx(&payment_hash);
							let kind = if matches!(purpose, lightning::events::PaymentPurpose::SpontaneousPayment(_)) { 1 } else { 0 };
							let pre_ok = match purpose.preimage() {
								Some(p) => {
									if bitcoin::hashes::sha256::Hash::hash(&p.0).to_byte_array() == payment_hash.0 {
										1
									} else {
										0
									}
								},
								None => -1,
							};
							if kind == 1 {
								if let Some(p) = purpose.preimage() {
									reg.last_keysend = Some((hidx, p));
								}
							}
							obs.claimable.push((amount_msat, claim_deadline.map(|d| d as i64).unwrap_or(-1), counterparty_skimmed_fee_msat, hidx, kind, pre_ok));
						},
						Event::PaymentClaimed { amount_msat, htlcs, payment_hash, .. } => {
							let hidx = reg.idx(&payment_hash);
							let mut hs: Vec<(usize, u64, u32)> = htlcs
								.iter()
								.map(|h| (chan_idx(chans, &h.channel_id), h.value_msat, h.cltv_expiry))
								.collect();
							hs.sort();
							obs.claimed.push((amount_msat, hs, hidx));
						},
						_ => {},
					}
				}
			}
			nodes[i].chain_monitor.added_monitors.lock().unwrap().clear();
		}
		// a failure queued by process_pending_htlc_forwards is only sent by the next call
		idle = if progressed { 0 } else { idle + 1 };
		if idle >= 3 {
			break;
		}
	}
}

fn jl<T: std::fmt::Display>(v: &[T]) -> String {
	format!("[{}]", v.iter().map(|x| x.to_string()).collect::<Vec<_>>().join(","))
}

fn mpp_mode(style: u64, underpay: bool) {
	let chanmon_cfgs = create_chanmon_cfgs(4);
	let node_cfgs = create_node_cfgs(4, &chanmon_cfgs);
	// nodes 1 and 2 forward like an LSP (they may skim a fee off intercepted HTLCs); the recipient's
	// channels accept underpaying HTLCs or not
	let mut lsp = test_default_channel_config();
	lsp.htlc_interception_flags = lightning::util::config::HTLCInterceptionFlags::ToInterceptSCIDs as u8;
	let mut recv_cfg = test_default_channel_config();
	recv_cfg.channel_config.accept_underpaying_htlcs = underpay;
	let node_chanmgrs = create_node_chanmgrs(4, &node_cfgs, &[None, Some(lsp.clone()), Some(lsp), Some(recv_cfg)]);
	let nodes = create_network(4, &node_cfgs, &node_chanmgrs);
	let cs = match style % 3 {
		0 => ConnectStyle::BestBlockFirst,
		1 => ConnectStyle::FullBlockViaListen,
		_ => ConnectStyle::TransactionsFirst,
	};
	for n in nodes.iter() {
		*n.connect_style.borrow_mut() = cs;
	}
	let c01 = create_announced_chan_between_nodes(&nodes, 0, 1);
	let c02 = create_announced_chan_between_nodes(&nodes, 0, 2);
	let c13 = create_announced_chan_between_nodes(&nodes, 1, 3);
	let c23 = create_announced_chan_between_nodes(&nodes, 2, 3);
	let chans = vec![c01.2, c02.2, c13.2, c23.2];
	// every node on the same height: an HTLC sent with final CLTV delta d expires at height + 1 + d
	let top = nodes.iter().map(|nd| nd.best_block_info().1).max().unwrap();
	for nd in nodes.iter() {
		let h = nd.best_block_info().1;
		if h < top {
			connect_blocks(nd, top - h);
		}
	}
	let mut obs = Obs::default();
	let mut reg = Reg::default();
	// index 0 is reserved (the model names the invoice's payment hash 1)
	reg.hashes.push(PaymentHash([0xff; 32]));
	pump(&nodes, &chans, &mut obs, &mut reg);
	// the highest block time every node has seen (a ChannelManager starts with the genesis block's)
	let genesis_time = bitcoin::constants::genesis_block(bitcoin::Network::Testnet).header.time as u64;
	let mut now: u64 = genesis_time;
	let mut ks_no: u8 = 0;
	let mut last_ks: Option<(PaymentHash, lightning::types::payment::PaymentPreimage)> = None;

	let mut hash = PaymentHash([0; 32]);
	let mut preimage = None;
	let mut secret = PaymentSecret([0; 32]);
	let mut part_no: u8 = 0;
	// expiries of the HTLCs offered to the recipient so far, in order
	let mut seen_cltv: Vec<u32> = Vec::new();
	// the HTLCs the recipient holds, and those it held when it last reported PaymentClaimable
	// (per payment-hash index)
	let mut held: std::collections::BTreeMap<usize, std::collections::BTreeSet<(usize, u64)>> = Default::default();
	let mut announced: std::collections::BTreeMap<usize, std::collections::BTreeSet<(usize, u64)>> = Default::default();
	let mut htlc_hidx: std::collections::HashMap<(usize, u64), usize> = Default::default();
	let stdin = io::stdin();
	let stdout = io::stdout();
	let mut out = stdout.lock();
	for line in stdin.lock().lines() {
		let line = line.unwrap();
		let t: Vec<&str> = line.split_whitespace().collect();
		if t.is_empty() {
			continue;
		}
		let mut obs = Obs::default();
		let mut note = String::new();
		// claim_funds for a set that was never announced by PaymentClaimable is API misuse (the library
		// forgets the held HTLCs): such a claim command is skipped and reported as such
		let claim_hidx = if t[0] == "claimks" { reg.last_keysend.map(|x| x.0).unwrap_or(usize::MAX) } else { 1 };
		let claim_ok = held.get(&claim_hidx).map(|h| !h.is_empty() && announced.get(&claim_hidx).map(|a| h.is_subset(a)).unwrap_or(false)).unwrap_or(false);
		let mut skipped = false;
		let r = panic::catch_unwind(AssertUnwindSafe(|| match t[0] {
			"invoice" => {
				let expiry_secs: u32 = t.get(3).and_then(|x| x.parse().ok()).unwrap_or(7200);
				let (h, s, _) = nodes[3]
					.node
					.create_inbound_payment(opt_u64(t[1]), expiry_secs, opt_u16(t[2]), None)
					.unwrap();
				hash = h;
				let _ = reg.idx(&h);
				secret = s;
				preimage = nodes[3].node.get_payment_preimage_decrypt_metadata(h, s, None).ok();
			},
			"part" => {
				let via: usize = t[1].parse().unwrap();
				let amt: u64 = t[2].parse().unwrap();
				let total: u64 = t[3].parse().unwrap();
				let extra: u32 = t[4].parse().unwrap();
				let flipped = t[5] != "0";
				let skim: Option<i64> = t.get(6).and_then(|x| x.parse().ok());
				// d=<n>: the final hop's CLTV delta exactly (the HTLC expires at sender height + 1 + n)
				let exact_delta: Option<u32> = t.iter().skip(6).find_map(|x| x.strip_prefix("d=").and_then(|v| v.parse().ok()));
				let pp = PaymentParameters::from_node_id(nodes[3].node.get_our_node_id(), TEST_FINAL_CLTV + extra)
					.with_bolt11_features(nodes[3].node.bolt11_invoice_features())
					.unwrap();
				let mut rp = RouteParameters::from_payment_params_and_value(pp, amt);
				rp.max_total_routing_fee_msat = None;
				let first = nodes[0]
					.node
					.list_usable_channels()
					.into_iter()
					.find(|c| c.counterparty.node_id == nodes[via].node.get_our_node_id())
					.unwrap();
				let scorer = lightning::util::test_utils::TestScorer::new();
				let mut route = lightning::routing::router::find_route(
					&nodes[0].node.get_our_node_id(),
					&rp,
					&nodes[0].network_graph,
					Some(&[&first]),
					nodes[0].logger,
					&scorer,
					&Default::default(),
					&[7u8; 32],
				)
				.unwrap();
				if let Some(d) = exact_delta {
					for path in route.paths.iter_mut() {
						if let Some(last) = path.hops.last_mut() {
							last.cltv_expiry_delta = d;
						}
					}
				}
				if let Some(sk) = skim {
					// the last hop goes over the forwarder's intercept scid: it decides what it forwards
					let scid = nodes[via].node.get_intercept_scid();
					for path in route.paths.iter_mut() {
						if let Some(last) = path.hops.last_mut() {
							last.short_channel_id = scid;
						}
					}
					PENDING_SKIM.store(sk, std::sync::atomic::Ordering::SeqCst);
				}
				let mut s = secret;
				if flipped {
					s.0[20] ^= 0x10;
				}
				part_no += 1;
				let onion = RecipientOnionFields::secret_only(s, total);
				nodes[0].node.send_payment_with_route(route, hash, onion, PaymentId([part_no; 32])).unwrap();
			},
			"keysend" => {
				// keysend <via> <amt> <kind> <secret> [<total>] [d=<n>]
				//   kind: 0 the preimage hashes to the payment hash | 1 it does not (the hash is that of another
				//   random preimage) | 2 it does not: the payment hash is the registered invoice's | 3 the same
				//   (hash, preimage) as the previous keysend command (a further part)
				//   secret: 0 no payment_data | 1 a random payment secret | 2 the registered invoice's secret
				use bitcoin::hashes::Hash;
				let via: usize = t[1].parse().unwrap();
				let amt: u64 = t[2].parse().unwrap();
				let kind: u8 = t[3].parse().unwrap();
				let sflag: u8 = t[4].parse().unwrap();
				let total: u64 = t.get(5).and_then(|x| x.parse().ok()).unwrap_or(amt);
				let exact_delta: Option<u32> = t.iter().skip(5).find_map(|x| x.strip_prefix("d=").and_then(|v| v.parse().ok()));
				ks_no += 1;
				let fresh = |tag: u8| lightning::types::payment::PaymentPreimage([tag; 32]);
				let (ph, pre) = match kind {
					0 => {
						let p = fresh(ks_no);
						(PaymentHash(bitcoin::hashes::sha256::Hash::hash(&p.0).to_byte_array()), p)
					},
					1 => {
						let q = fresh(ks_no ^ 0x80);
						(PaymentHash(bitcoin::hashes::sha256::Hash::hash(&q.0).to_byte_array()), fresh(ks_no))
					},
					2 => (hash, fresh(ks_no)),
					_ => last_ks.unwrap_or((hash, fresh(ks_no))),
				};
				last_ks = Some((ph, pre));
				let _ = reg.idx(&ph);
				let onion = match sflag {
					0 => RecipientOnionFields::spontaneous_empty(total),
					1 => RecipientOnionFields::secret_only(PaymentSecret([0x55; 32]), total),
					_ => RecipientOnionFields::secret_only(secret, total),
				};
				let pp = PaymentParameters::from_node_id(nodes[3].node.get_our_node_id(), TEST_FINAL_CLTV)
					.with_bolt11_features(nodes[3].node.bolt11_invoice_features())
					.unwrap();
				let mut rp = RouteParameters::from_payment_params_and_value(pp, amt);
				rp.max_total_routing_fee_msat = None;
				let first = nodes[0]
					.node
					.list_usable_channels()
					.into_iter()
					.find(|c| c.counterparty.node_id == nodes[via].node.get_our_node_id())
					.unwrap();
				let scorer = lightning::util::test_utils::TestScorer::new();
				let mut route = lightning::routing::router::find_route(
					&nodes[0].node.get_our_node_id(),
					&rp,
					&nodes[0].network_graph,
					Some(&[&first]),
					nodes[0].logger,
					&scorer,
					&Default::default(),
					&[7u8; 32],
				)
				.unwrap();
				if let Some(d) = exact_delta {
					for path in route.paths.iter_mut() {
						if let Some(last) = path.hops.last_mut() {
							last.cltv_expiry_delta = d;
						}
					}
				}
				part_no += 1;
				lightning::ln::channelmanager::verif_hooks_keysend::send_with_keysend_preimage(
					&*nodes[0].node,
					&route,
					ph,
					onion,
					Some(pre),
					PaymentId([part_no; 32]),
				)
				.unwrap();
			},
			"time" => {
				// one block whose header time is the genesis block's + <n> on every node: the
				// ChannelManagers' highest_seen_timestamp becomes max(old, that)
				let d: u64 = t[1].parse().unwrap();
				let tm = genesis_time + d;
				for node in nodes.iter() {
					let block = create_dummy_block(node.best_block_hash(), tm as u32, Vec::new());
					connect_block(node, &block);
				}
				if tm > now {
					now = tm;
				}
			},
			"claimks" => {
				if !claim_ok {
					skipped = true;
				} else if let Some((_, p)) = reg.last_keysend {
					nodes[3].node.claim_funds(p)
				}
			},
			"tick" => nodes[3].node.timer_tick_occurred(),
			"block" => {
				let n: u32 = t[1].parse().unwrap();
				for node in nodes.iter() {
					connect_blocks(node, n);
				}
			},
			"deadline" => {
				// up to (d < 0: below; d >= 0: at or past) the fail-back height of the k-th HTLC offered
				let k: usize = t[1].parse().unwrap();
				let d: i64 = t[2].parse().unwrap();
				let hfb: i64 = t[3].parse().unwrap();
				if !seen_cltv.is_empty() {
					let cltv = seen_cltv[k % seen_cltv.len()] as i64;
					let target = cltv - hfb + d;
					let cur = nodes[3].best_block_info().1 as i64;
					if target > cur {
						for node in nodes.iter() {
							connect_blocks(node, (target - cur) as u32);
						}
					}
				}
			},
			"claim" => {
				if !claim_ok {
					skipped = true;
				} else if let Some(p) = preimage {
					nodes[3].node.claim_funds(p)
				}
			},
			"claimknown" => {
				if !claim_ok {
					skipped = true;
				} else if let Some(p) = preimage {
					nodes[3].node.claim_funds_with_known_custom_tlvs(p)
				}
			},
			"failback" => nodes[3].node.fail_htlc_backwards(&hash),
			_ => {},
		}));
		if let Err(e) = r {
			note = if let Some(s) = e.downcast_ref::<String>() {
				s.clone()
			} else if let Some(s) = e.downcast_ref::<&str>() {
				s.to_string()
			} else {
				"panic".to_string()
			};
		}
		let r2 = panic::catch_unwind(AssertUnwindSafe(|| pump(&nodes, &chans, &mut obs, &mut reg)));
		for a in obs.adds.iter() {
			seen_cltv.push(a.3);
			held.entry(a.5).or_default().insert((a.0, a.1));
			htlc_hidx.insert((a.0, a.1), a.5);
		}
		for f in obs.fails.iter().chain(obs.fulfills.iter()) {
			if let Some(hx) = htlc_hidx.get(f) {
				if let Some(set) = held.get_mut(hx) {
					set.remove(f);
				}
			}
		}
		for c in obs.claimable.iter() {
			announced.insert(c.3, held.get(&c.3).cloned().unwrap_or_default());
		}
		if (t[0] == "claim" || t[0] == "claimknown" || t[0] == "claimks" || t[0] == "failback") && !skipped {
			announced.remove(&claim_hidx);
		}
		if r2.is_err() && note.is_empty() {
			note = "panic while delivering messages".to_string();
		}
		let claimed: Vec<String> = obs
			.claimed
			.iter()
			.map(|(a, hs, hx)| {
				format!(
					"[{},[{}],{}]",
					a,
					hs.iter().map(|(c, v, x)| format!("[{},{},{}]", c, v, x)).collect::<Vec<_>>().join(","),
					hx
				)
			})
			.collect();
		writeln!(
			out,
			"{{\"c04\":1,\"cmd\":\"{}\",\"height\":{},\"adds\":{},\"fulfills\":{},\"fails\":{},\"claimable\":{},\"claimed\":{},\"skipped\":{},\"now\":{},\"badfulfill\":{},\"panic\":\"{}\"}}",
			line.trim(),
			nodes[3].best_block_info().1,
			jl(&obs.adds.iter().map(|(c, h, a, x, sk, hx)| format!("[{},{},{},{},{},{}]", c, h, a, x, sk, hx)).collect::<Vec<_>>()),
			jl(&obs.fulfills.iter().map(|(c, h)| format!("[{},{}]", c, h)).collect::<Vec<_>>()),
			jl(&obs.fails.iter().map(|(c, h)| format!("[{},{}]", c, h)).collect::<Vec<_>>()),
			jl(&obs.claimable.iter().map(|(a, d, sk, hx, k, ok)| format!("[{},{},{},{},{},{}]", a, d, sk, hx, k, ok)).collect::<Vec<_>>()),
			jl(&claimed),
			if skipped { 1 } else { 0 },
			now - genesis_time,
			obs.bad_fulfills,
			note.replace('"', "'").replace('\n', " ")
		)
		.unwrap();
		out.flush().unwrap();
	}
	std::mem::forget(nodes);
}

fn main() {
	panic::set_hook(Box::new(|_| {}));
	let args: Vec<String> = std::env::args().collect();
	match args.get(1).map(|s| s.as_str()) {
		Some("secret") => secret_mode(),
		Some("mpp") => mpp_mode(
			args.get(2).and_then(|s| s.parse().ok()).unwrap_or(0),
			args.get(3).map(|s| s == "1").unwrap_or(false),
		),
		_ => eprintln!("usage: h_inbound secret | h_inbound mpp <style> [<recipient accepts underpaying HTLCs 0|1>]"),
	}
}
