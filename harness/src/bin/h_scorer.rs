//! C12: ProbabilisticScorer and OutputSweeper persistence, judged BEHAVIOURALLY.
//!
//! usage: h_scorer <n_scenarios> <seed> [ops]      one line `R {json}` per scenario
//!
//! Scorer: a 4-node network (functional_test_utils; channels 0-1, 1-2, 2-3, 0-2) provides the
//! graph. A seeded sequence of payment_path_failed / payment_path_successful / probe_failed /
//! probe_successful / time_passed, with time jumps from one second to 90 days (beyond both
//! half-lives), is applied to the scorer. After EVERY op the scorer is written and read back:
//!   * the copy must re-encode to the same bytes (canonical: map entries sorted by channel id);
//!   * the copy must answer every query like the original: `channel_penalty_msat`,
//!     `estimated_channel_liquidity_range`, `historical_estimated_payment_success_probability`
//!     (with and without fallback), `live_estimated_payment_success_probability` on a grid of
//!     (channel, direction, amount);
//!   * the copy is kept as a SHADOW and receives every further op in lock-step with the original;
//!     after each further op bytes and answers must still agree.
//! Sweeper: see `sweeper_scenario`.
use std::panic::{self, AssertUnwindSafe};
use std::time::Duration;

use bitcoin::secp256k1::PublicKey;
use lightning::ln::functional_test_utils::*;
use lightning::routing::gossip::{NetworkGraph, NodeId};
use lightning::routing::router::{CandidateRouteHop, Path, PublicHopCandidate, RouteHop};
use lightning::routing::scoring::{
	ChannelUsage, ProbabilisticScorer, ProbabilisticScoringDecayParameters, ProbabilisticScoringFeeParameters, ScoreLookUp, ScoreUpdate,
};
use lightning::types::features::{ChannelFeatures, NodeFeatures};
use lightning::util::ser::{BigSize, Readable, ReadableArgs, Writeable};
use lightning::util::test_utils::TestLogger;
use verif_harness::Rng;

use lightning::chain::{BlockLocator, Confirm, Listen};
use lightning::events::Event;
use lightning::ln::msgs::BaseMessageHandler;
use lightning::sign::ChangeDestinationSourceSync;
use lightning::util::persist::{KVStoreSync, OUTPUT_SWEEPER_PERSISTENCE_KEY, OUTPUT_SWEEPER_PERSISTENCE_PRIMARY_NAMESPACE, OUTPUT_SWEEPER_PERSISTENCE_SECONDARY_NAMESPACE};
use lightning::util::sweep::OutputSweeperSync;
use lightning::util::test_utils::{TestBroadcaster, TestChainSource, TestFeeEstimator, TestStore};

struct ChangeDest;
impl ChangeDestinationSourceSync for ChangeDest {
	fn get_change_destination_script(&self) -> Result<bitcoin::ScriptBuf, ()> {
		let mut v = vec![0x00u8, 0x14];
		v.extend_from_slice(&[0x42; 20]);
		Ok(bitcoin::ScriptBuf::from(v))
	}
}

type Sweeper<'a> = OutputSweeperSync<&'a TestBroadcaster, &'a ChangeDest, &'a TestFeeEstimator, &'a TestChainSource, &'a TestStore, &'a TestLogger, &'a lightning::util::dyn_signer::DynKeysInterface>;

#[derive(Default)]
struct SweepStats {
	blocks: usize,
	roundtrips: usize,
	shadow_checks: usize,
	tracked_max: usize,
	sweep_txs: usize,
	fails: Vec<String>,
}

/// tracked outputs in canonical form: signatures of the sweep transaction use fresh entropy, so the
/// spending transaction is identified by its txid (which does not cover witnesses)
fn tracked_canon(sw: &Sweeper) -> Vec<String> {
	use lightning::util::sweep::OutputSpendStatus;
	let mut v: Vec<String> = sw
		.tracked_spendable_outputs()
		.iter()
		.map(|t| {
			let status = match &t.status {
				OutputSpendStatus::PendingInitialBroadcast { delayed_until_height } => format!("PendingInitialBroadcast {:?}", delayed_until_height),
				OutputSpendStatus::PendingFirstConfirmation { first_broadcast_hash, latest_broadcast_height, latest_spending_tx } => {
					format!("PendingFirstConfirmation {} {} {}", first_broadcast_hash, latest_broadcast_height, latest_spending_tx.compute_txid())
				},
				OutputSpendStatus::PendingThresholdConfirmations { first_broadcast_hash, latest_broadcast_height, latest_spending_tx, confirmation_height, confirmation_hash } => {
					format!("PendingThresholdConfirmations {} {} {} {} {}", first_broadcast_hash, latest_broadcast_height, latest_spending_tx.compute_txid(), confirmation_height, confirmation_hash)
				},
			};
			format!("{:?} {:?} {:?} {}", t.descriptor, t.channel_id, t.counterparty_node_id, status)
		})
		.collect();
	v.sort();
	v
}

fn stored(store: &TestStore) -> Option<Vec<u8>> {
	KVStoreSync::read(store, OUTPUT_SWEEPER_PERSISTENCE_PRIMARY_NAMESPACE, OUTPUT_SWEEPER_PERSISTENCE_SECONDARY_NAMESPACE, OUTPUT_SWEEPER_PERSISTENCE_KEY).ok()
}

/// OutputSweeper: two nodes, a force close (with or without a pending HTLC); every SpendableOutputs
/// event is handed to a sweeper per node. After EVERY block the sweeper's persisted state is read
/// back into a second sweeper (own store and broadcaster): same best block, same
/// `tracked_spendable_outputs()`; the copy is kept as a shadow and receives every further block and
/// output in lock-step: same tracked outputs, same persisted bytes and the same sweep transactions
/// (by txid) after each further block.
fn sweeper_scenario(seed: u64) -> SweepStats {
	let mut rng = Rng(seed);
	let mut st = SweepStats::default();
	let chanmon_cfgs = create_chanmon_cfgs(2);
	let node_cfgs = create_node_cfgs(2, &chanmon_cfgs);
	let legacy = test_legacy_channel_config();
	let node_chanmgrs = create_node_chanmgrs(2, &node_cfgs, &[Some(legacy.clone()), Some(legacy)]);
	let nodes = create_network(2, &node_cfgs, &node_chanmgrs);
	for n in nodes.iter() {
		*n.connect_style.borrow_mut() = ConnectStyle::FullBlockViaListen;
	}
	let chan = create_announced_chan_between_nodes(&nodes, 0, 1);
	let ids: Vec<PublicKey> = nodes.iter().map(|n| n.node.get_our_node_id()).collect();
	if rng.below(2) == 0 {
		let (pre, _, _, _) = route_payment(&nodes[0], &[&nodes[1]], 2_000_000 + rng.below(1_000_000));
		if rng.below(2) == 0 {
			claim_payment(&nodes[0], &[&nodes[1]], pre);
		}
	}
	let closer = rng.below(2) as usize;
	let _ = nodes[closer].node.force_close_broadcasting_latest_txn(&chan.2, &ids[1 - closer], "closing".to_string());
	let mut mempool: Vec<bitcoin::Transaction> = nodes[closer].tx_broadcaster.txn_broadcasted.lock().unwrap().split_off(0);
	// per node: sweeper with its own store and broadcaster, plus shadows
	let change = ChangeDest;
	let fee = TestFeeEstimator::new(253);
	let stores: Vec<TestStore> = (0..2).map(|_| TestStore::new(false)).collect();
	let mk_bc = |i: usize| TestBroadcaster {
		txn_broadcasted: std::sync::Mutex::new(Vec::new()),
		txn_types: std::sync::Mutex::new(Vec::new()),
		blocks: std::sync::Arc::clone(&nodes[i].tx_broadcaster.blocks),
	};
	let bcs: Vec<TestBroadcaster> = (0..2).map(|i| mk_bc(i)).collect();
	let mut sweepers: Vec<Sweeper> = Vec::new();
	for i in 0..2 {
		let (h, ht) = nodes[i].best_block_info();
		sweepers.push(OutputSweeperSync::new(BlockLocator::new(h, ht), &bcs[i], &fee, None, &nodes[i].keys_manager.backing, &change, &stores[i], nodes[i].logger));
	}
	// shadows: (node, born at block, sweeper, its store, its broadcaster) -- leaked boxes keep the borrows simple
	let mut shadows: Vec<(usize, usize, Sweeper, &'static TestStore, &'static TestBroadcaster)> = Vec::new();
	let nblocks = 160 + rng.below(10) as usize;
	for b in 0..nblocks {
		let txs: Vec<bitcoin::Transaction> = std::mem::take(&mut mempool);
		for i in 0..2 {
			let (_, ht) = nodes[i].best_block_info();
			let block = create_dummy_block(nodes[i].best_block_hash(), 42 + b as u32, txs.clone());
			connect_block(&nodes[i], &block);
			sweepers[i].block_connected(&block, ht + 1);
			let _ = sweepers[i].regenerate_and_broadcast_spend_if_necessary();
			for (ni, _, sh, _, _) in shadows.iter() {
				if *ni == i {
					// a restored sweeper is brought up to date through `Confirm` (its stored tip may lag)
					let txdata: Vec<(usize, &bitcoin::Transaction)> = block.txdata.iter().enumerate().collect();
					sh.transactions_confirmed(&block.header, &txdata, ht + 1);
					sh.best_block_updated(&block.header, ht + 1);
					let _ = sh.regenerate_and_broadcast_spend_if_necessary();
				}
			}
			nodes[i].node.get_and_clear_pending_msg_events();
			nodes[i].chain_monitor.added_monitors.lock().unwrap().clear();
			let mut evs = nodes[i].node.get_and_clear_pending_events();
			evs.extend(nodes[i].chain_monitor.chain_monitor.get_and_clear_pending_events());
			for ev in evs {
				if let Event::SpendableOutputs { outputs, channel_id, .. } = ev {
					if sweepers[i].track_spendable_outputs(outputs.clone(), channel_id, Some(ids[1 - i]), false, None).is_err() {
						st.fails.push(format!("block {}: node {} sweeper refused to track outputs", b, i));
					}
					for (ni, _, sh, _, _) in shadows.iter() {
						if *ni == i {
							let _ = sh.track_spendable_outputs(outputs.clone(), channel_id, Some(ids[1 - i]), false, None);
						}
					}
				}
			}
			// transactions the node itself wants on chain (HTLC claims, ...)
			mempool.extend(nodes[i].tx_broadcaster.txn_broadcasted.lock().unwrap().split_off(0));
		}
		st.blocks += 1;
		for i in 0..2 {
			let tracked = tracked_canon(&sweepers[i]);
			st.tracked_max = st.tracked_max.max(tracked.len());
			let new_txs: Vec<bitcoin::Transaction> = bcs[i].txn_broadcasted.lock().unwrap().split_off(0);
			let mut new_ids: Vec<bitcoin::Txid> = new_txs.iter().map(|t| t.compute_txid()).collect();
			new_ids.sort();
			new_ids.dedup();
			st.sweep_txs += new_ids.len();
			let bytes = stored(&stores[i]);
			// shadows of this node must agree
			for (ni, born, sh, _sstore, sbc) in shadows.iter() {
				if *ni != i {
					continue;
				}
				st.shadow_checks += 1;
				if tracked_canon(sh) != tracked {
					st.fails.push(format!("block {}: node {}: a sweeper read back at block {} now tracks different outputs ({:?} vs {:?})", b, i, born, tracked_canon(sh), tracked));
				}
				if sh.current_best_block().block_hash != sweepers[i].current_best_block().block_hash {
					st.fails.push(format!("block {}: node {}: a sweeper read back at block {} and fed the same blocks has another best block", b, i, born));
				}
				let mut sids: Vec<bitcoin::Txid> = sbc.txn_broadcasted.lock().unwrap().split_off(0).iter().map(|t| t.compute_txid()).collect();
				sids.sort();
				sids.dedup();
				if sids != new_ids {
					st.fails.push(format!("block {}: node {}: a sweeper read back at block {} broadcasts different sweeps ({} vs {} transactions)", b, i, born, sids.len(), new_ids.len()));
				}
			}
			// the sweeps go into the next block (deduplicated by txid)
			for t in new_txs {
				if !mempool.iter().any(|m| m.compute_txid() == t.compute_txid()) {
					mempool.push(t);
				}
			}
			// fresh round trip of the persisted state
			if let Some(bytes) = bytes {
				let sstore: &'static TestStore = Box::leak(Box::new(TestStore::new(false)));
				let sbc: &'static TestBroadcaster = Box::leak(Box::new(mk_bc(i)));
				let r = <(BlockLocator, Sweeper) as ReadableArgs<_>>::read(&mut &bytes[..], (sbc, &fee, None, &nodes[i].keys_manager.backing, &change, sstore, nodes[i].logger));
				match r {
					Err(e) => st.fails.push(format!("block {}: node {}: persisted sweeper state does not read back: {:?}", b, i, e)),
					Ok((bb, copy)) => {
						st.roundtrips += 1;
						// the state is persisted when it changes, not on every block: the stored tip may lag
						if bb.height > sweepers[i].current_best_block().height {
							st.fails.push(format!("block {}: node {}: re-read sweeper is AHEAD of the live one", b, i));
						}
						if tracked_canon(&copy) != tracked {
							st.fails.push(format!("block {}: node {}: re-read sweeper tracks different outputs", b, i));
						}
						let have = shadows.iter().filter(|x| x.0 == i).count();
						if !tracked.is_empty() && (have < 3 || rng.below(8) == 0) {
							if have >= 5 {
								let k = shadows.iter().position(|x| x.0 == i).unwrap();
								let old = shadows.remove(k);
								std::mem::forget(old);
							}
							shadows.push((i, b, copy, sstore, sbc));
						} else {
							std::mem::forget(copy);
						}
					},
				}
			}
		}
		st.fails.truncate(4);
		if !st.fails.is_empty() {
			break;
		}
	}
	std::mem::forget(shadows);
	std::mem::forget(sweepers);
	for n in nodes.iter() {
		n.node.get_and_clear_pending_events();
		n.node.get_and_clear_pending_msg_events();
		n.chain_monitor.added_monitors.lock().unwrap().clear();
	}
	std::mem::forget(nodes);
	st
}

type Scorer<'a> = ProbabilisticScorer<&'a NetworkGraph<&'a TestLogger>, &'a TestLogger>;

/// canonical form of the scorer encoding: (scid, entry bytes) sorted by scid
fn canon(bytes: &[u8]) -> Result<Vec<(u64, Vec<u8>)>, String> {
	let mut r = &bytes[..];
	let e = |x: lightning::ln::msgs::DecodeError| format!("{:?}", x);
	let _total: BigSize = Readable::read(&mut r).map_err(e)?;
	let ty: BigSize = Readable::read(&mut r).map_err(e)?;
	if ty.0 != 0 {
		return Err(format!("first TLV type {}", ty.0));
	}
	let _len: BigSize = Readable::read(&mut r).map_err(e)?;
	let count: lightning::util::ser::CollectionLength = Readable::read(&mut r).map_err(e)?;
	let mut out = Vec::new();
	for _ in 0..count.0 {
		let scid: u64 = Readable::read(&mut r).map_err(e)?;
		let before = r;
		let l: BigSize = Readable::read(&mut r).map_err(e)?;
		let hdr = before.len() - r.len();
		if (r.len() as u64) < l.0 {
			return Err("entry longer than the encoding".to_string());
		}
		let mut entry = before[..hdr + l.0 as usize].to_vec();
		r = &r[l.0 as usize..];
		out.push((scid, std::mem::take(&mut entry)));
	}
	out.sort();
	Ok(out)
}

struct Chan {
	scid: u64,
	a: PublicKey,
	b: PublicKey,
}

/// every query the router could ask, rendered as text
fn answers(s: &Scorer, graph: &NetworkGraph<&TestLogger>, chans: &[Chan], fee_params: &ProbabilisticScoringFeeParameters) -> String {
	let mut out = String::new();
	let g = graph.read_only();
	for c in chans {
		for target_pk in [&c.a, &c.b] {
			let target = NodeId::from_pubkey(target_pk);
			out.push_str(&format!("[{} {:?}] range={:?}", c.scid, &target.as_slice()[..2], s.estimated_channel_liquidity_range(c.scid, &target)));
			let info = match g.channels().get(&c.scid).and_then(|ch| ch.as_directed_to(&target)) {
				Some((i, _)) => i,
				None => {
					out.push_str(" nodir;");
					continue;
				},
			};
			let cap = info.effective_capacity().as_msat();
			for amt in [1_000u64, 1_000_000, cap / 4, cap / 2, cap.saturating_sub(1), cap] {
				let h1 = s.historical_estimated_payment_success_probability(c.scid, &target, amt, fee_params, true).map(|f| f.to_bits());
				let h2 = s.historical_estimated_payment_success_probability(c.scid, &target, amt, fee_params, false).map(|f| f.to_bits());
				let l = s.live_estimated_payment_success_probability(c.scid, &target, amt, fee_params).map(|f| f.to_bits());
				let cand = CandidateRouteHop::PublicHop(PublicHopCandidate { info: info.clone(), short_channel_id: c.scid });
				let p0 = s.channel_penalty_msat(&cand, ChannelUsage { amount_msat: amt, inflight_htlc_msat: 0, effective_capacity: info.effective_capacity() }, fee_params);
				let p1 = s.channel_penalty_msat(&cand, ChannelUsage { amount_msat: amt / 2, inflight_htlc_msat: amt / 2, effective_capacity: info.effective_capacity() }, fee_params);
				out.push_str(&format!(" {}:{:?}/{:?}/{:?}/{}/{}", amt, h1, h2, l, p0, p1));
			}
			out.push(';');
		}
	}
	out
}

#[derive(Default)]
struct Stats {
	ops: usize,
	roundtrips: usize,
	shadow_checks: usize,
	decays: usize,
	entries_max: usize,
	kinds: [usize; 5],
	fails: Vec<String>,
}
impl Stats {
	fn fail(&mut self, s: String) {
		if self.fails.len() < 4 {
			self.fails.push(s);
		}
	}
}

fn scorer_scenario(seed: u64, nops: usize) -> Stats {
	let mut rng = Rng(seed);
	let mut st = Stats::default();
	let chanmon_cfgs = create_chanmon_cfgs(4);
	let node_cfgs = create_node_cfgs(4, &chanmon_cfgs);
	let node_chanmgrs = create_node_chanmgrs(4, &node_cfgs, &[None, None, None, None]);
	let nodes = create_network(4, &node_cfgs, &node_chanmgrs);
	for n in nodes.iter() {
		*n.connect_style.borrow_mut() = ConnectStyle::BestBlockFirst;
	}
	let ids: Vec<PublicKey> = nodes.iter().map(|n| n.node.get_our_node_id()).collect();
	let mut chans = Vec::new();
	for (a, b, val) in [(0usize, 1usize, 100_000u64), (1, 2, 1_000_000), (2, 3, 50_000), (0, 2, 300_000)] {
		let c = create_announced_chan_between_nodes_with_value(&nodes, a, b, val, 0);
		chans.push(Chan { scid: c.0.contents.short_channel_id, a: ids[a], b: ids[b] });
	}
	let graph: &NetworkGraph<&TestLogger> = nodes[0].network_graph;
	let logger: &TestLogger = nodes[0].logger;
	let decay = ProbabilisticScoringDecayParameters::default();
	let fee_params = ProbabilisticScoringFeeParameters::default();
	let mut scorer: Scorer = ProbabilisticScorer::new(decay, graph, logger);
	let mut shadows: Vec<(usize, Scorer)> = Vec::new();
	let hop = |to: usize, scid: u64, fee: u64| RouteHop {
		pubkey: ids[to],
		node_features: NodeFeatures::empty(),
		short_channel_id: scid,
		channel_features: ChannelFeatures::empty(),
		fee_msat: fee,
		cltv_expiry_delta: 40,
		maybe_announced_channel: true,
	};
	// candidate paths over the four channels (node index sequence)
	let routes: Vec<Vec<usize>> = vec![vec![0, 1, 2, 3], vec![0, 2, 3], vec![0, 1, 2], vec![0, 2], vec![3, 2, 1, 0], vec![2, 0], vec![1, 2, 3], vec![3, 2, 0]];
	let scid_of = |x: usize, y: usize| -> u64 {
		chans.iter().find(|c| (c.a == ids[x] && c.b == ids[y]) || (c.a == ids[y] && c.b == ids[x])).unwrap().scid
	};
	let mut now = Duration::from_secs(1_700_000_000);
	let jumps: [u64; 12] = [1, 30, 600, 3600, 6 * 3600, 86_400, 5 * 86_400, 13 * 86_400, 15 * 86_400, 30 * 86_400, 90 * 86_400, 1];
	for opi in 0..nops {
		// advance the clock
		let j = jumps[rng.below(jumps.len() as u64) as usize];
		now += Duration::from_secs(j);
		if j > 14 * 86_400 {
			st.decays += 1;
		}
		let kind = rng.below(6);
		let route = &routes[rng.below(routes.len() as u64) as usize];
		let amt = match rng.below(5) {
			0 => 1_000,
			1 => 1_000_000 + rng.below(5_000_000),
			2 => 10_000_000 + rng.below(20_000_000),
			3 => 40_000_000,
			_ => rng.below(60_000_000) + 1,
		};
		let mut hops = Vec::new();
		for w in route.windows(2) {
			hops.push(hop(w[1], scid_of(w[0], w[1]), 1000));
		}
		let last = hops.len() - 1;
		hops[last].fee_msat = amt;
		let path = Path { hops, blinded_tail: None };
		let fail_at = path.hops[rng.below(path.hops.len() as u64) as usize].short_channel_id;
		let apply = |s: &mut Scorer| match kind {
			0 => s.payment_path_failed(&path, fail_at, now),
			1 => s.payment_path_successful(&path, now),
			2 => s.probe_failed(&path, fail_at, now),
			3 => s.probe_successful(&path, now),
			_ => s.time_passed(now),
		};
		st.kinds[(kind as usize).min(4)] += 1;
		apply(&mut scorer);
		for (_, sh) in shadows.iter_mut() {
			apply(sh);
		}
		st.ops += 1;
		let bytes = scorer.encode();
		let c0 = match canon(&bytes) {
			Ok(c) => c,
			Err(e) => {
				st.fail(format!("op {}: cannot parse the scorer's own encoding: {}", opi, e));
				break;
			},
		};
		st.entries_max = st.entries_max.max(c0.len());
		let a0 = answers(&scorer, graph, &chans, &fee_params);
		// shadows (copies made earlier, fed the same ops since) must still agree
		for (born, sh) in shadows.iter() {
			st.shadow_checks += 1;
			let cb = canon(&sh.encode()).unwrap_or_default();
			if cb != c0 {
				let which = c0.iter().zip(cb.iter()).find(|(x, y)| x != y).map(|(x, _)| x.0);
				st.fail(format!("op {} (kind {}, t+{}s): a copy read back after op {} and fed the same ops since now ENCODES differently (first differing channel {:?})", opi, kind, j, born, which));
			}
			let ab = answers(sh, graph, &chans, &fee_params);
			if ab != a0 {
				st.fail(format!("op {} (kind {}, t+{}s): a copy read back after op {} and fed the same ops since now SCORES differently", opi, kind, j, born));
			}
		}
		// fresh round trip
		match <Scorer as ReadableArgs<(ProbabilisticScoringDecayParameters, &NetworkGraph<&TestLogger>, &TestLogger)>>::read(&mut &bytes[..], (decay, graph, logger)) {
			Err(e) => st.fail(format!("op {}: scorer does not read back: {:?}", opi, e)),
			Ok(copy) => {
				st.roundtrips += 1;
				let c1 = canon(&copy.encode()).unwrap_or_default();
				if c1 != c0 {
					let which = c0.iter().zip(c1.iter()).find(|(x, y)| x != y).map(|(x, _)| x.0);
					st.fail(format!("op {} (kind {}, t+{}s): the re-read scorer re-encodes differently (first differing channel {:?})", opi, kind, j, which));
				}
				let a1 = answers(&copy, graph, &chans, &fee_params);
				if a1 != a0 {
					st.fail(format!("op {} (kind {}, t+{}s): the re-read scorer answers queries differently", opi, kind, j));
				}
				if shadows.len() < 6 || rng.below(3) == 0 {
					if shadows.len() >= 10 {
						let k = rng.below(shadows.len() as u64) as usize;
						shadows.remove(k);
					}
					shadows.push((opi, copy));
				}
			},
		}
	}
	std::mem::forget(shadows);
	std::mem::forget(scorer);
	std::mem::forget(nodes);
	st
}

fn main() {
	let args: Vec<String> = std::env::args().collect();
	let n: u64 = args.get(1).and_then(|s| s.parse().ok()).unwrap_or(2);
	let seed: u64 = args.get(2).and_then(|s| s.parse().ok()).unwrap_or(1);
	let nops: usize = args.get(3).and_then(|s| s.parse().ok()).unwrap_or(60);
	if std::env::var("H_PERSIST_TRACE").is_err() {
		panic::set_hook(Box::new(|_| {}));
	}
	let mut rng = Rng(seed ^ 0x5c0_4e4);
	for i in 0..n {
		let s = rng.next();
		let r = panic::catch_unwind(AssertUnwindSafe(|| scorer_scenario(s, nops)));
		match r {
			Ok(st) => {
				let fails: Vec<String> = st.fails.iter().map(|f| format!("\"{}\"", f.replace('\\', "/").replace('"', "'"))).collect();
				println!(
					"R {{\"kind\": \"scorer\", \"scenario\": {}, \"seed\": {}, \"ok\": {}, \"ops\": {}, \"roundtrips\": {}, \"shadow_checks\": {}, \"long_jumps\": {}, \"entries_max\": {}, \"op_kinds\": [{}, {}, {}, {}, {}], \"fails\": [{}]}}",
					i, s, if st.fails.is_empty() { "true" } else { "false" }, st.ops, st.roundtrips, st.shadow_checks, st.decays, st.entries_max,
					st.kinds[0], st.kinds[1], st.kinds[2], st.kinds[3], st.kinds[4], fails.join(", ")
				);
			},
			Err(_) => println!("R {{\"kind\": \"scorer\", \"scenario\": {}, \"seed\": {}, \"ok\": false, \"fails\": [\"scorer scenario panicked\"]}}", i, s),
		}
		let s2 = rng.next();
		let r = panic::catch_unwind(AssertUnwindSafe(|| sweeper_scenario(s2)));
		match r {
			Ok(st) => {
				let fails: Vec<String> = st.fails.iter().map(|f| format!("\"{}\"", f.replace('\\', "/").replace('"', "'"))).collect();
				println!(
					"R {{\"kind\": \"sweeper\", \"scenario\": {}, \"seed\": {}, \"ok\": {}, \"blocks\": {}, \"roundtrips\": {}, \"shadow_checks\": {}, \"tracked_max\": {}, \"sweep_txs\": {}, \"fails\": [{}]}}",
					i, s2, if st.fails.is_empty() { "true" } else { "false" }, st.blocks, st.roundtrips, st.shadow_checks, st.tracked_max, st.sweep_txs, fails.join(", ")
				);
			},
			Err(_) => println!("R {{\"kind\": \"sweeper\", \"scenario\": {}, \"seed\": {}, \"ok\": false, \"fails\": [\"sweeper scenario panicked\"]}}", i, s2),
		}
	}
}
