//! C15 cipher-level correspondence: drives the real `PeerChannelEncryptor` (both roles) with fixed
//! static/ephemeral keys and prints acts, ciphertexts and the internal Noise state after every
//! operation, plus the secp256k1 facts the Coq model takes as data (public keys, validity of a
//! 33-byte encoding, ECDH results).
//!
//! Session state: two finished encryptors `a` (initiator / first party) and `b`.
//! Case lines (one result line each, `key=value` fields separated by spaces):
//!   hs <ls_i> <ie> <ls_r> <re>                 full handshake; sets a, b
//!   st <sk> <sn> <sck> <rk> <rn> <rck>         a := that transport state, b := its mirror
//!   msg <dir> <hex>                            dir 0: a sends to b, 1: b sends to a
//!   msgn <dir> <len> <seed> <full>             same with a generated payload; full=0 omits c/m hex
//!   recv <dir> <hex frame>                     receiver of direction dir (a copy) reads a frame
//!   act1 <ls_r> <re> <act hex>                 fresh responder processes an act one
//!   act2 <ls_i> <ie> <rs_pub> <act hex>        fresh initiator (after get_act_one) processes an act two
//!   act3 <ls_i> <ie> <ls_r> <re> <act hex>     responder after an honest act one/two processes an act three
//!   volume <n> <seed> <every>                  n random messages, checks on the implementation only
use bitcoin::hashes::sha256::Hash as Sha256;
use bitcoin::hashes::Hash;
use bitcoin::secp256k1::ecdh::SharedSecret;
use bitcoin::secp256k1::{PublicKey, Secp256k1, SecretKey};
use lightning::ln::verif_hooks::encryptor as eh;
use lightning::ln::verif_hooks::{MessageBuf, PeerChannelEncryptor};
use lightning::util::test_utils::TestNodeSigner;
use verif_harness::*;

type St = ([u8; 32], u64, [u8; 32], [u8; 32], u64, [u8; 32]);

fn sk_of(h: &str) -> SecretKey {
	SecretKey::from_slice(&unhex(h)).expect("secret key")
}
fn arr32(h: &str) -> [u8; 32] {
	let v = unhex(h);
	let mut a = [0u8; 32];
	a.copy_from_slice(&v);
	a
}
fn show_st(s: &St) -> String {
	format!("{},{},{},{},{},{}", hex(&s.0), s.1, hex(&s.2), hex(&s.3), s.4, hex(&s.5))
}
fn st_of(e: &PeerChannelEncryptor) -> String {
	match eh::transport_state(e) {
		Some(s) => show_st(&s),
		None => match eh::handshake_state(e) {
			Some((h, ck)) => format!("hs:{},{}", hex(&h), hex(&ck)),
			None => "?".to_string(),
		},
	}
}
fn copy_of(e: &PeerChannelEncryptor, id: PublicKey) -> PeerChannelEncryptor {
	let s = eh::transport_state(e).expect("finished");
	eh::from_transport_state(id, s.0, s.1, s.2, s.3, s.4, s.5)
}
fn payload(len: usize, seed: u64) -> Vec<u8> {
	let mut r = Rng(seed);
	let mut v = Vec::with_capacity(len);
	while v.len() < len {
		let x = r.next().to_le_bytes();
		for b in x.iter() {
			if v.len() < len {
				v.push(*b);
			}
		}
	}
	v
}
/// curve facts for the model: pub rows `sk:pub`, dh rows `sk:pub:ss`
struct Curve {
	pubs: Vec<String>,
	dhs: Vec<String>,
	valid: Vec<String>,
}
impl Curve {
	fn new() -> Self {
		Curve { pubs: vec![], dhs: vec![], valid: vec![] }
	}
	fn add_key(&mut self, sk: &SecretKey) -> PublicKey {
		let secp = Secp256k1::signing_only();
		let p = PublicKey::from_secret_key(&secp, sk);
		self.pubs.push(format!("{}:{}", hex(&sk.secret_bytes()), hex(&p.serialize())));
		self.valid.push(hex(&p.serialize()));
		p
	}
	fn add_dh(&mut self, sk: &SecretKey, pk: &PublicKey) {
		let ss = SharedSecret::new(pk, sk);
		self.dhs.push(format!(
			"{}:{}:{}",
			hex(&sk.secret_bytes()),
			hex(&pk.serialize()),
			hex(ss.as_ref())
		));
	}
	/// a 33-byte string taken from an act: valid encoding? if so, ECDH rows with the given secrets
	fn add_foreign(&mut self, bytes: &[u8], secrets: &[&SecretKey]) {
		if let Ok(pk) = PublicKey::from_slice(bytes) {
			self.valid.push(hex(bytes));
			for s in secrets {
				self.add_dh(s, &pk);
			}
		}
	}
	fn show(&self) -> String {
		format!("pubs={} dh={} valid={}", self.pubs.join(";"), self.dhs.join(";"), self.valid.join(";"))
	}
}

struct Session {
	a: Option<PeerChannelEncryptor>,
	b: Option<PeerChannelEncryptor>,
	id: PublicKey,
}

fn honest_hs(
	ls_i: &SecretKey, ie: &SecretKey, ls_r: &SecretKey, re: &SecretKey, cv: &mut Curve,
) -> (Vec<Vec<u8>>, Vec<String>, PeerChannelEncryptor, PeerChannelEncryptor, PublicKey, PublicKey) {
	let secp = Secp256k1::new();
	let p_ls_i = cv.add_key(ls_i);
	let p_ie = cv.add_key(ie);
	let p_ls_r = cv.add_key(ls_r);
	let p_re = cv.add_key(re);
	// every ECDH either side computes
	cv.add_dh(ie, &p_ls_r);
	cv.add_dh(ls_r, &p_ie);
	cv.add_dh(re, &p_ie);
	cv.add_dh(ie, &p_re);
	cv.add_dh(ls_i, &p_re);
	cv.add_dh(re, &p_ls_i);
	let signer_i = TestNodeSigner::new(*ls_i);
	let signer_r = TestNodeSigner::new(*ls_r);
	let mut init = PeerChannelEncryptor::new_outbound(p_ls_r, *ie);
	let mut resp = PeerChannelEncryptor::new_inbound(&&signer_r);
	let mut states = vec![];
	let act1 = init.get_act_one(&secp).to_vec();
	states.push(st_of(&init));
	let act2 = resp.process_act_one_with_keys(&act1, &&signer_r, *re, &secp).expect("act1").to_vec();
	states.push(st_of(&resp));
	let (act3, id_r) = init.process_act_two(&act2, &&signer_i).expect("act2");
	let id_i = resp.process_act_three(&act3).expect("act3");
	(vec![act1, act2, act3.to_vec()], states, init, resp, id_r, id_i)
}

fn main() {
	let dummy_id = PublicKey::from_secret_key(&Secp256k1::signing_only(), &SecretKey::from_slice(&[1u8; 32]).unwrap());
	let mut s = Session { a: None, b: None, id: dummy_id };
	for_each_case(|l| {
		let t: Vec<&str> = l.split_whitespace().collect();
		match t[0] {
			"hs" => {
				let (ls_i, ie, ls_r, re) = (sk_of(t[1]), sk_of(t[2]), sk_of(t[3]), sk_of(t[4]));
				let mut cv = Curve::new();
				let (acts, hs_states, a, b, id_r, id_i) = honest_hs(&ls_i, &ie, &ls_r, &re, &mut cv);
				let out = format!(
					"acts={},{},{} ids={},{} hs={} a={} b={} {}",
					hex(&acts[0]),
					hex(&acts[1]),
					hex(&acts[2]),
					hex(&id_r.serialize()),
					hex(&id_i.serialize()),
					hs_states.join(";"),
					st_of(&a),
					st_of(&b),
					cv.show()
				);
				s.a = Some(a);
				s.b = Some(b);
				out
			},
			"st" => {
				let (sk, sn, sck) = (arr32(t[1]), t[2].parse::<u64>().unwrap(), arr32(t[3]));
				let (rk, rn, rck) = (arr32(t[4]), t[5].parse::<u64>().unwrap(), arr32(t[6]));
				s.a = Some(eh::from_transport_state(s.id, sk, sn, sck, rk, rn, rck));
				s.b = Some(eh::from_transport_state(s.id, rk, rn, rck, sk, sn, sck));
				format!("a={} b={}", st_of(s.a.as_ref().unwrap()), st_of(s.b.as_ref().unwrap()))
			},
			"msg" | "msgn" => {
				let dir = t[1] == "1";
				let (m, full) = if t[0] == "msg" {
					(if t.len() > 2 { unhex(t[2]) } else { vec![] }, true)
				} else {
					(payload(t[2].parse().unwrap(), t[3].parse().unwrap()), t[4] == "1")
				};
				let (snd, rcv) = if dir {
					(s.b.as_mut().unwrap(), s.a.as_mut().unwrap())
				} else {
					(s.a.as_mut().unwrap(), s.b.as_mut().unwrap())
				};
				let buf = match MessageBuf::from_encoded(&m) {
					Ok(b) => b,
					Err(()) => return "ENC-ERR".to_string(),
				};
				let c = snd.encrypt_buffer(buf);
				let len = match rcv.decrypt_length_header(&c[..18]) {
					Ok(l) => l,
					Err(_) => return format!("c={} HDR-ERR", hex(&c)),
				};
				let mut body = c[18..].to_vec();
				if rcv.decrypt_message(&mut body).is_err() {
					return format!("c={} BODY-ERR", hex(&c));
				}
				let pt = &body[..body.len() - 16];
				let ok = pt == &m[..] && len as usize == m.len() && c.len() == m.len() + 34;
				let a = st_of(s.a.as_ref().unwrap());
				let b = st_of(s.b.as_ref().unwrap());
				if full {
					format!("c={} len={} m={} ok={} a={} b={}", hex(&c), len, hex(pt), ok, a, b)
				} else {
					format!(
						"ch={} len={} mh={} ok={} a={} b={}",
						hex(&Sha256::hash(&c).to_byte_array()),
						len,
						hex(&Sha256::hash(pt).to_byte_array()),
						ok,
						a,
						b
					)
				}
			},
			"recv" => {
				let dir = t[1] == "1";
				let frame = unhex(t[2]);
				let rcv = if dir { s.a.as_ref().unwrap() } else { s.b.as_ref().unwrap() };
				let mut r = copy_of(rcv, s.id);
				if frame.len() < 18 {
					return "TOO-SHORT".to_string();
				}
				let len = match r.decrypt_length_header(&frame[..18]) {
					Ok(l) => l,
					Err(_) => return "HDR-ERR".to_string(),
				};
				if len < 2 {
					return "SHORT".to_string();
				}
				if frame.len() < 18 + len as usize + 16 {
					return "TOO-SHORT".to_string();
				}
				let mut body = frame[18..18 + len as usize + 16].to_vec();
				match r.decrypt_message(&mut body) {
					Ok(()) => format!("OK {}", hex(&body[..len as usize])),
					Err(_) => "BODY-ERR".to_string(),
				}
			},
			"act1" => {
				let (ls_r, re) = (sk_of(t[1]), sk_of(t[2]));
				let act = unhex(t[3]);
				let secp = Secp256k1::new();
				let mut cv = Curve::new();
				cv.add_key(&ls_r);
				let p_re = cv.add_key(&re);
				let _ = p_re;
				cv.add_foreign(&act[1..34], &[&ls_r, &re]);
				let signer_r = TestNodeSigner::new(ls_r);
				let mut resp = PeerChannelEncryptor::new_inbound(&&signer_r);
				match resp.process_act_one_with_keys(&act, &&signer_r, re, &secp) {
					Ok(a2) => format!("OK {} st={} {}", hex(&a2), st_of(&resp), cv.show()),
					Err(_) => format!("ERR {}", cv.show()),
				}
			},
			"act2" => {
				let (ls_i, ie) = (sk_of(t[1]), sk_of(t[2]));
				let rs_pub = PublicKey::from_slice(&unhex(t[3])).expect("pub");
				let act = unhex(t[4]);
				let secp = Secp256k1::new();
				let mut cv = Curve::new();
				cv.add_key(&ls_i);
				cv.add_key(&ie);
				cv.valid.push(hex(&rs_pub.serialize()));
				cv.add_dh(&ie, &rs_pub);
				cv.add_foreign(&act[1..34], &[&ie, &ls_i]);
				let signer_i = TestNodeSigner::new(ls_i);
				let mut init = PeerChannelEncryptor::new_outbound(rs_pub, ie);
				let a1 = init.get_act_one(&secp);
				match init.process_act_two(&act, &&signer_i) {
					Ok((a3, id)) => format!(
						"OK {} id={} act1={} st={} {}",
						hex(&a3),
						hex(&id.serialize()),
						hex(&a1),
						st_of(&init),
						cv.show()
					),
					Err(_) => format!("ERR act1={} {}", hex(&a1), cv.show()),
				}
			},
			"act3" => {
				let (ls_i, ie, ls_r, re) = (sk_of(t[1]), sk_of(t[2]), sk_of(t[3]), sk_of(t[4]));
				let act = unhex(t[5]);
				let secp = Secp256k1::new();
				let mut cv = Curve::new();
				let p_ls_i = cv.add_key(&ls_i);
				let p_ie = cv.add_key(&ie);
				let p_ls_r = cv.add_key(&ls_r);
				let _p_re = cv.add_key(&re);
				cv.add_dh(&ie, &p_ls_r);
				cv.add_dh(&ls_r, &p_ie);
				cv.add_dh(&re, &p_ie);
				cv.add_dh(&re, &p_ls_i);
				let signer_r = TestNodeSigner::new(ls_r);
				let mut init = PeerChannelEncryptor::new_outbound(p_ls_r, ie);
				let mut resp = PeerChannelEncryptor::new_inbound(&&signer_r);
				let a1 = init.get_act_one(&secp);
				let a2 = resp.process_act_one_with_keys(&a1, &&signer_r, re, &secp).expect("act1");
				match resp.process_act_three(&act) {
					Ok(id) => format!(
						"OK id={} act1={} act2={} st={} {}",
						hex(&id.serialize()),
						hex(&a1),
						hex(&a2),
						st_of(&resp),
						cv.show()
					),
					Err(_) => format!("ERR act1={} act2={} {}", hex(&a1), hex(&a2), cv.show()),
				}
			},
			"volume" => {
				// implementation-only judge over many messages (crosses several rotations):
				// every message decrypts to itself, the two ends mirror each other after every
				// message, and a direction's key changes exactly when its nonce wraps
				let n: u64 = t[1].parse().unwrap();
				let mut r = Rng(t[2].parse().unwrap());
				let every: u64 = t[3].parse().unwrap();
				let mut bad: Vec<String> = vec![];
				let mut cps: Vec<String> = vec![];
				let mut rot = [0u64; 2];
				let mut sent = [0u64; 2];
				let mut max_sn = [0u64; 2];
				for i in 0..n {
					let dir = r.below(4) == 0;
					let len = match r.below(20) {
						0 => 65535,
						1 => 65534,
						2 => 2,
						3 => 3,
						4 => 1000 + r.below(3000),
						_ => 2 + r.below(200),
					} as usize;
					let m = payload(len, r.next());
					let (snd, rcv) = if dir {
						(s.b.as_mut().unwrap(), s.a.as_mut().unwrap())
					} else {
						(s.a.as_mut().unwrap(), s.b.as_mut().unwrap())
					};
					let before = eh::transport_state(snd).unwrap();
					let c = snd.encrypt_buffer(MessageBuf::from_encoded(&m).unwrap());
					let after = eh::transport_state(snd).unwrap();
					let d = dir as usize;
					sent[d] += 1;
					if after.0 != before.0 {
						rot[d] += 1;
						if after.1 != 2 {
							bad.push(format!("msg {}: key changed but sn={}", i, after.1));
						}
					} else if after.1 != before.1 + 2 {
						bad.push(format!("msg {}: sn {} -> {}", i, before.1, after.1));
					}
					if after.1 > max_sn[d] {
						max_sn[d] = after.1;
					}
					let ok = (|| {
						let len2 = rcv.decrypt_length_header(&c[..18]).ok()?;
						let mut body = c[18..].to_vec();
						rcv.decrypt_message(&mut body).ok()?;
						Some(len2 as usize == m.len() && body[..m.len()] == m[..] && c.len() == m.len() + 34)
					})();
					if ok != Some(true) {
						bad.push(format!("msg {} dir {} len {}: not delivered intact", i, d, len));
						break;
					}
					let sa = eh::transport_state(s.a.as_ref().unwrap()).unwrap();
					let sb = eh::transport_state(s.b.as_ref().unwrap()).unwrap();
					if !(sa.0 == sb.3 && sa.1 == sb.4 && sa.2 == sb.5 && sa.3 == sb.0 && sa.4 == sb.1 && sa.5 == sb.2) {
						bad.push(format!("msg {}: ends out of lock-step", i));
						break;
					}
					if every > 0 && (i + 1) % every == 0 {
						cps.push(format!("{}@{}", i + 1, show_st(&sa)));
					}
				}
				format!(
					"n={} sent={},{} rot={},{} max_sn={},{} bad={} cps={}",
					n,
					sent[0],
					sent[1],
					rot[0],
					rot[1],
					max_sn[0],
					max_sn[1],
					if bad.is_empty() { "-".to_string() } else { bad.join("|").replace(' ', "_") },
					cps.join(";")
				)
			},
			_ => "BADCMD".to_string(),
		}
	});
}
