//! C14 end to end on real `ChannelManager`s (`functional_test_utils`): a payment over 0 -> 1 -> 2, optionally to a
//! PHANTOM node behind node 2, is claimed or failed by the recipient; the sender's events must report the hold
//! times of every hop (attribution data) and, for failures, the failing hop and code.  The messages node 2 sends
//! back (fulfil attribution data / failure packet) are printed together with the shared secrets node 2 derived,
//! so that the Coq model can reproduce them byte for byte.
//!
//! One JSON object per input line:  `claim phantom=<0|1>`  |  `fail phantom=<0|1>`
use bitcoin::secp256k1::{PublicKey, Secp256k1};

use lightning::events::{Event, HTLCHandlingFailureType};
use lightning::ln::channelmanager::PaymentId;
use lightning::ln::functional_test_utils::*;
use lightning::ln::msgs::{BaseMessageHandler, ChannelMessageHandler, MessageSendEvent};
use lightning::ln::onion_utils::verif_hooks_onion as vh;
use lightning::ln::outbound_payment::RecipientOnionFields;
use lightning::routing::router::{Path, PaymentParameters, Route, RouteHop, RouteParameters};
use lightning::sign::{NodeSigner, Recipient};
use lightning::types::features::{ChannelFeatures, NodeFeatures};
use lightning::util::ser::Writeable;

use verif_harness::*;

fn js(s: &str) -> String {
	format!("\"{}\"", s)
}

/// (reason, attribution data) out of a serialized `update_fail_htlc`
fn split_fail(bytes: &[u8]) -> (Vec<u8>, Option<Vec<u8>>) {
	let len = u16::from_be_bytes([bytes[40], bytes[41]]) as usize;
	let reason = bytes[42..42 + len].to_vec();
	let rest = &bytes[42 + len..];
	// TLV stream: type 1, BigSize length 920 (fd 03 98), value
	let attr = if rest.len() >= 4 && rest[0] == 1 { Some(rest[4..].to_vec()) } else { None };
	(reason, attr)
}

/// attribution data out of a serialized `update_fulfill_htlc`
fn split_fulfill(bytes: &[u8]) -> Option<Vec<u8>> {
	let rest = &bytes[32 + 8 + 32..];
	if rest.len() >= 4 && rest[0] == 1 {
		Some(rest[4..].to_vec())
	} else {
		None
	}
}

fn run(claim: bool, phantom: bool) -> String {
	let chanmon_cfgs = create_chanmon_cfgs(3);
	let node_cfgs = create_node_cfgs(3, &chanmon_cfgs);
	let node_chanmgrs = create_node_chanmgrs(3, &node_cfgs, &[None, None, None]);
	let nodes = create_network(3, &node_cfgs, &node_chanmgrs);
	let chan_01 = create_announced_chan_between_nodes(&nodes, 0, 1);
	let chan_12 = create_announced_chan_between_nodes(&nodes, 1, 2);
	let secp = Secp256k1::new();
	let mut judge: Vec<String> = Vec::new();

	let amt = 10_000u64;
	let (preimage, hash, secret) = get_payment_preimage_hash(&nodes[2], Some(amt), None);
	let id: Vec<PublicKey> = nodes.iter().map(|n| n.node.get_our_node_id()).collect();
	let hop = |pk: PublicKey, scid: u64, fee: u64, cltv: u32| RouteHop {
		pubkey: pk,
		node_features: NodeFeatures::empty(),
		short_channel_id: scid,
		channel_features: ChannelFeatures::empty(),
		fee_msat: fee,
		cltv_expiry_delta: cltv,
		maybe_announced_channel: true,
	};
	let mut hops = vec![
		hop(id[1], chan_01.0.contents.short_channel_id, 1000, chan_12.0.contents.cltv_expiry_delta as u32),
	];
	if phantom {
		let hints = nodes[2].node.get_phantom_route_hints();
		let phantom_id = nodes[2].keys_manager.get_node_id(Recipient::PhantomNode).unwrap();
		hops.push(hop(id[2], chan_12.0.contents.short_channel_id, 0, lightning::ln::channelmanager::MIN_CLTV_EXPIRY_DELTA as u32));
		hops.push(hop(phantom_id, hints.phantom_scid, amt, TEST_FINAL_CLTV));
	} else {
		hops.push(hop(id[2], chan_12.0.contents.short_channel_id, amt, TEST_FINAL_CLTV));
	}
	let path_len = hops.len();
	let payee = hops.last().unwrap().pubkey;
	let route_params = RouteParameters::from_payment_params_and_value(PaymentParameters::from_node_id(payee, TEST_FINAL_CLTV), amt);
	let route = Route { paths: vec![Path { hops, blinded_tail: None }], route_params };
	nodes[0]
		.node
		.send_payment_with_route(route, hash, RecipientOnionFields::secret_only(secret, amt), PaymentId(hash.0))
		.unwrap();
	check_added_monitors(&nodes[0], 1);
	let ev = nodes[0].node.get_and_clear_pending_msg_events().remove(0);
	// 0 -> 1
	do_pass_along_path(
		PassAlongPathArgs::new(&nodes[0], &[&nodes[1]], amt, hash, ev)
			.without_claimable_event()
			.without_clearing_recipient_events(),
	);
	check_added_monitors(&nodes[1], 1);
	let ev = nodes[1].node.get_and_clear_pending_msg_events().remove(0);
	// the update_add_htlc node 2 receives: from its onion ephemeral key node 2 derives the secrets
	let add = match &ev {
		MessageSendEvent::UpdateHTLCs { updates, .. } => updates.update_add_htlcs[0].clone(),
		_ => panic!("unexpected message"),
	};
	let eph = add.onion_routing_packet.public_key.unwrap();
	let incoming_ss = nodes[2].keys_manager.ecdh(Recipient::Node, &eph, None).unwrap().secret_bytes();
	let phantom_ss = if phantom {
		let next_eph = vh::next_pubkey(&secp, eph, &incoming_ss).unwrap();
		Some(nodes[2].keys_manager.ecdh(Recipient::PhantomNode, &next_eph, None).unwrap().secret_bytes())
	} else {
		None
	};
	// 1 -> 2 (a phantom payment takes a second round of forwarding inside node 2)
	do_pass_along_path(
		PassAlongPathArgs::new(&nodes[1], &[&nodes[2]], amt, hash, ev)
			.without_claimable_event()
			.without_clearing_recipient_events(),
	);
	if phantom {
		nodes[2].node.process_pending_htlc_forwards();
	}
	let evs = nodes[2].node.get_and_clear_pending_events();
	if !(evs.len() == 1 && matches!(evs[0], Event::PaymentClaimable { .. })) {
		judge.push(js("the recipient did not see exactly one PaymentClaimable"));
	}
	let height = nodes[2].best_block_info().1;

	let mut out = format!(
		"\"path_len\":{},\"incoming_ss\":{},\"phantom_ss\":{},\"amt\":{},\"height\":{}",
		path_len,
		js(&hex(&incoming_ss)),
		phantom_ss.map(|s| js(&hex(&s))).unwrap_or("null".into()),
		amt,
		height
	);
	if claim {
		nodes[2].node.claim_funds(preimage);
		let evs = nodes[2].node.get_and_clear_pending_events();
		if !(evs.len() == 1 && matches!(evs[0], Event::PaymentClaimed { .. })) {
			judge.push(js("no PaymentClaimed at the recipient"));
		}
		check_added_monitors(&nodes[2], 1);
		let msgs2 = nodes[2].node.get_and_clear_pending_msg_events();
		let (fulfill, cs) = match &msgs2[0] {
			MessageSendEvent::UpdateHTLCs { updates, .. } => {
				(updates.update_fulfill_htlcs[0].clone(), updates.commitment_signed.clone())
			},
			_ => panic!("unexpected message"),
		};
		let attr = split_fulfill(&fulfill.encode());
		out += &format!(",\"attr\":{}", attr.as_ref().map(|a| js(&hex(a))).unwrap_or("null".into()));
		// back to the sender
		pass_claimed_payment_along_route_from_ev(
			amt,
			vec![((fulfill, cs), id[1])],
			ClaimAlongRouteArgs::new(&nodes[0], &[&[&nodes[1], &nodes[2]]], preimage),
		);
		let evs = nodes[0].node.get_and_clear_pending_events();
		// the RAA-blocking monitor update released by handling the claim events
		check_added_monitors(&nodes[0], 1);
		let mut hold: Option<Vec<u32>> = None;
		let mut sent = false;
		for e in evs.iter() {
			match e {
				Event::PaymentSent { .. } => sent = true,
				Event::PaymentPathSuccessful { hold_times, path, .. } => {
					hold = Some(hold_times.clone());
					if path.hops.len() != path_len {
						judge.push(js("the successful path is not the one sent"));
					}
				},
				_ => {},
			}
		}
		if !sent {
			judge.push(js("no PaymentSent at the sender"));
		}
		match &hold {
			None => judge.push(js("no PaymentPathSuccessful at the sender")),
			Some(h) => {
				if h.len() != path_len {
					judge.push(format!(
						"\"fulfil attribution data reported {} hold times for a path of {} hops{}\"",
						h.len(),
						path_len,
						if phantom { " (the last one a phantom hop)" } else { "" }
					));
				}
			},
		}
		out += &format!(
			",\"hold_times\":[{}]",
			hold.unwrap_or_default().iter().map(|t| t.to_string()).collect::<Vec<_>>().join(",")
		);
	} else {
		nodes[2].node.fail_htlc_backwards(&hash);
		expect_and_process_pending_htlcs_and_htlc_handling_failed(
			&nodes[2],
			&[HTLCHandlingFailureType::Receive { payment_hash: hash }],
		);
		check_added_monitors(&nodes[2], 1);
		let upd2 = get_htlc_update_msgs(&nodes[2], &id[1]);
		let (reason, attr) = split_fail(&upd2.update_fail_htlcs[0].encode());
		out += &format!(
			",\"fail\":{},\"attr\":{}",
			js(&hex(&reason)),
			attr.as_ref().map(|a| js(&hex(a))).unwrap_or("null".into())
		);
		nodes[1].node.handle_update_fail_htlc(id[2], &upd2.update_fail_htlcs[0]);
		do_commitment_signed_dance(&nodes[1], &nodes[2], &upd2.commitment_signed, true, false);
		let upd1 = get_htlc_update_msgs(&nodes[1], &id[0]);
		nodes[0].node.handle_update_fail_htlc(id[1], &upd1.update_fail_htlcs[0]);
		do_commitment_signed_dance(&nodes[0], &nodes[1], &upd1.commitment_signed, false, false);
		let evs = nodes[0].node.get_and_clear_pending_events();
		let mut seen = false;
		for e in evs.iter() {
			if let Event::PaymentPathFailed { hold_times, error_code, error_data, short_channel_id, payment_failed_permanently, .. } = e {
				seen = true;
				if hold_times.len() != path_len {
					judge.push(format!(
						"\"failure attribution data reported {} hold times although the failure came from hop {} of the path\"",
						hold_times.len(),
						path_len - 1
					));
				}
				if *error_code != Some(0x4000 | 15) {
					judge.push(format!("\"sender decoded code {:?} instead of incorrect_or_unknown_payment_details\"", error_code));
				}
				if !*payment_failed_permanently {
					judge.push(js("a failure of the final hop was not attributed to the final hop"));
				}
				out += &format!(
					",\"hold_times\":[{}],\"error_code\":{},\"error_data\":{},\"scid\":{}",
					hold_times.iter().map(|t| t.to_string()).collect::<Vec<_>>().join(","),
					error_code.map(|c| c.to_string()).unwrap_or("null".into()),
					error_data.as_ref().map(|d| js(&hex(d))).unwrap_or("null".into()),
					short_channel_id.map(|c| c.to_string()).unwrap_or("null".into())
				);
			}
		}
		if !seen {
			judge.push(js("no PaymentPathFailed at the sender"));
		}
	}
	format!("{{\"kind\":\"e2e\",{},\"judge\":[{}]}}", out, judge.join(","))
}

fn main() {
	for_each_case(|l| {
		let mut it = l.split_whitespace();
		let cmd = it.next().unwrap();
		let phantom = l.contains("phantom=1");
		match cmd {
			"claim" => run(true, phantom),
			"fail" => run(false, phantom),
			_ => "{\"kind\":\"badcmd\"}".to_string(),
		}
	});
}
