//! C06 functional correspondence: `ChannelMonitorImpl::filter_block` (which transactions of a block
//! the monitor looks at) against `filter_block` of coq/Model/Justice.v, on generated blocks.
//!
//! The monitor is a real one: node 1 of a channel whose counterparty commitment (with a pending HTLC)
//! has confirmed, so it watches the funding outpoint and the outputs of that commitment.
//! First output line: `W <txidx>:<vout> ...` = the watched outpoints, sorted, txids numbered 1, 2, ...
//! Then one case per stdin line: `<id> <tx>|<tx>|...`, each tx = `<nout>:<in>,<in>,...` with inputs
//!   `w<i>`      the i-th watched outpoint
//!   `x<i>`      the txid of the i-th watched outpoint with a vout that is NOT watched
//!   `t<j>.<v>`  output v of the j-th transaction of this block (j smaller than this tx's position)
//!   `r<k>`      an unrelated outpoint
//! Result line: `<id> <i>,<i>,...` = positions of the transactions the filter kept.
use bitcoin::absolute::LockTime;
use bitcoin::hashes::Hash;
use bitcoin::transaction::Version;
use bitcoin::{Amount, OutPoint, ScriptBuf, Sequence, Transaction, TxIn, TxOut, Txid, Witness};
use lightning::ln::functional_test_utils::*;
use verif_harness::*;

fn main() {
	let chanmon_cfgs = create_chanmon_cfgs(2);
	let node_cfgs = create_node_cfgs(2, &chanmon_cfgs);
	let node_chanmgrs = create_node_chanmgrs(2, &node_cfgs, &[None, None]);
	let nodes = create_network(2, &node_cfgs, &node_chanmgrs);
	*nodes[0].connect_style.borrow_mut() = ConnectStyle::BestBlockFirst;
	*nodes[1].connect_style.borrow_mut() = ConnectStyle::BestBlockFirst;
	let (_, _, chan_id, _) = create_announced_chan_between_nodes_with_value(&nodes, 0, 1, 1_000_000, 400_000_000);
	let _pending = route_payment(&nodes[0], &[&nodes[1]], 7_000_000);
	let commitment = lightning::get_local_commitment_txn!(nodes[0], chan_id);
	mine_transaction(&nodes[1], &commitment[0]);
	let mon = nodes[1].chain_monitor.chain_monitor.get_monitor(chan_id).unwrap();
	let mut watched: Vec<(Txid, u32)> = Vec::new();
	for (txid, outs) in mon.get_outputs_to_watch() {
		for (vout, _) in outs {
			watched.push((txid, vout));
		}
	}
	watched.sort();
	watched.dedup();
	let mut txids: Vec<Txid> = watched.iter().map(|w| w.0).collect();
	txids.dedup();
	let mut wl = String::from("W");
	for (t, v) in watched.iter() {
		let ti = txids.iter().position(|x| x == t).unwrap() + 1;
		wl.push_str(&format!(" {}:{}", ti, v));
	}
	println!("{}", wl);
	for_each_case(|l| {
		let (id, rest) = l.split_once(' ').unwrap_or((l, ""));
		let mut txs: Vec<Transaction> = Vec::new();
		for (pos, t) in rest.split('|').enumerate() {
			let (nout, ins) = t.trim().split_once(':').unwrap();
			let nout: usize = nout.parse().unwrap();
			let mut input = Vec::new();
			for i in ins.split(',') {
				let i = i.trim();
				let prev = match &i[0..1] {
					"w" => {
						let k: usize = i[1..].parse().unwrap();
						OutPoint { txid: watched[k].0, vout: watched[k].1 }
					},
					"x" => {
						let k: usize = i[1..].parse().unwrap();
						OutPoint { txid: watched[k].0, vout: 1000 + watched[k].1 }
					},
					"t" => {
						let (j, v) = i[1..].split_once('.').unwrap();
						let j: usize = j.parse().unwrap();
						OutPoint { txid: txs[j].compute_txid(), vout: v.parse().unwrap() }
					},
					_ => {
						let k: u8 = i[1..].parse::<u64>().unwrap() as u8;
						OutPoint { txid: Txid::from_byte_array([k.wrapping_add(7); 32]), vout: k as u32 }
					},
				};
				input.push(TxIn { previous_output: prev, script_sig: ScriptBuf::new(), sequence: Sequence::MAX, witness: Witness::new() });
			}
			let mut output = Vec::new();
			for o in 0..nout {
				output.push(TxOut { value: Amount::from_sat(10_000 + (pos as u64) * 100 + o as u64), script_pubkey: ScriptBuf::from(id.as_bytes().to_vec()) });
			}
			txs.push(Transaction { version: Version::TWO, lock_time: LockTime::ZERO, input, output });
		}
		let kept = mon.verif_filter_block(&txs);
		format!("{} {}", id, kept.iter().map(|k| k.to_string()).collect::<Vec<_>>().join(","))
	});
	std::mem::forget(nodes);
}
