//! C15 PeerManager-level harness.
//!
//! `honest <seed> <n_msgs> <profile>`: two real `PeerManager`s joined by scripted sockets that cut
//! the byte stream at seeded points (including 1-byte reads), answer `send_data` with short
//! writes and zero-byte writes (pauses), and honour `continue_read`. Each side queues custom
//! messages of seeded sizes (2..=65535 encoded bytes) and a few channel messages; the far side's
//! recording handlers log what reaches them. Judge (on the implementation only): what one side
//! queued is exactly what the other side's handlers received, in order; no handler saw a message
//! before `peer_connected`; nobody disconnected; no panic.
//!
//! `raw <in|out> <seed> key=value...`: the harness plays one end with the real
//! `PeerChannelEncryptor` (so it can send arbitrary plaintext frames and corrupt any byte) against
//! one real `PeerManager`. Prints everything the Coq reader model needs to predict the same run
//! (keys, curve facts, the exact byte stream and its fragmentation) and what was observed per
//! `read_event` call.
//!
//! One JSON line per case.
#[path = "../c15_common.rs"]
mod c15_common;
use bitcoin::hashes::sha256::Hash as Sha256;
use bitcoin::hashes::{Hash, HashEngine};
use bitcoin::secp256k1::ecdh::SharedSecret;
use bitcoin::secp256k1::{PublicKey, Secp256k1, SecretKey};
use bitcoin::ScriptBuf;
use c15_common::*;
use lightning::ln::msgs::{self, MessageSendEvent};
use lightning::ln::peer_handler::{IgnoringMessageHandler, MessageHandler, PeerManager, SocketDescriptor};
use lightning::ln::types::ChannelId;
use lightning::ln::verif_hooks::{MessageBuf, PeerChannelEncryptor};
use lightning::util::ser::Writeable;
use lightning::util::test_utils::TestNodeSigner;
use std::collections::VecDeque;
use std::hash::{Hash as StdHash, Hasher};
use std::panic::{self, AssertUnwindSafe};
use std::sync::{Arc, Mutex};
use verif_harness::*;

/// scripted socket. `plan` answers `send_data`: None = take everything, Some(k) = take min(k, len).
struct SockState {
	out: VecDeque<u8>,
	total_out: usize,
	plan: VecDeque<Option<usize>>,
	read_ok: bool,
	short_pending: bool,
	disconnected: bool,
	n_send: usize,
	n_short: usize,
	n_zero: usize,
}
#[derive(Clone)]
struct Sock {
	id: u64,
	st: Arc<Mutex<SockState>>,
}
impl PartialEq for Sock {
	fn eq(&self, o: &Self) -> bool {
		self.id == o.id
	}
}
impl Eq for Sock {}
impl StdHash for Sock {
	fn hash<H: Hasher>(&self, h: &mut H) {
		self.id.hash(h)
	}
}
impl Sock {
	fn new(id: u64) -> Self {
		Sock {
			id,
			st: Arc::new(Mutex::new(SockState {
				out: VecDeque::new(),
				total_out: 0,
				plan: VecDeque::new(),
				read_ok: true,
				short_pending: false,
				disconnected: false,
				n_send: 0,
				n_short: 0,
				n_zero: 0,
			})),
		}
	}
}
impl SocketDescriptor for Sock {
	fn send_data(&mut self, data: &[u8], continue_read: bool) -> usize {
		let mut s = self.st.lock().unwrap();
		s.read_ok = continue_read;
		if data.is_empty() {
			return 0;
		}
		s.n_send += 1;
		let take = match s.plan.pop_front() {
			None | Some(None) => data.len(),
			Some(Some(k)) => core::cmp::min(k, data.len()),
		};
		if take < data.len() {
			s.short_pending = true;
			s.n_short += 1;
			if take == 0 {
				s.n_zero += 1;
			}
		}
		s.out.extend(data[..take].iter());
		s.total_out += take;
		take
	}
	fn disconnect_socket(&mut self) {
		self.st.lock().unwrap().disconnected = true;
	}
}

type PM = PeerManager<
	Sock,
	Arc<RecChan>,
	Arc<RecRoute>,
	Arc<RecOnion>,
	Arc<NullLogger>,
	Arc<RecCustom>,
	Arc<TestNodeSigner>,
	IgnoringMessageHandler,
>;

#[allow(dead_code)]
struct Node {
	pm: PM,
	log: Log,
	chan: Arc<RecChan>,
	custom: Arc<RecCustom>,
	secret: SecretKey,
	id: PublicKey,
	eph_seed: [u8; 32],
}
fn mk_node(secret: SecretKey, eph_seed: [u8; 32], gossip: bool) -> Node {
	let log: Log = Arc::new(Mutex::new(Vec::new()));
	let chan = Arc::new(RecChan { log: log.clone(), pending: Mutex::new(Vec::new()) });
	let custom = Arc::new(RecCustom { log: log.clone(), pending: Mutex::new(Vec::new()) });
	let mh = MessageHandler {
		chan_handler: chan.clone(),
		route_handler: Arc::new(RecRoute::new(log.clone(), gossip)),
		onion_message_handler: Arc::new(RecOnion { log: log.clone() }),
		custom_message_handler: custom.clone(),
		send_only_message_handler: IgnoringMessageHandler {},
	};
	let signer = Arc::new(TestNodeSigner::new(secret));
	let pm = PeerManager::new(mh, 0, &eph_seed, Arc::new(NullLogger), signer);
	let id = PublicKey::from_secret_key(&Secp256k1::signing_only(), &secret);
	Node { pm, log, chan, custom, secret, id, eph_seed }
}
/// the key `PeerManager::get_ephemeral_key` derives for its `counter`-th connection
fn pm_ephemeral(eph_seed: &[u8; 32], counter: u64) -> SecretKey {
	let mut e = Sha256::engine();
	e.input(eph_seed);
	e.input(&counter.to_le_bytes());
	SecretKey::from_slice(&Sha256::from_engine(e).to_byte_array()).unwrap()
}
fn secret_from(r: &mut Rng) -> SecretKey {
	loop {
		let mut b = [0u8; 32];
		for i in 0..4 {
			b[i * 8..i * 8 + 8].copy_from_slice(&r.next().to_le_bytes());
		}
		if let Ok(k) = SecretKey::from_slice(&b) {
			return k;
		}
	}
}
fn rand_bytes(r: &mut Rng, n: usize) -> Vec<u8> {
	let mut v = Vec::with_capacity(n + 8);
	while v.len() < n {
		v.extend_from_slice(&r.next().to_le_bytes());
	}
	v.truncate(n);
	v
}
fn jstr(s: &str) -> String {
	format!("\"{}\"", s.replace('\\', "\\\\").replace('"', "'"))
}

// ---------------------------------------------------------------- honest: PM <-> PM
fn honest(seed: u64, n_msgs: usize, profile: &str) -> String {
	let mut r = Rng(seed);
	let a = mk_node(secret_from(&mut r), { let mut s = [0u8; 32]; s[..8].copy_from_slice(&r.next().to_le_bytes()); s }, false);
	let b = mk_node(secret_from(&mut r), { let mut s = [1u8; 32]; s[..8].copy_from_slice(&r.next().to_le_bytes()); s }, false);
	let nodes = [a, b];
	let socks = [Sock::new(1), Sock::new(2)];
	// a connects out to b
	let act1 = nodes[0].pm.new_outbound_connection(nodes[1].id, socks[0].clone(), None).expect("outbound");
	nodes[1].pm.new_inbound_connection(socks[1].clone(), None).expect("inbound");
	{
		let mut s = socks[0].st.lock().unwrap();
		s.out.extend(act1.iter());
		s.total_out += act1.len();
	}
	let mut sent: [Vec<String>; 2] = [vec![], vec![]];
	let mut why: Vec<String> = vec![];
	let mut n_frag = 0usize;
	let mut n_one = 0usize;
	let mut max_frag = 0usize;
	let mut size_hist = [0usize; 6];
	let mut queued = 0usize;
	let mut steps = 0usize;
	let mut read_err = false;
	let mut pending_kind = [0u8; 2];
	let (p_short, p_zero, p_onebyte, burst): (u64, u64, u64, usize) = match profile {
		"smooth" => (0, 0, 5, 64),
		"tiny" => (30, 10, 60, 4),
		"pressure" => (60, 30, 10, 24),
		_ => (25, 10, 25, 16),
	};
	let max_steps = 400 + n_msgs * 400;
	loop {
		steps += 1;
		if steps > max_steps {
			why.push("driver did not quiesce".to_string());
			break;
		}
		let ready = [
			nodes[0].pm.peer_by_node_id(&nodes[1].id).is_some(),
			nodes[1].pm.peer_by_node_id(&nodes[0].id).is_some(),
		];
		let all_queued = queued >= n_msgs;
		let pending_bytes = socks[0].st.lock().unwrap().out.len() + socks[1].st.lock().unwrap().out.len();
		let short_pending = socks[0].st.lock().unwrap().short_pending || socks[1].st.lock().unwrap().short_pending;
		let act = r.below(100);
		if !all_queued && ready[0] && ready[1] && act < 30 {
			// queue a burst of messages on a seeded side
			let side = (r.below(3) == 0) as usize;
			let k = 1 + r.below(burst as u64) as usize;
			// `process_events` drains the channel handler before the custom handler, so a burst
			// holds messages of one handler only and a change of handler is preceded by a
			// `process_events`: the order queued here is then the order the PeerManager enqueues
			let burst_kind = r.below(100);
			let is_chan = burst_kind < 14;
			if pending_kind[side] != 0 && pending_kind[side] != (1 + is_chan as u8) {
				nodes[side].pm.process_events();
			}
			pending_kind[side] = 1 + is_chan as u8;
			for _ in 0..k {
				if queued >= n_msgs {
					break;
				}
				let kind = if is_chan { r.below(14) } else { 50 };
				if kind < 8 {
					let m = msgs::ChannelReady {
						channel_id: ChannelId([r.next() as u8; 32]),
						next_per_commitment_point: nodes[side].id,
						short_channel_id_alias: if r.below(2) == 0 { Some(r.next()) } else { None },
					};
					sent[side].push(format!("M{}", hex(&encoded(36, &m.encode()))));
					nodes[side].chan.pending.lock().unwrap().push(MessageSendEvent::SendChannelReady { node_id: nodes[1 - side].id, msg: m });
				} else if kind < 14 {
					let sl = r.below(300) as usize;
					let m = msgs::Shutdown { channel_id: ChannelId([r.next() as u8; 32]), scriptpubkey: ScriptBuf::from_bytes(rand_bytes(&mut r, sl)) };
					sent[side].push(format!("M{}", hex(&encoded(38, &m.encode()))));
					nodes[side].chan.pending.lock().unwrap().push(MessageSendEvent::SendShutdown { node_id: nodes[1 - side].id, msg: m });
				} else {
					let (bucket, plen) = match r.below(40) {
						0 => (0, 0usize),
						1 => (1, 1),
						2 => (5, 65533),
						3 => (5, 65532),
						4 => (4, 4000 + r.below(30000) as usize),
						5 | 6 => (3, 998),
						7 | 8 => (2, 15),
						_ => (2, 2 + r.below(120) as usize),
					};
					size_hist[bucket] += 1;
					let ty = 32768 + (r.below(27000) as u16 | 1);
					let payload = rand_bytes(&mut r, plen);
					sent[side].push(format!("M{}", hex(&encoded(ty, &payload))));
					nodes[side].custom.pending.lock().unwrap().push((nodes[1 - side].id, RawMsg { ty, payload }));
				}
				queued += 1;
			}
			continue;
		}
		if act < 45 {
			// script the next answers of a socket, then let the node write
			let side = r.below(2) as usize;
			{
				let mut s = socks[side].st.lock().unwrap();
				for _ in 0..(1 + r.below(4)) {
					let x = r.below(100);
					let ans = if x < p_zero { Some(0) } else if x < p_zero + p_short { Some(1 + r.below(700) as usize) } else { None };
					s.plan.push_back(ans);
				}
			}
			nodes[side].pm.process_events();
			pending_kind[side] = 0;
			continue;
		}
		if act < 60 {
			let side = r.below(2) as usize;
			let sp = socks[side].st.lock().unwrap().short_pending;
			if sp {
				socks[side].st.lock().unwrap().short_pending = false;
				let _ = nodes[side].pm.write_buffer_space_avail(&mut socks[side].clone());
			}
			continue;
		}
		// deliver some bytes from side -> other
		let side = r.below(2) as usize;
		let other = 1 - side;
		let avail = socks[side].st.lock().unwrap().out.len();
		let may_read = socks[other].st.lock().unwrap().read_ok;
		if avail > 0 && may_read {
			let x = r.below(100);
			let k = if x < p_onebyte { 1 } else if x < p_onebyte + 25 { 1 + r.below(40) as usize } else if x < 97 { 1 + r.below(5000) as usize } else { avail };
			let k = core::cmp::min(k, avail);
			let chunk: Vec<u8> = socks[side].st.lock().unwrap().out.drain(..k).collect();
			n_frag += 1;
			if k == 1 {
				n_one += 1;
			}
			if k > max_frag {
				max_frag = k;
			}
			if nodes[other].pm.read_event(&mut socks[other].clone(), &chunk).is_err() {
				read_err = true;
				why.push(format!("read_event returned Err on node {} (fragment {} of {} bytes)", other, n_frag, k));
				break;
			}
			if r.below(3) > 0 {
				nodes[other].pm.process_events();
				pending_kind[other] = 0;
			}
			continue;
		}
		if all_queued && pending_bytes == 0 && !short_pending {
			// let both flush with an unconstrained socket, and stop when nothing moves any more
			let mut moved = false;
			for side in 0..2 {
				socks[side].st.lock().unwrap().plan.clear();
				let before = socks[side].st.lock().unwrap().total_out;
				nodes[side].pm.process_events();
				pending_kind[side] = 0;
				let _ = nodes[side].pm.write_buffer_space_avail(&mut socks[side].clone());
				if socks[side].st.lock().unwrap().total_out != before {
					moved = true;
				}
			}
			if !moved && ready[0] && ready[1] {
				break;
			}
		} else if !may_read || avail == 0 {
			// make progress: the paused side gets room to write
			for side in 0..2 {
				nodes[side].pm.process_events();
				pending_kind[side] = 0;
				if socks[side].st.lock().unwrap().short_pending && r.below(2) == 0 {
					socks[side].st.lock().unwrap().short_pending = false;
					let _ = nodes[side].pm.write_buffer_space_avail(&mut socks[side].clone());
				}
			}
		}
	}
	// ---- judge on the implementation
	let logs = [nodes[0].log.lock().unwrap().clone(), nodes[1].log.lock().unwrap().clone()];
	for side in 0..2 {
		let other = 1 - side;
		let recv: Vec<&String> = logs[other].iter().filter(|l| l.starts_with('M')).collect();
		if recv.len() != sent[side].len() || recv.iter().zip(sent[side].iter()).any(|(x, y)| *x != y) {
			let first = recv.iter().zip(sent[side].iter()).position(|(x, y)| *x != y).unwrap_or(core::cmp::min(recv.len(), sent[side].len()));
			why.push(format!("node {} queued {} messages, node {} handlers received {}; first difference at index {}", side, sent[side].len(), other, recv.len(), first));
		}
		// Init first: the first log entry of a node that saw anything must be the connection
		if let Some(pos) = logs[side].iter().position(|l| l.starts_with('M')) {
			if !logs[side][..pos].iter().any(|l| l == "C") {
				why.push(format!("node {} handler saw a message before peer_connected", side));
			}
		}
		if logs[side].iter().any(|l| l == "X") || socks[side].st.lock().unwrap().disconnected {
			why.push(format!("node {} disconnected", side));
		}
	}
	let st0 = socks[0].st.lock().unwrap();
	let st1 = socks[1].st.lock().unwrap();
	format!(
		"{{\"mode\":\"honest\",\"seed\":{},\"profile\":{},\"ok\":{},\"why\":[{}],\"queued\":[{},{}],\"fragments\":{},\"one_byte\":{},\"max_fragment\":{},\"send_calls\":{},\"short_writes\":{},\"zero_writes\":{},\"bytes\":[{},{}],\"sizes\":[{}],\"read_err\":{},\"steps\":{}}}",
		seed,
		jstr(profile),
		why.is_empty(),
		why.iter().map(|w| jstr(w)).collect::<Vec<_>>().join(","),
		sent[0].len(),
		sent[1].len(),
		n_frag,
		n_one,
		max_frag,
		st0.n_send + st1.n_send,
		st0.n_short + st1.n_short,
		st0.n_zero + st1.n_zero,
		st0.total_out,
		st1.total_out,
		size_hist.iter().map(|x| x.to_string()).collect::<Vec<_>>().join(","),
		read_err,
		steps
	)
}

// ---------------------------------------------------------------- raw: harness encryptor <-> PM
struct Curve {
	pubs: Vec<String>,
	dhs: Vec<String>,
	valid: Vec<String>,
}
impl Curve {
	fn add_key(&mut self, sk: &SecretKey) -> PublicKey {
		let p = PublicKey::from_secret_key(&Secp256k1::signing_only(), sk);
		self.pubs.push(format!("{}:{}", hex(&sk.secret_bytes()), hex(&p.serialize())));
		self.valid.push(hex(&p.serialize()));
		p
	}
	fn add_dh(&mut self, sk: &SecretKey, pk: &PublicKey) {
		let ss = SharedSecret::new(pk, sk);
		self.dhs.push(format!("{}:{}:{}", hex(&sk.secret_bytes()), hex(&pk.serialize()), hex(ss.as_ref())));
	}
	fn add_foreign(&mut self, bytes: &[u8], secrets: &[&SecretKey]) {
		if bytes.len() == 33 {
			if let Ok(pk) = PublicKey::from_slice(bytes) {
				self.valid.push(hex(bytes));
				for s in secrets {
					self.add_dh(s, &pk);
				}
			}
		}
	}
}

fn kv<'a>(toks: &'a [&'a str], key: &str) -> Option<&'a str> {
	toks.iter().find_map(|t| t.strip_prefix(key).and_then(|r| r.strip_prefix('=')))
}

/// builds the honest stream the harness end would send to a PM created by `mk`, given the
/// plaintext frames; returns (pieces, their static key as the PM learns it)
fn raw(role_in: bool, seed: u64, toks: &[&str]) -> String {
	let mut r = Rng(seed ^ 0xC15);
	let pm_secret = secret_from(&mut r);
	let mut eph_seed = [7u8; 32];
	eph_seed[..8].copy_from_slice(&r.next().to_le_bytes());
	let h_static = secret_from(&mut r);
	let h_eph = secret_from(&mut r);
	let gossip = kv(toks, "gossip") == Some("1");
	let frames: Vec<Vec<u8>> = match kv(toks, "frames") {
		Some(s) if !s.is_empty() => s.split(',').map(|f| if f == "-" { vec![] } else { unhex(f) }).collect(),
		_ => vec![],
	};
	// does each plaintext frame decode (so that it reaches the message gate rather than the
	// decode-error table)?
	let dec: Vec<String> = frames
		.iter()
		.map(|f| match lightning::ln::wire::verif_hooks_wire::wire_read(f) {
			Ok(d) => format!("\"ok:{}\"", d.type_id),
			Err((e, _)) => format!("\"err:{}\"", e.replace('"', "'")),
		})
		.collect();
	let secp = Secp256k1::new();
	let pm_eph = pm_ephemeral(&eph_seed, 0);
	let mut cv = Curve { pubs: vec![], dhs: vec![], valid: vec![] };
	let p_pm = cv.add_key(&pm_secret);
	let p_pm_eph = cv.add_key(&pm_eph);
	let p_hs = cv.add_key(&h_static);
	let p_he = cv.add_key(&h_eph);
	// every ECDH the PM end computes in an honest run (inbound PM: responder; outbound PM: initiator)
	if role_in {
		cv.add_dh(&pm_secret, &p_he);
		cv.add_dh(&pm_eph, &p_he);
		cv.add_dh(&pm_eph, &p_hs);
	} else {
		cv.add_dh(&pm_eph, &p_hs);
		cv.add_dh(&pm_eph, &p_he);
		cv.add_dh(&pm_secret, &p_he);
	}

	// --- dry run against a first PM instance to obtain the honest stream
	let h_signer = TestNodeSigner::new(h_static);
	let mut pieces: Vec<Vec<u8>> = vec![];
	let pm_act: Vec<u8>;
	let mut enc;
	{
		let node = mk_node(pm_secret, eph_seed, false);
		let mut sock = Sock::new(7);
		if role_in {
			enc = PeerChannelEncryptor::new_outbound(node.id, h_eph);
			let act1 = enc.get_act_one(&secp).to_vec();
			node.pm.new_inbound_connection(sock.clone(), None).unwrap();
			node.pm.read_event(&mut sock, &act1).expect("honest act one");
			node.pm.process_events();
			let act2: Vec<u8> = sock.st.lock().unwrap().out.drain(..).collect();
			let (act3, _) = enc.process_act_two(&act2[..50], &&h_signer).expect("honest act two");
			pm_act = act2;
			pieces.push(act1);
			pieces.push(act3.to_vec());
		} else {
			let act1 = node.pm.new_outbound_connection(p_hs, sock.clone(), None).unwrap();
			enc = PeerChannelEncryptor::new_inbound(&&h_signer);
			let act2 = enc.process_act_one_with_keys(&act1, &&h_signer, h_eph, &secp).expect("honest act one").to_vec();
			pm_act = act1;
			pieces.push(act2);
			// the PM's act three is needed to finish our side
			node.pm.read_event(&mut sock, &pieces[0]).expect("honest act two");
			node.pm.process_events();
			let out: Vec<u8> = sock.st.lock().unwrap().out.drain(..).collect();
			enc.process_act_three(&out[..66]).expect("honest act three");
		}
		for f in frames.iter() {
			pieces.push(enc.encrypt_buffer(MessageBuf::from_encoded(f).expect("frame length")));
		}
	}
	let hs_pieces = if role_in { 2 } else { 1 };
	if let Some(rep) = kv(toks, "replay") {
		// replay=<i>@<pos>: a copy of ciphertext frame i inserted before frame pos
		let mut it = rep.split('@');
		let i: usize = it.next().unwrap().parse().unwrap();
		let pos: usize = it.next().unwrap().parse().unwrap();
		let c = pieces[hs_pieces + i].clone();
		pieces.insert(hs_pieces + pos, c);
	}
	if let Some(sw) = kv(toks, "swap") {
		let mut it = sw.split(',');
		let i: usize = it.next().unwrap().parse().unwrap();
		let j: usize = it.next().unwrap().parse().unwrap();
		pieces.swap(hs_pieces + i, hs_pieces + j);
	}
	let piece_lens: Vec<usize> = pieces.iter().map(|p| p.len()).collect();
	let mut stream: Vec<u8> = pieces.concat();
	let honest_len = stream.len();
	if let Some(s) = kv(toks, "stream") {
		stream = unhex(s);
	}
	if let Some(fl) = kv(toks, "flips") {
		for f in fl.split(',').filter(|f| !f.is_empty()) {
			let mut it = f.split(':');
			let off: usize = it.next().unwrap().parse().unwrap();
			let mask: u8 = it.next().unwrap().parse().unwrap();
			if off < stream.len() {
				stream[off] ^= mask;
			}
		}
	}
	if let Some(ins) = kv(toks, "insert") {
		let mut it = ins.split(':');
		let off: usize = it.next().unwrap().parse().unwrap();
		let bytes = unhex(it.next().unwrap());
		let off = core::cmp::min(off, stream.len());
		let tail = stream.split_off(off);
		stream.extend_from_slice(&bytes);
		stream.extend_from_slice(&tail);
	}
	if let Some(c) = kv(toks, "cut") {
		let n: usize = c.parse().unwrap();
		stream.truncate(n);
	}
	// foreign keys the PM may meet in a corrupted act
	if role_in {
		if stream.len() >= 34 {
			let k = stream[1..34].to_vec();
			cv.add_foreign(&k, &[&pm_secret, &pm_eph]);
		}
	} else if stream.len() >= 34 {
		let k = stream[1..34].to_vec();
		cv.add_foreign(&k, &[&pm_eph, &pm_secret]);
	}
	let mut frags: Vec<usize> = match kv(toks, "frags") {
		Some(s) if !s.is_empty() => s.split(',').map(|x| x.parse().unwrap()).collect(),
		_ => vec![],
	};
	let total: usize = frags.iter().sum();
	if total < stream.len() {
		frags.push(stream.len() - total);
	}

	// --- the observed run on a fresh PM
	let node = mk_node(pm_secret, eph_seed, gossip);
	let mut sock = Sock::new(9);
	let mut obs: Vec<String> = vec![];
	let mut dead = false;
	let mut panicked = false;
	let first_out: Vec<u8> = if role_in {
		node.pm.new_inbound_connection(sock.clone(), None).unwrap();
		vec![]
	} else {
		node.pm.new_outbound_connection(p_hs, sock.clone(), None).unwrap()
	};
	let mut pos = 0usize;
	let mut all_out: Vec<u8> = vec![];
	let mut frag_hex: Vec<String> = vec![];
	for f in frags.iter() {
		let end = core::cmp::min(pos + f, stream.len());
		let chunk = stream[pos..end].to_vec();
		pos = end;
		if chunk.is_empty() {
			continue;
		}
		frag_hex.push(hex(&chunk));
		if dead {
			obs.push("{\"res\":\"dead\",\"items\":[],\"sent\":\"\"}".to_string());
			continue;
		}
		let before = node.log.lock().unwrap().len();
		let res = panic::catch_unwind(AssertUnwindSafe(|| {
			let res = node.pm.read_event(&mut sock, &chunk);
			if res.is_ok() {
				node.pm.process_events();
			}
			res.is_ok()
		}));
		let items: Vec<String> = node.log.lock().unwrap()[before..].iter().map(|s| jstr(s)).collect();
		let out: Vec<u8> = sock.st.lock().unwrap().out.drain(..).collect();
		all_out.extend_from_slice(&out);
		let res_s = match res {
			Ok(true) => "ok",
			Ok(false) => {
				dead = true;
				"err"
			},
			Err(_) => {
				dead = true;
				panicked = true;
				"panic"
			},
		};
		obs.push(format!("{{\"res\":\"{}\",\"items\":[{}],\"sent\":\"{}\"}}", res_s, items.join(","), hex(&out)));
	}
	// everything the PeerManager put on the wire after its handshake act must be a sequence of
	// frames our real decryptor accepts, each a message of at most 65535 bytes
	let skip = if role_in { 50 } else { 66 };
	let mut replies: Vec<String> = vec![];
	let mut replies_ok = true;
	if all_out.len() > skip {
		let mut rest = &all_out[skip..];
		while !rest.is_empty() {
			if rest.len() < 18 {
				replies_ok = false;
				replies.push(format!("\"partial-header:{}\"", rest.len()));
				break;
			}
			let len = match enc.decrypt_length_header(&rest[..18]) {
				Ok(l) => l as usize,
				Err(_) => {
					replies_ok = false;
					replies.push("\"bad-header\"".to_string());
					break;
				},
			};
			if rest.len() < 18 + len + 16 {
				replies_ok = false;
				replies.push(format!("\"partial-body:{}\"", len));
				break;
			}
			let mut body = rest[18..18 + len + 16].to_vec();
			if enc.decrypt_message(&mut body).is_err() {
				replies_ok = false;
				replies.push("\"bad-body\"".to_string());
				break;
			}
			let ty = if len >= 2 { ((body[0] as u32) << 8) | body[1] as u32 } else { 0xffff_ffff };
			let head = hex(&body[..core::cmp::min(len, 4)]);
			replies.push(format!("\"{}:{}:{}\"", ty, len, head));
			rest = &rest[18 + len + 16..];
		}
	}
	// after a caught panic the PeerManager's locks are poisoned
	let connected = panic::catch_unwind(AssertUnwindSafe(|| node.pm.list_peers().len())).unwrap_or(0);
	format!(
		"{{\"mode\":\"raw\",\"role\":{},\"seed\":{},\"pm_secret\":\"{}\",\"pm_eph\":\"{}\",\"h_static\":\"{}\",\"h_static_pub\":\"{}\",\"h_eph\":\"{}\",\"pm_pub\":\"{}\",\"pm_eph_pub\":\"{}\",\"pm_first\":\"{}\",\"pm_act\":\"{}\",\"pubs\":\"{}\",\"dh\":\"{}\",\"valid\":\"{}\",\"piece_lens\":[{}],\"dec\":[{}],\"honest_len\":{},\"frags\":[{}],\"obs\":[{}],\"replies\":[{}],\"replies_ok\":{},\"panic\":{},\"peers\":{},\"sock_disconnected\":{}}}",
		jstr(if role_in { "in" } else { "out" }),
		seed,
		hex(&pm_secret.secret_bytes()),
		hex(&pm_eph.secret_bytes()),
		hex(&h_static.secret_bytes()),
		hex(&p_hs.serialize()),
		hex(&h_eph.secret_bytes()),
		hex(&p_pm.serialize()),
		hex(&p_pm_eph.serialize()),
		hex(&first_out),
		hex(&pm_act),
		cv.pubs.join(";"),
		cv.dhs.join(";"),
		cv.valid.join(";"),
		piece_lens.iter().map(|x| x.to_string()).collect::<Vec<_>>().join(","),
		dec.join(","),
		honest_len,
		frag_hex.iter().map(|x| jstr(x)).collect::<Vec<_>>().join(","),
		obs.join(","),
		replies.join(","),
		replies_ok,
		panicked,
		connected,
		sock.st.lock().unwrap().disconnected
	)
}

fn main() {
	for_each_case(|l| {
		let t: Vec<&str> = l.split_whitespace().collect();
		match t[0] {
			"honest" => honest(t[1].parse().unwrap(), t[2].parse().unwrap(), t.get(3).copied().unwrap_or("mixed")),
			"raw" => raw(t[1] == "in", t[2].parse().unwrap(), &t[3..]),
			_ => "BADCMD".to_string(),
		}
	});
}
