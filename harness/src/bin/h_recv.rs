//! C12 field sensitivity of the ChannelManager codec on the RECEIVE side: claimable payments whose
//! serialized fields all differ from their neighbours and defaults.
//!
//! usage: h_recv <seed>           one line `R {json}` per (scenario kind, reload point)
//!
//! Scenario kinds (three nodes 0 - 1 - 2):
//!   underpay1  node 1 intercepts the forward to node 2 (intercept SCID) and forwards LESS than the
//!              sender intended (skimmed fee); node 2 has accept_underpaying_htlcs
//!   underpay2  the same as a 2-part MPP over two channel pairs, parts of different size, different skims
//!   keysend    spontaneous payment 0 -> 1 with custom TLVs
//!   metadata   invoice payment 0 -> 1 with two custom TLVs (one empty)
//!   mpp        2-part MPP 0 -> 1 over two parallel channels of different size (parts differ)
//! (underpay2 additionally: reload point 3 = only the first MPP part has arrived.)
//! Twin runs of the same deterministic schedule: A never reloads; B1 reloads the recipient while its
//! PaymentClaimable event is still PENDING inside the manager; B2 reloads it after the event was
//! handled. (All runs disconnect and reconnect the recipient at both points.) Compared, as `Debug`
//! renderings: the PaymentClaimable event (amount_msat, counterparty_skimmed_fee_msat,
//! claim_deadline, receiving channel ids, onion_fields, purpose), then after `claim_funds` every
//! event of every node (PaymentClaimed with its htlcs and sender_intended_total_msat, PaymentSent,
//! PaymentForwarded with skimmed_fee_msat, PaymentPathSuccessful) and the final channel state.
use std::panic::{self, AssertUnwindSafe};

use bitcoin::secp256k1::PublicKey;
use lightning::events::Event;
use lightning::ln::channelmanager::{PaymentId, MIN_CLTV_EXPIRY_DELTA};
use lightning::ln::functional_test_utils::*;
use lightning::ln::msgs::{BaseMessageHandler, ChannelMessageHandler, Init, MessageSendEvent};
use lightning::ln::outbound_payment::{RecipientCustomTlvs, RecipientOnionFields, Retry};
use lightning::ln::types::ChannelId;
use lightning::reload_node;
use lightning::routing::router::{PaymentParameters, RouteHint, RouteHintHop, RouteParameters};
use lightning::types::payment::PaymentPreimage;
use lightning::types::routing::RoutingFees;
use lightning::util::config::HTLCInterceptionFlags;
use lightning::util::ser::Writeable;
use verif_harness::{hex, Rng};

fn idx_of(nodes: &[Node], pk: &PublicKey) -> Option<usize> {
	nodes.iter().position(|n| n.node.get_our_node_id() == *pk)
}

fn h8(b: &[u8]) -> String {
	hex(&b[..4])
}

fn disconnect(nodes: &[Node], a: usize, b: usize) {
	nodes[a].node.peer_disconnected(nodes[b].node.get_our_node_id());
	nodes[b].node.peer_disconnected(nodes[a].node.get_our_node_id());
}

fn reconnect(nodes: &[Node], a: usize, b: usize) {
	let init_a = Init { features: nodes[a].node.init_features(), networks: None, remote_network_address: None };
	let init_b = Init { features: nodes[b].node.init_features(), networks: None, remote_network_address: None };
	nodes[a].node.peer_connected(nodes[b].node.get_our_node_id(), &init_b, true).unwrap();
	nodes[b].node.peer_connected(nodes[a].node.get_our_node_id(), &init_a, false).unwrap();
}

fn state_lines(nodes: &[Node], log: &mut Vec<String>) {
	for (i, n) in nodes.iter().enumerate() {
		let mut ch: Vec<String> = n
			.node
			.list_channels()
			.iter()
			.map(|c| {
				format!(
					"chan{} {} val={} out={} in={} next_out={} ready={} usable={} pending_in={} pending_out={}",
					i, h8(&c.channel_id.0), c.channel_value_satoshis, c.outbound_capacity_msat, c.inbound_capacity_msat, c.next_outbound_htlc_limit_msat,
					c.is_channel_ready, c.is_usable, c.pending_inbound_htlcs.len(), c.pending_outbound_htlcs.len()
				)
			})
			.collect();
		ch.sort();
		log.extend(ch);
		let mut rp: Vec<String> = n.node.list_recent_payments().iter().map(|p| format!("recent{} {:?}", i, p)).collect();
		rp.sort();
		log.extend(rp);
		let mut bal: Vec<String> = Vec::new();
		for cid in n.chain_monitor.chain_monitor.list_monitors() {
			if let Ok(m) = n.chain_monitor.chain_monitor.get_monitor(cid) {
				for b in m.get_claimable_balances() {
					bal.push(format!("bal{} {} {:?}", i, h8(&cid.0), b));
				}
			}
		}
		bal.sort();
		log.extend(bal);
	}
}

struct Ctl {
	hold: Option<usize>,
	chan_ids: Vec<ChannelId>,
	skims: Vec<u64>,
	next_intercept: usize,
	shares: Vec<u64>,
	defer: bool,
	deferred: Vec<(lightning::ln::channelmanager::InterceptId, u64)>,
	dest: PublicKey,
}

/// delivers all messages; events of every node except `hold` are fetched and logged
fn pump(nodes: &[Node], ctl: &mut Ctl, log: &mut Vec<String>) {
	let mut idle = 0;
	for _ in 0..200 {
		let mut progressed = false;
		for i in 0..nodes.len() {
			let from = nodes[i].node.get_our_node_id();
			for ev in nodes[i].node.get_and_clear_pending_msg_events() {
				let to_pk = match &ev {
					MessageSendEvent::UpdateHTLCs { node_id, .. }
					| MessageSendEvent::SendRevokeAndACK { node_id, .. }
					| MessageSendEvent::SendChannelReestablish { node_id, .. }
					| MessageSendEvent::SendChannelReady { node_id, .. }
					| MessageSendEvent::SendAnnouncementSignatures { node_id, .. }
					| MessageSendEvent::SendChannelUpdate { node_id, .. } => Some(*node_id),
					MessageSendEvent::HandleError { node_id, action } => {
						log.push(format!("node {} error action towards {:?}: {:?}", i, idx_of(nodes, node_id), action).chars().take(200).collect());
						None
					},
					_ => None,
				};
				let to = match to_pk.and_then(|pk| idx_of(nodes, &pk)) {
					Some(t) => t,
					None => continue,
				};
				progressed = true;
				let n = &nodes[to].node;
				match ev {
					MessageSendEvent::UpdateHTLCs { updates, .. } => {
						for m in updates.update_add_htlcs.iter() {
							n.handle_update_add_htlc(from, m);
						}
						for m in updates.update_fulfill_htlcs.iter() {
							n.handle_update_fulfill_htlc(from, m.clone());
						}
						for m in updates.update_fail_htlcs.iter() {
							n.handle_update_fail_htlc(from, m);
						}
						for m in updates.update_fail_malformed_htlcs.iter() {
							n.handle_update_fail_malformed_htlc(from, m);
						}
						if let Some(m) = updates.update_fee.as_ref() {
							n.handle_update_fee(from, m);
						}
						n.handle_commitment_signed_batch_test(from, &updates.commitment_signed);
					},
					MessageSendEvent::SendRevokeAndACK { msg, .. } => n.handle_revoke_and_ack(from, &msg),
					MessageSendEvent::SendChannelReestablish { msg, .. } => n.handle_channel_reestablish(from, &msg),
					MessageSendEvent::SendChannelReady { msg, .. } => n.handle_channel_ready(from, &msg),
					MessageSendEvent::SendAnnouncementSignatures { msg, .. } => n.handle_announcement_signatures(from, &msg),
					MessageSendEvent::SendChannelUpdate { msg, .. } => n.handle_channel_update(from, &msg),
					_ => {},
				}
			}
		}
		for i in 0..nodes.len() {
			nodes[i].node.process_pending_htlc_forwards();
			nodes[i].chain_monitor.added_monitors.lock().unwrap().clear();
			if ctl.hold == Some(i) {
				continue;
			}
			let evs = nodes[i].node.get_and_clear_pending_events();
			if !evs.is_empty() {
				progressed = true;
			}
			for e in evs {
				match &e {
					Event::HTLCIntercepted { intercept_id, expected_outbound_amount_msat, .. } => {
						// the part is identified by its size (arrival order depends on hash-map iteration)
						let k = (0..ctl.shares.len()).min_by_key(|j| (ctl.shares[*j] as i64 - *expected_outbound_amount_msat as i64).abs()).unwrap_or(0);
						if ctl.defer && k == 1 {
							// the smaller part is held back at the intercepting node until after the cut
							ctl.deferred.push((*intercept_id, *expected_outbound_amount_msat));
							ctl.next_intercept += 1;
							log.push(format!("ev{} HTLCIntercepted expected={} deferred", i, expected_outbound_amount_msat));
							continue;
						}
						let amt = expected_outbound_amount_msat - ctl.skims.get(k).cloned().unwrap_or(0);
						let r = nodes[i].node.forward_intercepted_htlc(*intercept_id, &ctl.chan_ids[k], ctl.dest, amt);
						log.push(format!("ev{} HTLCIntercepted expected={} forwarded={} {:?}", i, expected_outbound_amount_msat, amt, r.is_ok()));
						ctl.next_intercept += 1;
					},
					_ => log.push(format!("ev{} {:?}", i, e)),
				}
			}
		}
		idle = if progressed { 0 } else { idle + 1 };
		if idle >= 3 {
			break;
		}
	}
}

const KINDS: [&str; 5] = ["underpay1", "underpay2", "keysend", "metadata", "mpp"];

/// reload: 0 = never, 1 = while PaymentClaimable is pending, 2 = after it was handled
#[derive(Clone, Copy, Default)]
struct Opts {
	/// the final state also lists every channel's ChannelConfig
	cfg_probe: bool,
}

fn run(kind: usize, seed: u64, reload: u8, partial: bool, opts: Opts) -> Vec<String> {
	let mut rng = Rng(seed);
	let chanmon_cfgs = create_chanmon_cfgs(3);
	let node_cfgs = create_node_cfgs(3, &chanmon_cfgs);
	let persister;
	let new_chain_monitor;
	let persister2;
	let new_chain_monitor2;
	let persister3;
	let new_chain_monitor3;
	let max_in_flight_percent = 10;
	let mut intercept_cfg = test_default_channel_config();
	intercept_cfg.htlc_interception_flags = HTLCInterceptionFlags::ToInterceptSCIDs as u8;
	intercept_cfg.channel_handshake_config.announced_channel_max_inbound_htlc_value_in_flight_percentage = max_in_flight_percent;
	let mut underpay_cfg = test_default_channel_config();
	underpay_cfg.channel_config.accept_underpaying_htlcs = true;
	underpay_cfg.channel_handshake_config.unannounced_channel_max_inbound_htlc_value_in_flight_percentage = max_in_flight_percent;
	let underpay = kind <= 1;
	let cfgs = if underpay { [None, Some(intercept_cfg), Some(underpay_cfg)] } else { [None, None, None] };
	let node_chanmgrs = create_node_chanmgrs(3, &node_cfgs, &cfgs);
	let node_reloaded;
	let node_reloaded2;
	let node_reloaded3;
	let mut nodes = create_network(3, &node_cfgs, &node_chanmgrs);
	for n in nodes.iter() {
		*n.connect_style.borrow_mut() = ConnectStyle::BestBlockFirst;
	}
	let ids: Vec<PublicKey> = nodes.iter().map(|n| n.node.get_our_node_id()).collect();
	let mut log: Vec<String> = Vec::new();
	let recipient = if underpay { 2 } else { 1 };
	let mut ctl = Ctl { hold: Some(recipient), chan_ids: Vec::new(), skims: Vec::new(), next_intercept: 0, shares: Vec::new(), defer: partial, deferred: Vec::new(), dest: ids[2] };
	let amt_msat: u64 = 900_000 + rng.below(50_000);
	let preimage: PaymentPreimage;
	match kind {
		0 | 1 => {
			let parts = if kind == 0 { 1 } else { 2 };
			let shares: Vec<u64> = if parts == 1 { vec![amt_msat] } else { vec![amt_msat * 6 / 10, amt_msat - amt_msat * 6 / 10] };
			ctl.shares = shares.clone();
			let mut hints = Vec::new();
			for p in 0..parts {
				let channel_size = shares[p] / 1000 * 100 / max_in_flight_percent as u64 + 100;
				let _ = create_announced_chan_between_nodes_with_value(&nodes, 0, 1, channel_size, 0);
				let chan = create_unannounced_chan_between_nodes_with_value(&nodes, 1, 2, channel_size, 0);
				ctl.chan_ids.push(chan.0.channel_id);
				ctl.skims.push(20 + 15 * p as u64 + rng.below(5));
				hints.push(RouteHint(vec![RouteHintHop {
					src_node_id: ids[1],
					short_channel_id: nodes[1].node.get_intercept_scid(),
					fees: RoutingFees { base_msat: 1000, proportional_millionths: 0 },
					cltv_expiry_delta: MIN_CLTV_EXPIRY_DELTA,
					htlc_minimum_msat: None,
					htlc_maximum_msat: Some(shares[p] + 5),
				}]));
			}
			let pp = PaymentParameters::from_node_id(ids[2], TEST_FINAL_CLTV).with_route_hints(hints).unwrap().with_bolt11_features(nodes[2].node.bolt11_invoice_features()).unwrap();
			let rp = RouteParameters::from_payment_params_and_value(pp, amt_msat);
			let (hash, secret, _) = nodes[2].node.create_inbound_payment(Some(amt_msat), 3600, None, None).unwrap();
			preimage = nodes[2].node.get_payment_preimage_decrypt_metadata(hash, secret, None).unwrap();
			let r = nodes[0].node.send_payment(hash, RecipientOnionFields::secret_only(secret, amt_msat), PaymentId(hash.0), rp, Retry::Attempts(0));
			log.push(format!("send {:?}", r.is_ok()));
		},
		2 => {
			create_announced_chan_between_nodes_with_value(&nodes, 0, 1, 200_000, 0);
			let pre = PaymentPreimage([0x5a; 32]);
			preimage = pre;
			let onion = RecipientOnionFields::spontaneous_empty(amt_msat).with_custom_tlvs(RecipientCustomTlvs::new(vec![(5482373483, vec![1, 2, 3, 4]), (5482373487, vec![0x42; 33])]).unwrap());
			let rp = RouteParameters::from_payment_params_and_value(PaymentParameters::for_keysend(ids[1], TEST_FINAL_CLTV, false), amt_msat);
			let r = nodes[0].node.send_spontaneous_payment(Some(pre), onion, PaymentId([7; 32]), rp, Retry::Attempts(0));
			log.push(format!("send {:?}", r.is_ok()));
		},
		3 => {
			create_announced_chan_between_nodes_with_value(&nodes, 0, 1, 200_000, 0);
			let (pre, hash, secret) = get_payment_preimage_hash(&nodes[1], Some(amt_msat), None);
			preimage = pre;
			let onion = RecipientOnionFields::secret_only(secret, amt_msat).with_custom_tlvs(RecipientCustomTlvs::new(vec![(5482373485, vec![9; 7]), (5482373489, vec![])]).unwrap());
			let pp = PaymentParameters::from_node_id(ids[1], TEST_FINAL_CLTV).with_bolt11_features(nodes[1].node.bolt11_invoice_features()).unwrap();
			let r = nodes[0].node.send_payment(hash, onion, PaymentId(hash.0), RouteParameters::from_payment_params_and_value(pp, amt_msat), Retry::Attempts(0));
			log.push(format!("send {:?}", r.is_ok()));
		},
		_ => {
			create_announced_chan_between_nodes_with_value(&nodes, 0, 1, 100_000, 0);
			create_announced_chan_between_nodes_with_value(&nodes, 0, 1, 60_000, 0);
			let amt = 32_000_000 + rng.below(1_000_000);
			let (pre, hash, secret) = get_payment_preimage_hash(&nodes[1], Some(amt), None);
			preimage = pre;
			let pp = PaymentParameters::from_node_id(ids[1], TEST_FINAL_CLTV).with_bolt11_features(nodes[1].node.bolt11_invoice_features()).unwrap();
			let r = nodes[0].node.send_payment(hash, RecipientOnionFields::secret_only(secret, amt), PaymentId(hash.0), RouteParameters::from_payment_params_and_value(pp, amt), Retry::Attempts(0));
			log.push(format!("send {:?}", r.is_ok()));
		},
	}
	pump(&nodes, &mut ctl, &mut log);
	let peers: Vec<usize> = (0..3).filter(|p| *p != recipient).collect();
	if partial {
		// ---- point 3: only the FIRST part of the MPP has reached the recipient (an incomplete set of
		// claimable HTLCs is the only thing it holds); the second part arrives after the cut
		let snapshot = if reload == 3 {
			let mgr_bytes = nodes[recipient].node.encode();
			let mut mons: Vec<Vec<u8>> = Vec::new();
			for cid in nodes[recipient].chain_monitor.chain_monitor.list_monitors() {
				mons.push(nodes[recipient].chain_monitor.chain_monitor.get_monitor(cid).unwrap().encode());
			}
			Some((mgr_bytes, mons))
		} else {
			None
		};
		for p in peers.iter() {
			disconnect(&nodes, recipient, *p);
		}
		for n in nodes.iter() {
			n.node.get_and_clear_pending_msg_events();
		}
		if let Some((mgr_bytes, mons)) = snapshot {
			let refs: Vec<&[u8]> = mons.iter().map(|m| &m[..]).collect();
			reload_node!(nodes[recipient], &mgr_bytes, &refs, persister3, new_chain_monitor3, node_reloaded3);
		}
		for p in peers.iter() {
			reconnect(&nodes, recipient, *p);
		}
		pump(&nodes, &mut ctl, &mut log);
		log.push("== second part".to_string());
		ctl.defer = false;
		let deferred: Vec<_> = ctl.deferred.drain(..).collect();
		for (id, expected) in deferred {
			let k = (0..ctl.shares.len()).min_by_key(|j| (ctl.shares[*j] as i64 - expected as i64).abs()).unwrap_or(0);
			let amt = expected - ctl.skims.get(k).cloned().unwrap_or(0);
			let r = nodes[1].node.forward_intercepted_htlc(id, &ctl.chan_ids[k], ctl.dest, amt);
			log.push(format!("ev1 deferred HTLC forwarded={} {:?}", amt, r.is_ok()));
		}
		pump(&nodes, &mut ctl, &mut log);
	}
	// ---- point 1: the PaymentClaimable event is still pending inside the recipient's manager
	for p in peers.iter() {
		disconnect(&nodes, recipient, *p);
	}
	for n in nodes.iter() {
		n.node.get_and_clear_pending_msg_events();
	}
	let r1 = reload == 1;
	let mut reloaded = false;
	if r1 {
		let mgr_bytes = nodes[recipient].node.encode();
		let mut mons: Vec<Vec<u8>> = Vec::new();
		for cid in nodes[recipient].chain_monitor.chain_monitor.list_monitors() {
			mons.push(nodes[recipient].chain_monitor.chain_monitor.get_monitor(cid).unwrap().encode());
		}
		let refs: Vec<&[u8]> = mons.iter().map(|m| &m[..]).collect();
		reload_node!(nodes[recipient], &mgr_bytes, &refs, persister, new_chain_monitor, node_reloaded);
		reloaded = true;
	}
	for p in peers.iter() {
		reconnect(&nodes, recipient, *p);
	}
	ctl.hold = None;
	log.push("== claimable".to_string());
	pump(&nodes, &mut ctl, &mut log);
	// ---- point 2: the event was handled; only the claimable-payment state remains
	if reload == 2 && !reloaded {
		for p in peers.iter() {
			disconnect(&nodes, recipient, *p);
		}
		for n in nodes.iter() {
			n.node.get_and_clear_pending_msg_events();
		}
		let mgr_bytes = nodes[recipient].node.encode();
		let mut mons: Vec<Vec<u8>> = Vec::new();
		for cid in nodes[recipient].chain_monitor.chain_monitor.list_monitors() {
			mons.push(nodes[recipient].chain_monitor.chain_monitor.get_monitor(cid).unwrap().encode());
		}
		let refs: Vec<&[u8]> = mons.iter().map(|m| &m[..]).collect();
		reload_node!(nodes[recipient], &mgr_bytes, &refs, persister2, new_chain_monitor2, node_reloaded2);
		for p in peers.iter() {
			reconnect(&nodes, recipient, *p);
		}
	} else {
		for p in peers.iter() {
			disconnect(&nodes, recipient, *p);
		}
		for n in nodes.iter() {
			n.node.get_and_clear_pending_msg_events();
		}
		for p in peers.iter() {
			reconnect(&nodes, recipient, *p);
		}
	}
	pump(&nodes, &mut ctl, &mut log);
	log.push("== claim".to_string());
	nodes[recipient].node.claim_funds(preimage);
	pump(&nodes, &mut ctl, &mut log);
	log.push("== final state".to_string());
	state_lines(&nodes, &mut log);
	if opts.cfg_probe {
		for (i, n) in nodes.iter().enumerate() {
			let mut c: Vec<String> = n.node.list_channels().iter().map(|c| format!("cfg{} {} {:?}", i, h8(&c.channel_id.0), c.config)).collect();
			c.sort();
			log.extend(c);
		}
	}
	for n in nodes.iter() {
		n.node.get_and_clear_pending_events();
		n.node.get_and_clear_pending_msg_events();
		n.chain_monitor.added_monitors.lock().unwrap().clear();
	}
	std::mem::forget(nodes);
	// phase-wise multisets
	let mut out: Vec<String> = Vec::new();
	let mut cur: Vec<String> = Vec::new();
	for l in log {
		if l.starts_with("== ") {
			cur.sort();
			out.extend(cur.drain(..));
			out.push(l);
		} else {
			cur.push(l);
		}
	}
	cur.sort();
	out.extend(cur);
	out
}

static LAST_PANIC: std::sync::Mutex<String> = std::sync::Mutex::new(String::new());

fn main() {
	let args: Vec<String> = std::env::args().collect();
	let seed: u64 = args.get(1).and_then(|s| s.parse().ok()).unwrap_or(1);
	let dump = std::env::var("H_RECV_DUMP").is_ok();
	panic::set_hook(Box::new(|info| {
		let loc = info.location().map(|l| format!("{}:{}", l.file(), l.line())).unwrap_or_default();
		let msg = if let Some(s) = info.payload().downcast_ref::<&str>() { s.to_string() } else if let Some(s) = info.payload().downcast_ref::<String>() { s.clone() } else { String::new() };
		let mut g = LAST_PANIC.lock().unwrap();
		if g.is_empty() {
			*g = format!("{} at {}", msg.chars().take(160).collect::<String>(), loc);
		}
	}));
	let esc = |s: &str| s.replace('\\', "/").replace('"', "'").replace('\n', " ");
	let report = |name: &str, point: u8, s: u64, a: &std::thread::Result<Vec<String>>, b: &std::thread::Result<Vec<String>>, need_claim: bool, pa: &str, pb: &str| {
		let (ok, why, nobs, claimable) = match (a, b) {
			(Ok(a), Ok(b)) => {
				if dump {
					for l in a.iter() { println!("A {}", l); }
					for l in b.iter() { println!("B{} {}", point, l); }
				}
				let has_claimable = a.iter().any(|l| l.contains("PaymentClaimable")) && a.iter().any(|l| l.contains("PaymentClaimed"));
				let d = (0..a.len().max(b.len())).find(|k| a.get(*k) != b.get(*k));
				match d {
					None if has_claimable || !need_claim => (true, String::new(), a.len(), has_claimable),
					None => (false, "harness: the scenario did not produce a claimable and claimed payment".to_string(), a.len(), false),
					Some(k) => (false, format!("the reloaded recipient behaves differently: without reload `{}` / with reload `{}`", a.get(k).map(|s| s.as_str()).unwrap_or("<end>"), b.get(k).map(|s| s.as_str()).unwrap_or("<end>")), a.len(), has_claimable),
				}
			},
			_ => (false, format!("a run panicked: {} {}", pa, pb), 0, false),
		};
		println!(
			"R {{\"kind\": \"recv\", \"scenario\": \"{}\", \"reload_point\": {}, \"key\": \"recv:{}:p{}\", \"seed\": {}, \"ok\": {}, \"observations\": {}, \"claimed\": {}, \"fails\": [{}]}}",
			name, point, name, point, s, if ok { "true" } else { "false" }, nobs, claimable, if ok { String::new() } else { format!("\"{}\"", esc(&why.chars().take(900).collect::<String>())) }
		);
	};
	for kind in 0..KINDS.len() {
		let s = seed.wrapping_mul(0x9E37_79B9).wrapping_add(kind as u64);
		let a = panic::catch_unwind(AssertUnwindSafe(|| run(kind, s, 0, false, Opts::default())));
		let pa = std::mem::take(&mut *LAST_PANIC.lock().unwrap());
		for point in [1u8, 2] {
			let b = panic::catch_unwind(AssertUnwindSafe(|| run(kind, s, point, false, Opts::default())));
			let pb = std::mem::take(&mut *LAST_PANIC.lock().unwrap());
			report(KINDS[kind], point, s, &a, &b, true, &pa, &pb);
		}
		if kind == 1 {
			// point 3: reload while only the first MPP part has arrived
			for point in [3u8] {
				let o = Opts { cfg_probe: false };
				let a3 = panic::catch_unwind(AssertUnwindSafe(|| run(kind, s, 0, true, o)));
				let pa3 = std::mem::take(&mut *LAST_PANIC.lock().unwrap());
				let b3 = panic::catch_unwind(AssertUnwindSafe(|| run(kind, s, 3, true, o)));
				let pb3 = std::mem::take(&mut *LAST_PANIC.lock().unwrap());
				report(KINDS[kind], point, s, &a3, &b3, true, &pa3, &pb3);
			}
		}
		if kind == 0 {
			// the per-channel configuration itself
			let o = Opts { cfg_probe: true };
			let ac = panic::catch_unwind(AssertUnwindSafe(|| run(kind, s, 0, false, o)));
			let pac = std::mem::take(&mut *LAST_PANIC.lock().unwrap());
			let bc = panic::catch_unwind(AssertUnwindSafe(|| run(kind, s, 2, false, o)));
			let pbc = std::mem::take(&mut *LAST_PANIC.lock().unwrap());
			report("channel_config", 2, s, &ac, &bc, false, &pac, &pbc);
		}
	}
}
