//! C02 trace harness, part 2: SEVERAL concurrent forwards through B, dust-band amounts with feerate
//! changes, late preimages. Same engine and trace format as h_fwd.rs (seeded scheduler, scripted
//! persister with durable snapshots, restarts of B, own block builder); differences:
//!   * A - B has two channels (U, U2), B - C has two (D, D2); A and C fund them, B is never the funder
//!   * one MPP payment of 2-3 parts (one payment hash, distinct part amounts, parts routed over chosen
//!     U*/D* pairs) and/or independent payments, all pending at the same time
//!   * C claims by message / fails / goes silent / claims with the link cut and then C or B
//!     force-closes the downstream channels; C may wait a number of blocks before acting
//!   * A or B may force-close an upstream channel at any step; blocks may be mined in bursts during
//!     which B's manager does not run (the monitor's events are drained late)
//!   * A or C (the funders) may change their fee estimate and send update_fee at any step
//!   * `CHST` records: B's view of each channel (feerate, pending HTLCs) whenever it changes
//! usage: h_fwdm run <seed> <first> <count> <outfile> | h_fwdm one <seed> <index> <outfile>
use std::collections::{HashMap, HashSet, VecDeque};
use std::io::Write as _;
use std::panic::{self, AssertUnwindSafe};
use std::sync::{Arc, Mutex};

use bitcoin::secp256k1::PublicKey;
use bitcoin::{OutPoint as BOutPoint, Transaction, Txid};

use lightning::chain::chainmonitor::Persist;
use lightning::chain::channelmonitor::verif_hooks_fwd::{monitor_htlc_view, update_step_details};
use lightning::chain::channelmonitor::{ChannelMonitor, ChannelMonitorUpdate, ANTI_REORG_DELAY};
use lightning::chain::{BlockLocator, ChannelMonitorUpdateStatus, Confirm};
use lightning::events::{ClosureReason, Event, HTLCHandlingFailureType};
use lightning::ln::channelmanager::{ChannelManagerReadArgs, PaymentId};
use lightning::ln::functional_test_utils::*;
use lightning::ln::msgs::{self, BaseMessageHandler, ChannelMessageHandler, MessageSendEvent};
use lightning::{get_local_commitment_txn, get_monitor};
use lightning::ln::outbound_payment::RecipientOnionFields;
use lightning::ln::types::ChannelId;
use lightning::sign::SpendableOutputDescriptor;
use lightning::types::payment::{PaymentHash, PaymentPreimage};
use lightning::util::config::{MaxDustHTLCExposure, UserConfig};
use lightning::util::persist::MonitorName;
use lightning::util::ser::{ReadableArgs, Writeable};
use lightning::util::test_channel_signer::TestChannelSigner;
use lightning::util::test_utils::TestChainMonitor;
use lightning::get_route_and_payment_hash;

use verif_harness::Rng;

const A: usize = 0;
const B: usize = 1;
const C: usize = 2;
const NAMES: [&str; 3] = ["A", "B", "C"];

fn hx(b: &[u8]) -> String {
	b.iter().map(|x| format!("{:02x}", x)).collect()
}
fn short(b: &[u8]) -> String {
	hx(&b[..6])
}

// ------------------------------------------------------------------------------------------------
// trace
// ------------------------------------------------------------------------------------------------
struct Trace {
	scen: u64,
	step: u64,
	lines: Vec<String>,
}
impl Trace {
	fn rec(&mut self, kind: &str, kv: String) {
		self.lines.push(format!("T {} {} {} {}", self.scen, self.step, kind, kv));
	}
}
type TraceRef = Arc<Mutex<Trace>>;

// ------------------------------------------------------------------------------------------------
// scripted persister
// ------------------------------------------------------------------------------------------------
struct Snap {
	update_id: u64,
	bytes: Vec<u8>,
	/// reported complete to the ChainMonitor (returned Completed, or completed later by the scheduler)
	complete: bool,
	/// the update id this snapshot was taken for, when it was an off-chain update returned InProgress
	pending_id: Option<u64>,
}
struct PState {
	rng: Rng,
	p_async: u64,
	force_sync: bool,
	/// number of in-flight (InProgress) updates per channel, resynchronised from the ChainMonitor
	/// after every harness action
	inflight: HashMap<ChannelId, usize>,
	snaps: HashMap<ChannelId, Vec<Snap>>,
	names: HashMap<ChannelId, &'static str>,
	hashes: Vec<PaymentHash>,
	/// id of an upstream update carrying the payment preimage that is still in flight
	u_preimage_pending: Option<u64>,
	/// scripted scenarios: the next off-chain update is returned InProgress
	force_async_once: bool,
}
struct ScriptedPersister {
	active: bool,
	st: Mutex<PState>,
	trace: TraceRef,
}
impl ScriptedPersister {
	fn new(active: bool, seed: u64, p_async: u64, trace: TraceRef) -> Self {
		ScriptedPersister {
			active,
			st: Mutex::new(PState {
				rng: Rng(seed),
				p_async,
				force_sync: true,
				inflight: HashMap::new(),
				snaps: HashMap::new(),
				names: HashMap::new(),
				hashes: Vec::new(),
				u_preimage_pending: None,
				force_async_once: false,
			}),
			trace,
		}
	}
}
/// What the monitor remembers about the scenario's payment: `o` 0 = not among the outbound HTLCs a
/// restart could still resolve, 1 = there without a preimage, 2 = there with the preimage; `i` = the
/// counterparty's current/previous commitment still carries it as an HTLC offered to us; `p` = its
/// preimage is stored.
fn view_of(data: &ChannelMonitor<TestChannelSigner>, hashes: &Vec<PaymentHash>) -> String {
	if hashes.is_empty() {
		return "-".to_string();
	}
	let (outb, inb, pre) = monitor_htlc_view(data);
	hashes
		.iter()
		.enumerate()
		.map(|(k, h)| {
			// number of outbound entries for the hash, and how many of them carry the preimage
			let n = outb.iter().filter(|(x, _)| x == h).count();
			let np = outb.iter().filter(|(x, p)| x == h && *p).count();
			let i = if inb.contains(h) { 1 } else { 0 };
			let p = if pre.contains(h) { 1 } else { 0 };
			format!("{}:o{}/{}i{}p{}", k, np, n, i, p)
		})
		.collect::<Vec<_>>()
		.join(",")
}

impl Persist<TestChannelSigner> for ScriptedPersister {
	fn persist_new_channel(
		&self, _name: MonitorName, data: &ChannelMonitor<TestChannelSigner>,
	) -> ChannelMonitorUpdateStatus {
		if self.active {
			let mut st = self.st.lock().unwrap();
			st.snaps.entry(data.channel_id()).or_insert_with(Vec::new).push(Snap {
				update_id: data.get_latest_update_id(),
				bytes: data.encode(),
				complete: true,
				pending_id: None,
			});
		}
		ChannelMonitorUpdateStatus::Completed
	}

	fn update_persisted_channel(
		&self, _name: MonitorName, update: Option<&ChannelMonitorUpdate>,
		data: &ChannelMonitor<TestChannelSigner>,
	) -> ChannelMonitorUpdateStatus {
		if !self.active {
			return ChannelMonitorUpdateStatus::Completed;
		}
		let chan = data.channel_id();
		let mut st = self.st.lock().unwrap();
		let inflight = *st.inflight.get(&chan).unwrap_or(&0);
		let name = st.names.get(&chan).cloned().unwrap_or("?");
		let ret = match update {
			Some(_) => {
				// the Watch contract: never Completed while an earlier update of the channel is in flight
				if inflight > 0 {
					ChannelMonitorUpdateStatus::InProgress
				} else if st.force_async_once {
					st.force_async_once = false;
					ChannelMonitorUpdateStatus::InProgress
				} else if !st.force_sync && st.rng.below(100) < st.p_async {
					ChannelMonitorUpdateStatus::InProgress
				} else {
					ChannelMonitorUpdateStatus::Completed
				}
			},
			None => {
				if inflight > 0 {
					ChannelMonitorUpdateStatus::InProgress
				} else {
					ChannelMonitorUpdateStatus::Completed
				}
			},
		};
		let in_progress = ret == ChannelMonitorUpdateStatus::InProgress;
		if let Some(u) = update {
			if in_progress {
				*st.inflight.entry(chan).or_insert(0) += 1;
				if name.starts_with('U') && update_step_details(u).iter().any(|d| d.starts_with("PaymentPreimage")) {
					st.u_preimage_pending = Some(u.update_id);
				}
			}
			self.trace.lock().unwrap().rec(
				"PERSIST",
				format!(
					"chan={} id={} ret={} view={} steps={}",
					name,
					u.update_id,
					if in_progress { "P" } else { "C" },
					view_of(data, &st.hashes),
					update_step_details(u).join("|")
				),
			);
		}
		st.snaps.entry(chan).or_insert_with(Vec::new).push(Snap {
			update_id: data.get_latest_update_id(),
			bytes: data.encode(),
			complete: !in_progress,
			pending_id: if in_progress { update.map(|u| u.update_id) } else { None },
		});
		ret
	}

	fn archive_persisted_channel(&self, _name: MonitorName) {}
}

// ------------------------------------------------------------------------------------------------
// scenario parameters
// ------------------------------------------------------------------------------------------------
#[derive(Clone, Copy, PartialEq, Debug)]
enum CBehav {
	Claim,
	Fail,
	Silent,
	/// C claims with the link cut, then C force-closes the downstream channels
	ClaimOnchainC,
	/// C claims with the link cut, then B force-closes the downstream channels (B's own commitment)
	ClaimOnchainB,
}
#[derive(Clone, Debug)]
struct PartSpec {
	amt_msat: u64,
	u: usize, // 0 = U, 1 = U2
	d: usize, // 0 = D, 1 = D2
}
#[derive(Clone, Debug)]
struct Params {
	/// payments[k] = parts of payment k (one part = plain payment, several = MPP with one hash)
	payments: Vec<Vec<PartSpec>>,
	c_behav: CBehav,
	/// blocks C lets pass between PaymentClaimable and acting on it
	c_delay: u32,
	/// 0 nobody, 1 A force-closes an upstream channel, 2 B does
	u_closer: u8,
	p_async: u64,
	p_disc: u64,
	p_reload: u64,
	max_reloads: u32,
	p_mgr_persist: u64,
	steps: u64,
	prop: u32,
	base: u32,
	delta: u16,
	/// weight of "mine a burst of blocks while B's manager does not run"
	p_burst: u64,
	/// feerate changes by the funders: (who: 0 = A, 2 = C; new feerate sat/kw)
	fee_bumps: Vec<(usize, u32)>,
	/// B (instead of C) funds the downstream channel and is the one who sends update_fee there
	b_funds_d: bool,
	class: u8,
}

fn gen_params(rng: &mut Rng) -> Params {
	let class = rng.below(3) as u8; // 0 multi-forward, 1 dust band + feerate, 2 late preimage
	let mut payments: Vec<Vec<PartSpec>> = Vec::new();
	let mut fee_bumps = Vec::new();
	let mut c_behav = match rng.below(10) {
		0..=2 => CBehav::Claim,
		3 => CBehav::Fail,
		4 => CBehav::Silent,
		5..=6 => CBehav::ClaimOnchainC,
		_ => CBehav::ClaimOnchainB,
	};
	let mut c_delay = 0;
	let mut u_closer = if rng.below(6) == 0 { 1 + rng.below(2) as u8 } else { 0 };
	let mut b_funds_d = false;
	match class {
		0 => {
			// an MPP payment of 2-3 parts (distinct amounts), same or different downstream channels,
			// possibly plus an independent payment
			let nparts = 2 + rng.below(2) as usize;
			let same_d = rng.below(2) == 0;
			let mut parts = Vec::new();
			for k in 0..nparts {
				parts.push(PartSpec {
					amt_msat: 3_000_000 + rng.below(30_000_000) + 1_000 * k as u64,
					u: (k % 2) as usize,
					d: if same_d { 0 } else { (rng.below(2)) as usize },
				});
			}
			payments.push(parts);
			if rng.below(2) == 0 {
				payments.push(vec![PartSpec { amt_msat: 2_000_000 + rng.below(40_000_000), u: rng.below(2) as usize, d: rng.below(2) as usize }]);
			}
		},
		1 => {
			// amounts around the dust thresholds of both sides at the current and at bumped feerates
			let n = 2 + rng.below(2) as usize;
			let feerate_new = [500u32, 1000, 2530, 2530, 5000, 10_000][rng.below(6) as usize];
			let fb = std::cmp::max(feerate_new + 2530, feerate_new * 1250 / 1000) as u64;
			let lo = 354 + 663 * fb / 1000;
			let hi = 354 + 703 * fb / 1000;
			for _ in 0..n {
				let sat = match rng.below(8) {
					0 => 200 + rng.below(400),
					1 => lo.saturating_sub(3) + rng.below(6),
					2..=5 => lo + rng.below(hi - lo + 1),
					6 => hi.saturating_sub(3) + rng.below(8),
					_ => 1_000 + rng.below(6_000),
				};
				payments.push(vec![PartSpec { amt_msat: sat * 1000 + rng.below(1000), u: rng.below(2) as usize, d: 0 }]);
			}
			b_funds_d = rng.below(4) == 0;
			let who = if b_funds_d { B } else if rng.below(3) == 0 { A } else { C };
			fee_bumps.push((who, feerate_new));
			if rng.below(3) == 0 {
				fee_bumps.push((who, [253u32, 1000, 20_000][rng.below(3) as usize]));
			}
			// the HTLCs must be pending while the feerate moves
			c_behav = if rng.below(3) == 0 { CBehav::Claim } else { CBehav::Silent };
			c_delay = 0;
			u_closer = 0;
		},
		_ => {
			let n = 1 + rng.below(2) as usize;
			for _ in 0..n {
				payments.push(vec![PartSpec { amt_msat: 3_000_000 + rng.below(50_000_000), u: rng.below(2) as usize, d: rng.below(2) as usize }]);
			}
			c_behav = if rng.below(2) == 0 { CBehav::Claim } else { CBehav::ClaimOnchainC };
			c_delay = [0u32, 1, 2, 5, 6, 7, 12, 30][rng.below(8) as usize];
			u_closer = 1 + rng.below(2) as u8;
		},
	}
	let chaos = rng.below(4);
	Params {
		payments,
		c_behav,
		c_delay,
		u_closer,
		p_async: [0, 40, 80, 100][rng.below(4) as usize],
		p_disc: if chaos >= 2 { [0, 2, 5][rng.below(3) as usize] } else { 0 },
		p_reload: if chaos >= 3 { [0, 2, 4][rng.below(3) as usize] } else { 0 },
		max_reloads: 1 + rng.below(2) as u32,
		p_mgr_persist: [5, 15, 40][rng.below(3) as usize],
		steps: 150 + rng.below(350),
		prop: [0, 1, 1000, 10_000][rng.below(4) as usize],
		base: [0, 1, 1000][rng.below(3) as usize],
		delta: [48, 72][rng.below(2) as usize],
		p_burst: [0, 2, 5][rng.below(3) as usize],
		fee_bumps,
		b_funds_d,
		class,
	}
}

// ------------------------------------------------------------------------------------------------
// messages in flight
// ------------------------------------------------------------------------------------------------
#[derive(Clone)]
enum Msg {
	Add(msgs::UpdateAddHTLC),
	Fulfill(msgs::UpdateFulfillHTLC),
	Fail(msgs::UpdateFailHTLC),
	FailMalformed(msgs::UpdateFailMalformedHTLC),
	Fee(msgs::UpdateFee),
	Cs(Vec<msgs::CommitmentSigned>),
	Raa(msgs::RevokeAndACK),
	Reestablish(msgs::ChannelReestablish),
	Ready(msgs::ChannelReady),
	AnnSigs(msgs::AnnouncementSignatures),
	ChanUpdate(msgs::ChannelUpdate),
	Error(msgs::ErrorMessage),
	Shutdown(msgs::Shutdown),
	ClosingSigned(msgs::ClosingSigned),
}
impl Msg {
	fn describe(&self) -> String {
		match self {
			Msg::Add(m) => format!(
				"type=add htlc_id={} amt={} cltv={} hash={}",
				m.htlc_id,
				m.amount_msat,
				m.cltv_expiry,
				short(&m.payment_hash.0)
			),
			Msg::Fulfill(m) => {
				format!("type=fulfill htlc_id={} preimage={}", m.htlc_id, hx(&m.payment_preimage.0))
			},
			Msg::Fail(m) => format!("type=fail htlc_id={}", m.htlc_id),
			Msg::FailMalformed(m) => format!("type=malformed htlc_id={}", m.htlc_id),
			Msg::Fee(m) => format!("type=fee feerate={}", m.feerate_per_kw),
			Msg::Cs(_) => "type=cs".to_string(),
			Msg::Raa(_) => "type=raa".to_string(),
			Msg::Reestablish(m) => format!(
				"type=reest next_local={} next_remote={}",
				m.next_local_commitment_number, m.next_remote_commitment_number
			),
			Msg::Ready(_) => "type=ready".to_string(),
			Msg::AnnSigs(_) => "type=annsigs".to_string(),
			Msg::ChanUpdate(_) => "type=chanupdate".to_string(),
			Msg::Error(m) => {
				format!("type=error data={}", m.data.replace(' ', "_").chars().take(60).collect::<String>())
			},
			Msg::Shutdown(_) => "type=shutdown".to_string(),
			Msg::ClosingSigned(_) => "type=closingsigned".to_string(),
		}
	}
}

struct TxInfo {
	tx: Transaction,
	by: usize,
}

struct Pay {
	hash: PaymentHash,
	preimage: PaymentPreimage,
	/// height at which C saw it claimable
	claimable_at: Option<u32>,
	c_acted: bool,
	a_result: &'static str,
}

struct World<'a> {
	nodes: Vec<Node<'a, 'a, 'a>>,
	ids: [PublicKey; 3],
	trace: TraceRef,
	persister_b: &'a ScriptedPersister,
	/// queues[from][to]
	queues: Vec<Vec<VecDeque<Msg>>>,
	connected: [[bool; 3]; 3],
	/// (channel id, name): U, U2 between A and B; D, D2 between B and C
	chans: Vec<(ChannelId, &'static str)>,
	mempool: Vec<TxInfo>,
	seen_txids: HashSet<Txid>,
	confirmed: HashSet<Txid>,
	spent: HashSet<BOutPoint>,
	dropped: HashSet<Txid>,
	known_outputs: HashMap<BOutPoint, u64>,
	c_silent: bool,
	pays: Vec<Pay>,
	c_behav: CBehav,
	c_delay: u32,
	/// B still has to force-close the downstream channels (ClaimOnchainB)
	b_fc_pending: bool,
	swept_b: u64,
	mgr_snapshot: Vec<u8>,
	mgr_snapshot_step: u64,
	reloads: u32,
	user_cfg_b: UserConfig,
	last_chst: HashMap<ChannelId, String>,
}

impl<'a> World<'a> {
	fn rec(&self, kind: &str, kv: String) {
		self.trace.lock().unwrap().rec(kind, kv);
	}
	fn set_step(&self, s: u64) {
		self.trace.lock().unwrap().step = s;
	}
	fn link_name(&self, from: usize, to: usize) -> String {
		format!("{}{}", NAMES[from], NAMES[to])
	}
	fn idx_of(&self, id: &PublicKey) -> Option<usize> {
		self.ids.iter().position(|x| x == id)
	}

	/// resynchronise the persister's in-flight counts with the ChainMonitor (authoritative)
	fn sync_inflight(&self) {
		let pend = self.nodes[B].chain_monitor.chain_monitor.list_pending_monitor_updates();
		let mut st = self.persister_b.st.lock().unwrap();
		st.inflight.clear();
		for (chan, ids) in pend {
			st.inflight.insert(chan, ids.len());
		}
	}

	fn pending_updates_b(&self) -> Vec<(ChannelId, u64)> {
		let pend = self.nodes[B].chain_monitor.chain_monitor.list_pending_monitor_updates();
		let mut v: Vec<(ChannelId, u64)> = Vec::new();
		for (chan, ids) in pend {
			for id in ids {
				v.push((chan, id));
			}
		}
		v.sort_by(|x, y| (x.0 .0, x.1).cmp(&(y.0 .0, y.1)));
		v
	}

	fn chan_name(&self, c: &ChannelId) -> &'static str {
		self.chans.iter().find(|(id, _)| id == c).map(|(_, n)| *n).unwrap_or("?")
	}

	fn chan_id(&self, name: &str) -> ChannelId {
		self.chans.iter().find(|(_, n)| *n == name).map(|(id, _)| *id).unwrap()
	}

	fn downstream_chans(&self) -> Vec<ChannelId> {
		self.chans.iter().filter(|(_, n)| n.starts_with('D')).map(|(id, _)| *id).collect()
	}

	fn describe(&self, m: &Msg) -> String {
		let c = match m {
			Msg::Add(x) => Some(x.channel_id),
			Msg::Fulfill(x) => Some(x.channel_id),
			Msg::Fail(x) => Some(x.channel_id),
			Msg::FailMalformed(x) => Some(x.channel_id),
			Msg::Fee(x) => Some(x.channel_id),
			Msg::Cs(x) => x.first().map(|y| y.channel_id),
			Msg::Raa(x) => Some(x.channel_id),
			Msg::Reestablish(x) => Some(x.channel_id),
			Msg::Error(x) => Some(x.channel_id),
			_ => None,
		};
		match c {
			Some(c) => format!("{} chan={}", m.describe(), self.chan_name(&c)),
			None => m.describe(),
		}
	}

	/// B's own view of each of its channels, recorded whenever it changes
	fn record_chst(&mut self) {
		let chans = self.nodes[B].node.list_channels();
		for c in chans.iter() {
			let mut inb: Vec<String> = c
				.pending_inbound_htlcs
				.iter()
				.map(|h| format!("{}:{}:{}", h.htlc_id, h.amount_msat, h.state.as_ref().map(|s| format!("{:?}", s)).unwrap_or_default()))
				.collect();
			inb.sort();
			let mut outb: Vec<String> = c
				.pending_outbound_htlcs
				.iter()
				.map(|h| {
					format!(
						"{}:{}:{}",
						h.htlc_id.map(|x| x as i64).unwrap_or(-1),
						h.amount_msat,
						h.state.as_ref().map(|s| format!("{:?}", s)).unwrap_or_default()
					)
				})
				.collect();
			outb.sort();
			let line = format!(
				"chan={} feerate={} in={} out={}",
				self.chan_name(&c.channel_id),
				c.feerate_sat_per_1000_weight.unwrap_or(0),
				inb.join(","),
				outb.join(",")
			);
			if self.last_chst.get(&c.channel_id) != Some(&line) {
				self.last_chst.insert(c.channel_id, line.clone());
				self.rec("CHST", line);
			}
		}
	}

	fn complete_update(&mut self, chan: ChannelId, id: u64) {
		self.rec("COMPLETE", format!("chan={} id={}", self.chan_name(&chan), id));
		{
			let mut st = self.persister_b.st.lock().unwrap();
			if let Some(snaps) = st.snaps.get_mut(&chan) {
				for s in snaps.iter_mut() {
					if s.pending_id == Some(id) {
						s.complete = true;
					}
				}
			}
			if st.u_preimage_pending == Some(id) {
				st.u_preimage_pending = None;
			}
		}
		let _ = self.nodes[B].chain_monitor.chain_monitor.channel_monitor_updated(chan, id);
		self.sync_inflight();
	}

	/// pull pending message events out of a node into the per-link queues, recording each B-originated
	/// (and B-destined) message
	fn collect_msgs(&mut self, n: usize) {
		let evs = self.nodes[n].node.get_and_clear_pending_msg_events();
		self.sync_inflight();
		for ev in evs {
			let push = |w: &mut World<'a>, to: PublicKey, m: Msg| {
				if let Some(t) = w.idx_of(&to) {
					if n == C && w.c_silent {
						return;
					}
					// gossip is irrelevant here and only dilutes the schedule
					if let Msg::ChanUpdate(_) | Msg::AnnSigs(_) = m {
						return;
					}
					if !w.connected[n][t] {
						w.rec("DROP", format!("link={} {}", w.link_name(n, t), w.describe(&m)));
						return;
					}
					w.rec("SEND", format!("link={} {}", w.link_name(n, t), w.describe(&m)));
					w.queues[n][t].push_back(m);
				}
			};
			match ev {
				MessageSendEvent::UpdateHTLCs { node_id, updates, .. } => {
					for m in updates.update_add_htlcs {
						push(self, node_id, Msg::Add(m));
					}
					for m in updates.update_fulfill_htlcs {
						push(self, node_id, Msg::Fulfill(m));
					}
					for m in updates.update_fail_htlcs {
						push(self, node_id, Msg::Fail(m));
					}
					for m in updates.update_fail_malformed_htlcs {
						push(self, node_id, Msg::FailMalformed(m));
					}
					if let Some(m) = updates.update_fee {
						push(self, node_id, Msg::Fee(m));
					}
					if !updates.commitment_signed.is_empty() {
						push(self, node_id, Msg::Cs(updates.commitment_signed));
					}
				},
				MessageSendEvent::SendRevokeAndACK { node_id, msg } => push(self, node_id, Msg::Raa(msg)),
				MessageSendEvent::SendChannelReestablish { node_id, msg } => {
					push(self, node_id, Msg::Reestablish(msg))
				},
				MessageSendEvent::SendChannelReady { node_id, msg } => push(self, node_id, Msg::Ready(msg)),
				MessageSendEvent::SendAnnouncementSignatures { node_id, msg } => {
					push(self, node_id, Msg::AnnSigs(msg))
				},
				MessageSendEvent::SendChannelUpdate { node_id, msg } => {
					push(self, node_id, Msg::ChanUpdate(msg))
				},
				MessageSendEvent::SendShutdown { node_id, msg } => push(self, node_id, Msg::Shutdown(msg)),
				MessageSendEvent::SendClosingSigned { node_id, msg } => {
					push(self, node_id, Msg::ClosingSigned(msg))
				},
				MessageSendEvent::HandleError { node_id, action } => match action {
					msgs::ErrorAction::SendErrorMessage { msg } => push(self, node_id, Msg::Error(msg)),
					msgs::ErrorAction::DisconnectPeer { msg: Some(msg) } => {
						push(self, node_id, Msg::Error(msg))
					},
					msgs::ErrorAction::DisconnectPeerWithWarning { .. } => {},
					_ => {},
				},
				_ => {},
			}
		}
	}

	fn deliver(&mut self, from: usize, to: usize) {
		let m = match self.queues[from][to].pop_front() {
			Some(m) => m,
			None => return,
		};
		self.rec("RECV", format!("link={} {}", self.link_name(from, to), self.describe(&m)));
		let src = self.ids[from];
		let node = self.nodes[to].node;
		// Two nodes that have both forgotten a channel answer each other's "unknown channel"
		// channel_reestablish (commitment numbers 0/0) with another one, for ever; with two channels
		// per link that happens here. The exchange carries no information: cut it.
		if let Msg::Reestablish(r) = &m {
			if r.next_local_commitment_number == 0
				&& r.next_remote_commitment_number == 0
				&& !node.list_channels().iter().any(|c| c.channel_id == r.channel_id)
			{
				self.sync_inflight();
				self.after_action();
				return;
			}
		}
		match m {
			Msg::Add(m) => node.handle_update_add_htlc(src, &m),
			Msg::Fulfill(m) => node.handle_update_fulfill_htlc(src, m),
			Msg::Fail(m) => node.handle_update_fail_htlc(src, &m),
			Msg::FailMalformed(m) => node.handle_update_fail_malformed_htlc(src, &m),
			Msg::Fee(m) => node.handle_update_fee(src, &m),
			Msg::Cs(m) => node.handle_commitment_signed_batch_test(src, &m),
			Msg::Raa(m) => node.handle_revoke_and_ack(src, &m),
			Msg::Reestablish(m) => node.handle_channel_reestablish(src, &m),
			Msg::Ready(m) => node.handle_channel_ready(src, &m),
			Msg::AnnSigs(m) => node.handle_announcement_signatures(src, &m),
			Msg::ChanUpdate(m) => node.handle_channel_update(src, &m),
			Msg::Error(m) => node.handle_error(src, &m),
			Msg::Shutdown(m) => node.handle_shutdown(src, &m),
			Msg::ClosingSigned(m) => node.handle_closing_signed(src, &m),
		}
		self.sync_inflight();
		self.after_action();
	}

	fn after_action(&mut self) {
		for n in 0..3 {
			self.collect_msgs(n);
		}
		self.collect_broadcasts();
		self.record_chst();
	}

	fn collect_broadcasts(&mut self) {
		for n in 0..3 {
			let txs = self.nodes[n].tx_broadcaster.txn_broadcast();
			for tx in txs {
				let txid = tx.compute_txid();
				if self.seen_txids.insert(txid) {
					self.rec(
						"BCAST",
						format!(
							"by={} txid={} locktime={} ins={} outs={}",
							NAMES[n],
							short(&txid[..]),
							tx.lock_time.to_consensus_u32(),
							tx.input
								.iter()
								.map(|i| format!(
									"{}:{}",
									short(&i.previous_output.txid[..]),
									i.previous_output.vout
								))
								.collect::<Vec<_>>()
								.join(","),
							tx.output.iter().map(|o| o.value.to_sat().to_string()).collect::<Vec<_>>().join(",")
						),
					);
					for (i, o) in tx.output.iter().enumerate() {
						self.known_outputs.insert(BOutPoint { txid, vout: i as u32 }, o.value.to_sat());
					}
					self.mempool.push(TxInfo { tx, by: n });
				}
			}
		}
	}

	fn height(&self) -> u32 {
		self.nodes[B].best_block_info().1
	}

	/// mine one block on every node containing every mempool transaction that is final and whose
	/// inputs are unspent outputs of confirmed (or earlier-in-block) transactions
	fn mine(&mut self) {
		self.mine_inner(true);
	}

	fn mine_inner(&mut self, drain: bool) {
		let next_h = self.height() + 1;
		let mut included: Vec<Transaction> = Vec::new();
		let mut inc_info: Vec<String> = Vec::new();
		let mut rest: Vec<TxInfo> = Vec::new();
		let mut in_block: HashSet<Txid> = HashSet::new();
		let pool = std::mem::take(&mut self.mempool);
		// several passes so that children follow parents
		let mut pool: Vec<TxInfo> = pool;
		loop {
			let mut progressed = false;
			let mut next_pool = Vec::new();
			for ti in pool {
				let tx = &ti.tx;
				let lt = tx.lock_time.to_consensus_u32();
				let final_ = lt >= 500_000_000
					|| lt < next_h
					|| tx.input.iter().all(|i| i.sequence == bitcoin::Sequence::MAX);
				let conflict = tx.input.iter().any(|i| self.spent.contains(&i.previous_output));
				let parents_ok = tx.input.iter().all(|i| {
					self.confirmed.contains(&i.previous_output.txid)
						|| in_block.contains(&i.previous_output.txid)
				});
				let orphan = tx.input.iter().any(|i| self.dropped.contains(&i.previous_output.txid));
				if conflict || orphan {
					self.dropped.insert(tx.compute_txid());
					self.rec(
						"TXDROP",
						format!(
							"txid={} why={}",
							short(&tx.compute_txid()[..]),
							if conflict { "conflict" } else { "orphan" }
						),
					);
					progressed = true;
					continue;
				}
				if final_ && parents_ok {
					for i in tx.input.iter() {
						self.spent.insert(i.previous_output);
					}
					let txid = tx.compute_txid();
					in_block.insert(txid);
					let in_val: u64 = tx
						.input
						.iter()
						.map(|i| *self.known_outputs.get(&i.previous_output).unwrap_or(&0))
						.sum();
					let out_val: u64 = tx.output.iter().map(|o| o.value.to_sat()).sum();
					inc_info.push(format!(
						"{}/{}/{}/{}",
						short(&txid[..]),
						NAMES[ti.by],
						lt,
						in_val.saturating_sub(out_val)
					));
					included.push(ti.tx);
					progressed = true;
				} else {
					next_pool.push(ti);
				}
			}
			pool = next_pool;
			if !progressed {
				break;
			}
		}
		rest.append(&mut pool);
		self.mempool = rest;
		for t in in_block.iter() {
			self.confirmed.insert(*t);
		}
		self.rec("BLOCK", format!("height={} txs={}", next_h, inc_info.join(",")));
		for n in 0..3 {
			let block = create_dummy_block(self.nodes[n].best_block_hash(), next_h, included.clone());
			connect_block(&self.nodes[n], &block);
		}
		self.sync_inflight();
		if drain {
			self.after_action();
		} else {
			self.collect_msgs(A);
			self.collect_msgs(C);
			self.collect_broadcasts();
		}
	}

	fn disconnect(&mut self, x: usize, y: usize) {
		if !self.connected[x][y] {
			return;
		}
		self.rec("DISC", format!("link={}", self.link_name(x, y)));
		self.nodes[x].node.peer_disconnected(self.ids[y]);
		self.nodes[y].node.peer_disconnected(self.ids[x]);
		self.connected[x][y] = false;
		self.connected[y][x] = false;
		self.queues[x][y].clear();
		self.queues[y][x].clear();
		self.sync_inflight();
		self.after_action();
	}

	fn reconnect(&mut self, x: usize, y: usize) {
		if self.connected[x][y] {
			return;
		}
		if (x == C || y == C) && self.c_silent {
			return;
		}
		self.rec("CONN", format!("link={}", self.link_name(x, y)));
		self.connected[x][y] = true;
		self.connected[y][x] = true;
		connect_nodes(&self.nodes[x], &self.nodes[y]);
		self.sync_inflight();
		self.after_action();
	}

	fn balance_b(&self) -> u64 {
		let cm = &self.nodes[B].chain_monitor.chain_monitor;
		let mut total = 0u64;
		for chan in cm.list_monitors() {
			if let Ok(mon) = cm.get_monitor(chan) {
				for b in mon.get_claimable_balances() {
					total += b.claimable_amount_satoshis();
				}
			}
		}
		total
	}

	fn balances_detail_b(&self) -> String {
		let cm = &self.nodes[B].chain_monitor.chain_monitor;
		let mut chans = cm.list_monitors();
		chans.sort_by(|x, y| x.0.cmp(&y.0));
		let mut out = Vec::new();
		for chan in chans {
			if let Ok(mon) = cm.get_monitor(chan) {
				for b in mon.get_claimable_balances() {
					let s = format!("{:?}", b);
					let kind = s.split(|c: char| !c.is_alphanumeric()).next().unwrap_or("?").to_string();
					out.push(format!("{}:{}:{}", self.chan_name(&chan), kind, b.claimable_amount_satoshis()));
				}
			}
		}
		out.join(",")
	}

	fn unsettled_b(&self) -> bool {
		let cm = &self.nodes[B].chain_monitor.chain_monitor;
		for chan in cm.list_monitors() {
			if let Ok(mon) = cm.get_monitor(chan) {
				for b in mon.get_claimable_balances() {
					let s = format!("{:?}", b);
					if !s.starts_with("ClaimableOnChannelClose") {
						return true;
					}
				}
			}
		}
		false
	}

	fn process_events(&mut self, n: usize) {
		let evs = self.nodes[n].node.get_and_clear_pending_events();
		let mut cm_evs = self.nodes[n].chain_monitor.chain_monitor.get_and_clear_pending_events();
		let mut all = evs;
		all.append(&mut cm_evs);
		for ev in all {
			match &ev {
				Event::PaymentClaimable { payment_hash, amount_msat, .. } => {
					self.rec(
						"EVENT",
						format!("node={} name=PaymentClaimable hash={} amt={}", NAMES[n], short(&payment_hash.0), amount_msat),
					);
					if n == C {
						let h = self.height();
						for pay in self.pays.iter_mut() {
							if pay.hash == *payment_hash && pay.claimable_at.is_none() {
								pay.claimable_at = Some(h);
							}
						}
					}
				},
				Event::PaymentClaimed { payment_hash, amount_msat, .. } => self.rec(
					"EVENT",
					format!("node={} name=PaymentClaimed hash={} amt={}", NAMES[n], short(&payment_hash.0), amount_msat),
				),
				Event::PaymentSent { payment_hash, fee_paid_msat, .. } => {
					if n == A {
						for pay in self.pays.iter_mut() {
							if pay.hash == *payment_hash {
								pay.a_result = "sent";
							}
						}
					}
					self.rec(
						"EVENT",
						format!(
							"node={} name=PaymentSent hash={} fee_paid={}",
							NAMES[n],
							short(&payment_hash.0),
							fee_paid_msat.unwrap_or(0)
						),
					)
				},
				Event::PaymentFailed { payment_id, .. } => {
					if n == A {
						for pay in self.pays.iter_mut() {
							if PaymentId(pay.hash.0) == *payment_id && pay.a_result == "none" {
								pay.a_result = "failed";
							}
						}
					}
					self.rec("EVENT", format!("node={} name=PaymentFailed id={}", NAMES[n], short(&payment_id.0)))
				},
				Event::PaymentPathFailed { payment_failed_permanently, .. } => self.rec(
					"EVENT",
					format!("node={} name=PaymentPathFailed permanent={}", NAMES[n], payment_failed_permanently),
				),
				Event::PaymentPathSuccessful { .. } => {
					self.rec("EVENT", format!("node={} name=PaymentPathSuccessful", NAMES[n]))
				},
				Event::PaymentForwarded {
					total_fee_earned_msat,
					claim_from_onchain_tx,
					outbound_amount_forwarded_msat,
					..
				} => self.rec(
					"EVENT",
					format!(
						"node={} name=PaymentForwarded fee={} onchain={} out_amt={}",
						NAMES[n],
						total_fee_earned_msat.map(|x| x as i64).unwrap_or(-1),
						claim_from_onchain_tx,
						*outbound_amount_forwarded_msat as i64
					),
				),
				Event::HTLCHandlingFailed { failure_type, .. } => {
					let ft = match failure_type {
						HTLCHandlingFailureType::Forward { .. } => "Forward",
						HTLCHandlingFailureType::UnknownNextHop { .. } => "UnknownNextHop",
						HTLCHandlingFailureType::InvalidForward { .. } => "InvalidForward",
						HTLCHandlingFailureType::InvalidOnion => "InvalidOnion",
						HTLCHandlingFailureType::Receive { .. } => "Receive",
						_ => "Other",
					};
					self.rec("EVENT", format!("node={} name=HTLCHandlingFailed type={}", NAMES[n], ft))
				},
				Event::ChannelClosed { channel_id, reason, .. } => {
					let r = match reason {
						ClosureReason::HolderForceClosed { .. } => "HolderForceClosed".to_string(),
						ClosureReason::CounterpartyForceClosed { .. } => "CounterpartyForceClosed".to_string(),
						ClosureReason::CommitmentTxConfirmed => "CommitmentTxConfirmed".to_string(),
						ClosureReason::HTLCsTimedOut { .. } => "HTLCsTimedOut".to_string(),
						ClosureReason::OutdatedChannelManager => "OutdatedChannelManager".to_string(),
						ClosureReason::ProcessingError { err } => format!("ProcessingError:{}", err.replace(' ', "_")),
						other => format!("{:?}", other).split(|c: char| !c.is_alphanumeric()).next().unwrap_or("?").to_string(),
					};
					self.rec(
						"EVENT",
						format!("node={} name=ChannelClosed chan={} reason={}", NAMES[n], self.chan_name(channel_id), r),
					)
				},
				Event::SpendableOutputs { outputs, .. } => {
					let mut total = 0u64;
					for o in outputs {
						total += match o {
							SpendableOutputDescriptor::StaticOutput { output, .. } => output.value.to_sat(),
							SpendableOutputDescriptor::DelayedPaymentOutput(d) => d.output.value.to_sat(),
							SpendableOutputDescriptor::StaticPaymentOutput(d) => d.output.value.to_sat(),
						};
					}
					if n == B {
						self.swept_b += total;
					}
					self.rec("EVENT", format!("node={} name=SpendableOutputs sat={}", NAMES[n], total))
				},
				Event::BumpTransaction(_) => self.rec("EVENT", format!("node={} name=BumpTransaction", NAMES[n])),
				other => {
					let s = format!("{:?}", other);
					let name = s.split(|c: char| !c.is_alphanumeric()).next().unwrap_or("?").to_string();
					self.rec("EVENT", format!("node={} name={}", NAMES[n], name))
				},
			}
		}
		self.sync_inflight();
		self.after_action();
	}

	/// C acts on every payment that has been claimable for `c_delay` blocks
	fn c_act_due(&mut self) {
		let h = self.height();
		for k in 0..self.pays.len() {
			let due = match self.pays[k].claimable_at {
				Some(at) => !self.pays[k].c_acted && h >= at + self.c_delay,
				None => false,
			};
			if !due {
				continue;
			}
			self.pays[k].c_acted = true;
			let (hash, preimage) = (self.pays[k].hash, self.pays[k].preimage);
			match self.c_behav {
				CBehav::Claim => {
					self.rec("CACT", format!("what=claim pay={}", k));
					self.nodes[C].node.claim_funds(preimage);
				},
				CBehav::Fail => {
					self.rec("CACT", format!("what=fail pay={}", k));
					self.nodes[C].node.fail_htlc_backwards(&hash);
				},
				CBehav::Silent => {
					self.rec("CACT", format!("what=silent pay={}", k));
					self.c_silent = true;
					self.queues[C][B].clear();
					self.queues[B][C].clear();
				},
				CBehav::ClaimOnchainC | CBehav::ClaimOnchainB => {
					// C claims, but its messages never reach B: the link is cut first
					self.rec(
						"CACT",
						format!("what=claim_onchain pay={} closer={}", k, if self.c_behav == CBehav::ClaimOnchainC { "C" } else { "B" }),
					);
					self.disconnect(B, C);
					self.c_silent = true;
					self.nodes[C].node.claim_funds(preimage);
					if self.c_behav == CBehav::ClaimOnchainC {
						for id in self.downstream_chans() {
							let _ = self.nodes[C].node.force_close_broadcasting_latest_txn(&id, &self.ids[B], "going on chain".to_string());
						}
					} else {
						self.b_fc_pending = true;
					}
				},
			}
		}
		self.sync_inflight();
		self.after_action();
	}

	fn b_force_close_downstream(&mut self) {
		self.b_fc_pending = false;
		self.rec("BFC", "what=B_force_closes_downstream".to_string());
		for id in self.downstream_chans() {
			let _ = self.nodes[B].node.force_close_broadcasting_latest_txn(&id, &self.ids[C], "B closes".to_string());
		}
		self.sync_inflight();
		self.after_action();
	}

	/// several blocks in a row during which B's ChannelManager does not run: what its monitors saw is
	/// only drained afterwards
	fn mine_burst(&mut self, k: u32) {
		self.rec("BURST", format!("blocks={}", k));
		for _ in 0..k {
			self.mine_inner(false);
		}
		self.sync_inflight();
		self.after_action();
	}

	fn process_forwards(&mut self, n: usize) {
		self.nodes[n].node.process_pending_htlc_forwards();
		self.sync_inflight();
		self.after_action();
	}

	fn persist_manager(&mut self) {
		self.mgr_snapshot = self.nodes[B].node.encode();
		self.mgr_snapshot_step = self.trace.lock().unwrap().step;
		self.rec("MGRPERSIST", format!("bytes={}", self.mgr_snapshot.len()));
	}
}

// ------------------------------------------------------------------------------------------------
// restart of B from durable state
// ------------------------------------------------------------------------------------------------
fn reload_b<'a>(
	w: &mut World<'a>, rng: &mut Rng, node_cfgs: &'a Vec<NodeCfg<'a>>, scripted_latest: bool,
) -> bool {
	// B goes down: both peers see the disconnection
	w.disconnect(A, B);
	w.disconnect(B, C);
	// the node persists its manager whenever it is told to; at a crash the last written copy is what
	// exists. With probability 1/2 the crash falls right after such a write.
	if !scripted_latest && w.nodes[B].node.get_and_clear_needs_persistence() && rng.below(2) == 0 {
		w.persist_manager();
	}
	// choose, per monitor, a durable version: any snapshot at least as new as the newest one that was
	// reported complete
	let mut chosen: Vec<(ChannelId, Vec<u8>, usize, usize, u64)> = Vec::new();
	{
		let st = w.persister_b.st.lock().unwrap();
		let mut chans: Vec<&ChannelId> = st.snaps.keys().collect();
		chans.sort_by(|x, y| x.0.cmp(&y.0));
		for chan in chans {
			let snaps = &st.snaps[chan];
			let lo = snaps.iter().rposition(|s| s.complete).unwrap_or(0);
			let hi = snaps.len() - 1;
			let pick = match if scripted_latest { 0 } else { rng.below(10) } {
				0..=3 => hi,
				4..=6 => lo,
				_ => lo + rng.below((hi - lo + 1) as u64) as usize,
			};
			chosen.push((*chan, snaps[pick].bytes.clone(), pick, hi, snaps[pick].update_id));
		}
	}
	w.rec(
		"RELOAD",
		format!(
			"mgr_step={} {}",
			w.mgr_snapshot_step,
			chosen
				.iter()
				.map(|(c, _, pick, hi, id)| format!("mon{}={}/{}@{}", w.chan_name(c), pick, hi, id))
				.collect::<Vec<_>>()
				.join(" ")
		),
	);
	let cfg = &node_cfgs[B];
	let new_cm: &'a TestChainMonitor<'a> = Box::leak(Box::new(TestChainMonitor::new(
		Some(cfg.chain_source),
		cfg.tx_broadcaster,
		cfg.logger,
		cfg.fee_estimator,
		w.persister_b,
		cfg.keys_manager,
	)));
	let mut monitors = Vec::new();
	for (_, bytes, _, _, _) in chosen.iter() {
		let mut rd = &bytes[..];
		match <(BlockLocator, ChannelMonitor<TestChannelSigner>)>::read(
			&mut rd,
			(cfg.keys_manager, cfg.keys_manager),
		) {
			Ok((_, m)) => monitors.push(m),
			Err(e) => {
				w.rec("RELOADFAIL", format!("what=monitor err={:?}", e));
				return false;
			},
		}
	}
	// bring every monitor to the chain tip, as a node does at startup before it resumes
	let blocks: Vec<(bitcoin::Block, u32)> = w.nodes[B].blocks.lock().unwrap().clone();
	for m in monitors.iter() {
		let h0 = m.current_best_block().height;
		for (blk, h) in blocks.iter() {
			let txdata: Vec<_> = blk.txdata.iter().enumerate().collect();
			if *h == h0 && h0 > 0 {
				// the write may have fallen between best_block_updated and transactions_confirmed of
				// this very block: a restarting node re-checks the transactions of its tip
				m.transactions_confirmed(
					&blk.header,
					&txdata,
					*h,
					cfg.tx_broadcaster,
					cfg.fee_estimator,
					cfg.logger,
				);
			} else if *h > h0 {
				m.block_connected(&blk.header, &txdata, *h, cfg.tx_broadcaster, cfg.fee_estimator, cfg.logger);
			}
		}
	}
	let mgr_bytes = w.mgr_snapshot.clone();
	let mut rd = &mgr_bytes[..];
	let new_mgr = {
		let mut channel_monitors = HashMap::new();
		for m in monitors.iter() {
			channel_monitors.insert(m.channel_id(), m);
		}
		let mut hm = lightning::util::hash_tables::new_hash_map();
		for (k, v) in channel_monitors {
			hm.insert(k, v);
		}
		match <(BlockLocator, TestChannelManager<'a, 'a>)>::read(
			&mut rd,
			ChannelManagerReadArgs {
				config: w.user_cfg_b.clone(),
				entropy_source: cfg.keys_manager,
				node_signer: cfg.keys_manager,
				signer_provider: cfg.keys_manager,
				fee_estimator: cfg.fee_estimator,
				router: &cfg.router,
				message_router: &cfg.message_router,
				chain_monitor: new_cm,
				tx_broadcaster: cfg.tx_broadcaster,
				logger: cfg.logger,
				channel_monitors: hm,
			},
		) {
			Ok((_, m)) => m,
			Err(e) => {
				w.rec("RELOADFAIL", format!("what=manager err={:?}", e));
				return false;
			},
		}
	};
	let new_mgr: &'a TestChannelManager<'a, 'a> = Box::leak(Box::new(new_mgr));
	let mgr_h0 = new_mgr.current_best_block().height;
	{
		let mut st = w.persister_b.st.lock().unwrap();
		st.inflight.clear();
		st.u_preimage_pending = None;
		// what is on disk now is exactly the chosen version: later snapshots never landed
		for (chan, _, pick, _, _) in chosen.iter() {
			if let Some(s) = st.snaps.get_mut(chan) {
				s.truncate(pick + 1);
				if let Some(last) = s.last_mut() {
					last.complete = true;
				}
			}
		}
	}
	for m in monitors.drain(..) {
		let chan = m.channel_id();
		if new_cm.load_existing_monitor(chan, m) != Ok(ChannelMonitorUpdateStatus::Completed) {
			w.rec("RELOADFAIL", "what=load_existing_monitor".to_string());
			return false;
		}
	}
	new_cm.added_monitors.lock().unwrap().clear();
	w.nodes[B].chain_monitor = new_cm;
	w.nodes[B].node = new_mgr;
	w.nodes[B].onion_messenger.set_offers_handler(new_mgr);
	w.nodes[B].onion_messenger.set_async_payments_handler(new_mgr);
	w.reloads += 1;
	// the freshly loaded manager is what a later crash would find unless it is written again
	for (blk, h) in blocks.iter() {
		let txdata: Vec<_> = blk.txdata.iter().enumerate().collect();
		if *h == mgr_h0 && mgr_h0 > 0 {
			new_mgr.transactions_confirmed(&blk.header, &txdata, *h);
		} else if *h > mgr_h0 {
			new_mgr.transactions_confirmed(&blk.header, &txdata, *h);
			new_mgr.best_block_updated(&blk.header, *h);
		}
	}
	w.nodes[B].node.test_process_background_events();
	w.sync_inflight();
	w.after_action();
	true
}

// ------------------------------------------------------------------------------------------------
// one scenario
// ------------------------------------------------------------------------------------------------
fn run_scenario(seed: u64, index: u64, trace: TraceRef) {
	let mut rng = Rng(seed ^ index.wrapping_mul(0x9E3779B97F4A7C15) ^ 0xC02);
	for _ in 0..3 {
		rng.next();
	}
	let p = gen_params(&mut rng);
	run_with_params(p, rng, trace);
}

fn run_with_params(p: Params, mut rng: Rng, trace: TraceRef) {
	trace.lock().unwrap().rec("PARAMS", format!("{:?}", p).replace(' ', ""));

	let chanmon_cfgs: &'static Vec<TestChanMonCfg> = Box::leak(Box::new(create_chanmon_cfgs(3)));
	let persisters: &'static Vec<ScriptedPersister> = Box::leak(Box::new(vec![
		ScriptedPersister::new(false, 0, 0, trace.clone()),
		ScriptedPersister::new(true, rng.next(), p.p_async, trace.clone()),
		ScriptedPersister::new(false, 0, 0, trace.clone()),
	]));
	let node_cfgs: &'static Vec<NodeCfg<'static>> = Box::leak(Box::new(create_node_cfgs_with_persisters(
		3,
		chanmon_cfgs,
		persisters.iter().collect(),
	)));
	let mut cfg_b = test_legacy_channel_config();
	cfg_b.channel_config.forwarding_fee_proportional_millionths = p.prop;
	cfg_b.channel_config.forwarding_fee_base_msat = p.base;
	cfg_b.channel_config.cltv_expiry_delta = p.delta;
	cfg_b.channel_config.max_dust_htlc_exposure = MaxDustHTLCExposure::FixedLimitMsat(5_000_000);
	// the funders accept whatever exposure results: only B's limit is under test
	let mut legacy = test_legacy_channel_config();
	legacy.channel_config.max_dust_htlc_exposure = MaxDustHTLCExposure::FixedLimitMsat(1_000_000_000);
	let chanmgrs: &'static Vec<_> = Box::leak(Box::new(create_node_chanmgrs(
		3,
		node_cfgs,
		&[Some(legacy.clone()), Some(cfg_b.clone()), Some(legacy)],
	)));
	let nodes = create_network(3, node_cfgs, chanmgrs);
	for n in nodes.iter() {
		*n.connect_style.borrow_mut() = ConnectStyle::BestBlockFirst;
	}
	// A funds both A-B channels, C funds both C-B channels (B never pays a commitment fee)
	let need_u2 = p.payments.iter().any(|ps| ps.iter().any(|x| x.u == 1));
	let need_d2 = p.payments.iter().any(|ps| ps.iter().any(|x| x.d == 1));
	let mut chans: Vec<(ChannelId, &'static str)> = Vec::new();
	let mut scids: HashMap<&'static str, u64> = HashMap::new();
	let cu = create_announced_chan_between_nodes_with_value(&nodes, A, B, 1_000_000, 300_000_000);
	chans.push((cu.2, "U"));
	scids.insert("U", cu.0.contents.short_channel_id);
	if need_u2 {
		let c = create_announced_chan_between_nodes_with_value(&nodes, A, B, 1_000_000, 300_000_000);
		chans.push((c.2, "U2"));
		scids.insert("U2", c.0.contents.short_channel_id);
	}
	let cd = if p.b_funds_d {
		create_announced_chan_between_nodes_with_value(&nodes, B, C, 1_000_000, 400_000_000)
	} else {
		create_announced_chan_between_nodes_with_value(&nodes, C, B, 1_000_000, 600_000_000)
	};
	chans.push((cd.2, "D"));
	scids.insert("D", cd.0.contents.short_channel_id);
	if need_d2 {
		let c = create_announced_chan_between_nodes_with_value(&nodes, C, B, 1_000_000, 600_000_000);
		chans.push((c.2, "D2"));
		scids.insert("D2", c.0.contents.short_channel_id);
	}
	let ids = [nodes[A].node.get_our_node_id(), nodes[B].node.get_our_node_id(), nodes[C].node.get_our_node_id()];
	{
		let mut st = persisters[B].st.lock().unwrap();
		for (id, name) in chans.iter() {
			st.names.insert(*id, *name);
		}
	}
	let mut confirmed = HashSet::new();
	let mut known_outputs = HashMap::new();
	for n in nodes.iter() {
		for (blk, _) in n.blocks.lock().unwrap().iter() {
			for tx in blk.txdata.iter() {
				let txid = tx.compute_txid();
				confirmed.insert(txid);
				for (i, o) in tx.output.iter().enumerate() {
					known_outputs.insert(BOutPoint { txid, vout: i as u32 }, o.value.to_sat());
				}
			}
		}
	}
	for n in nodes.iter() {
		n.tx_broadcaster.clear();
	}

	// routes: one path per part over the chosen channels, B's fee computed on the part's amount
	let mut pays: Vec<Pay> = Vec::new();
	let mut sends = Vec::new();
	for parts in p.payments.iter() {
		let total: u64 = parts.iter().map(|x| x.amt_msat).sum();
		let (mut route, hash, preimage, secret) = get_route_and_payment_hash!(nodes[A], nodes[C], total);
		if route.paths.is_empty() || route.paths[0].hops.len() != 2 {
			continue;
		}
		let template = route.paths[0].clone();
		route.paths.clear();
		for part in parts.iter() {
			let mut path = template.clone();
			let un = if part.u == 1 && need_u2 { "U2" } else { "U" };
			let dn = if part.d == 1 && need_d2 { "D2" } else { "D" };
			path.hops[0].short_channel_id = scids[un];
			path.hops[1].short_channel_id = scids[dn];
			path.hops[1].fee_msat = part.amt_msat;
			path.hops[0].fee_msat = part.amt_msat * p.prop as u64 / 1_000_000 + p.base as u64;
			route.paths.push(path);
		}
		route.route_params.final_value_msat = total;
		pays.push(Pay { hash, preimage, claimable_at: None, c_acted: false, a_result: "none" });
		sends.push((route, hash, secret, total, parts.clone()));
	}

	let mut w = World {
		nodes,
		ids,
		trace: trace.clone(),
		persister_b: &persisters[B],
		queues: (0..3).map(|_| (0..3).map(|_| VecDeque::new()).collect()).collect(),
		connected: [[true; 3]; 3],
		chans,
		mempool: Vec::new(),
		seen_txids: HashSet::new(),
		confirmed,
		spent: HashSet::new(),
		dropped: HashSet::new(),
		known_outputs,
		c_silent: false,
		pays,
		c_behav: p.c_behav,
		c_delay: p.c_delay,
		b_fc_pending: false,
		swept_b: 0,
		mgr_snapshot: Vec::new(),
		mgr_snapshot_step: 0,
		reloads: 0,
		user_cfg_b: cfg_b.clone(),
		last_chst: HashMap::new(),
	};
	for n in 0..3 {
		let _ = w.nodes[n].node.get_and_clear_pending_msg_events();
		let _ = w.nodes[n].node.get_and_clear_pending_events();
	}
	{
		let chans = w.nodes[B].node.list_channels();
		for c in chans.iter() {
			let cc = c.config.unwrap();
			w.rec(
				"CHAN",
				format!(
					"name={} prop={} base={} delta={} max_dust={} dust_limit={} cp_dust_limit={} scid={} funding={}",
					w.chan_name(&c.channel_id),
					cc.forwarding_fee_proportional_millionths,
					cc.forwarding_fee_base_msat,
					cc.cltv_expiry_delta,
					match cc.max_dust_htlc_exposure {
						MaxDustHTLCExposure::FixedLimitMsat(x) => x,
						MaxDustHTLCExposure::FeeRateMultiplier(x) => x * 253,
					},
					354,
					354,
					c.short_channel_id.unwrap_or(0),
					c.funding_txo
						.map(|o| format!("{}:{}", short(&o.txid[..]), o.index))
						.unwrap_or_default()
				),
			);
		}
	}
	let bal0 = w.balance_b();
	w.rec("BAL0", format!("sat={} detail={}", bal0, w.balances_detail_b()));
	w.persist_manager();
	{
		let mut st = w.persister_b.st.lock().unwrap();
		st.force_sync = false;
		st.hashes = w.pays.iter().map(|x| x.hash).collect();
	}

	// the payments, all in flight together
	w.set_step(1);
	for (k, (route, hash, secret, total, parts)) in sends.into_iter().enumerate() {
		let onion = RecipientOnionFields::secret_only(secret, total);
		let sent = w.nodes[A].node.send_payment_with_route(route, hash, onion, PaymentId(hash.0));
		w.rec(
			"PAY",
			format!(
				"pay={} total={} hash={} ok={} parts={}",
				k,
				total,
				short(&hash.0),
				sent.is_ok(),
				parts
					.iter()
					.map(|x| format!("{}/{}/{}", x.amt_msat, if x.u == 1 { "U2" } else { "U" }, if x.d == 1 { "D2" } else { "D" }))
					.collect::<Vec<_>>()
					.join(",")
			),
		);
		if sent.is_err() {
			w.pays[k].a_result = "failed";
		}
		w.after_action();
	}

	// ---------------- random phase
	let mut ufc_done = p.u_closer == 0;
	let ufc_step = 5 + rng.below(p.steps.max(6) - 5);
	let mut bumps = p.fee_bumps.clone();
	let mut next_bump_step = 8 + rng.below(40);
	let all_done = |w: &World| w.pays.iter().all(|x| x.a_result != "none");
	for step in 2..(2 + p.steps) {
		w.set_step(step);
		if all_done(&w)
			&& w.pending_updates_b().is_empty()
			&& !(0..3).any(|x| (0..3).any(|y| !w.queues[x][y].is_empty()))
			&& rng.below(3) == 0
		{
			break;
		}
		if !ufc_done && step >= ufc_step {
			ufc_done = true;
			let name = if w.chans.iter().any(|(_, n)| *n == "U2") && rng.below(2) == 0 { "U2" } else { "U" };
			let id = w.chan_id(name);
			if p.u_closer == 1 {
				w.rec("UFC", format!("by=A chan={}", name));
				let _ = w.nodes[A].node.force_close_broadcasting_latest_txn(&id, &w.ids[B], "A closes".to_string());
			} else {
				w.rec("UFC", format!("by=B chan={}", name));
				let _ = w.nodes[B].node.force_close_broadcasting_latest_txn(&id, &w.ids[A], "B closes".to_string());
			}
			w.sync_inflight();
			w.after_action();
			continue;
		}
		let d_committed = w
			.nodes[B]
			.node
			.list_channels()
			.iter()
			.filter(|c| w.chan_name(&c.channel_id).starts_with('D'))
			.map(|c| {
				c.pending_outbound_htlcs
					.iter()
					.filter(|h| format!("{:?}", h.state).contains("Committed") && !format!("{:?}", h.state).contains("Await"))
					.count()
			})
			.sum::<usize>();
		if !bumps.is_empty()
			&& ((step >= 8 && d_committed >= p.payments.len()) || step >= 2 + p.steps * 3 / 4)
			&& step >= next_bump_step
		{
			let (who, feerate) = bumps.remove(0);
			next_bump_step = step + 10 + rng.below(60);
			w.rec("FEEBUMP", format!("node={} feerate={}", NAMES[who], feerate));
			*chanmon_cfgs[who].fee_estimator.sat_per_kw.lock().unwrap() = feerate;
			w.nodes[who].node.timer_tick_occurred();
			w.sync_inflight();
			w.after_action();
			continue;
		}
		if w.b_fc_pending && rng.below(4) == 0 {
			w.b_force_close_downstream();
			continue;
		}
		// enabled actions
		let mut acts: Vec<(u64, u8, usize, usize)> = Vec::new(); // (weight, kind, x, y)
		for x in 0..3 {
			for y in 0..3 {
				if !w.queues[x][y].is_empty() && w.connected[x][y] {
					acts.push((30, 0, x, y));
				}
			}
		}
		let pend = w.pending_updates_b();
		if !pend.is_empty() {
			acts.push((20, 1, 0, 0));
		}
		acts.push((12, 2, B, 0)); // forwards at B
		acts.push((6, 2, C, 0));
		acts.push((6, 3, A, 0));
		acts.push((10, 3, B, 0));
		acts.push((10, 3, C, 0));
		acts.push((2, 4, 0, 0)); // block
		acts.push((p.p_mgr_persist, 5, 0, 0));
		if p.p_disc > 0 {
			acts.push((p.p_disc, 6, A, B));
			acts.push((p.p_disc, 6, B, C));
		}
		if !w.connected[A][B] {
			acts.push((10, 7, A, B));
		}
		if !w.connected[B][C] && !w.c_silent {
			acts.push((10, 7, B, C));
		}
		if w.reloads < p.max_reloads && p.p_reload > 0 {
			acts.push((p.p_reload, 8, 0, 0));
		}
		if p.p_burst > 0 && !w.mempool.is_empty() {
			acts.push((p.p_burst * 4, 9, 0, 0));
		}
		let total: u64 = acts.iter().map(|a| a.0).sum();
		let mut r = rng.below(total);
		let mut pick = acts[0];
		for a in acts.iter() {
			if r < a.0 {
				pick = *a;
				break;
			}
			r -= a.0;
		}
		match pick.1 {
			0 => w.deliver(pick.2, pick.3),
			1 => {
				let k = rng.below(pend.len() as u64) as usize;
				let (chan, id) = pend[k];
				w.complete_update(chan, id);
				w.after_action();
			},
			2 => w.process_forwards(pick.2),
			3 => {
				w.process_events(pick.2);
				if pick.2 == C {
					w.c_act_due();
				}
			},
			4 => {
				w.mine();
				w.c_act_due();
			},
			5 => w.persist_manager(),
			6 => w.disconnect(pick.2, pick.3),
			7 => w.reconnect(pick.2, pick.3),
			9 => {
				let k = 1 + rng.below(3) as u32;
				w.mine_burst(k);
			},
			_ => {
				if !reload_b(&mut w, &mut rng, node_cfgs, false) {
					w.rec("END", "reload_failed=1".to_string());
					std::mem::forget(w);
					return;
				}
			},
		}
	}

	// ---------------- drain: everything that can still happen does happen
	w.persister_b.st.lock().unwrap().force_sync = true;
	let mut step = 2 + p.steps;
	let mut quiet_rounds = 0;
	let mut blocks_mined = 0u32;
	for _round in 0..2000 {
		step += 1;
		w.set_step(step);
		if w.b_fc_pending {
			w.b_force_close_downstream();
		}
		w.reconnect(A, B);
		w.reconnect(B, C);
		for (chan, id) in w.pending_updates_b() {
			w.complete_update(chan, id);
		}
		w.after_action();
		for _ in 0..200 {
			let mut any = false;
			for x in 0..3 {
				for y in 0..3 {
					while !w.queues[x][y].is_empty() && w.connected[x][y] {
						w.deliver(x, y);
						any = true;
					}
				}
			}
			for n in 0..3 {
				if !(n == C && w.c_silent && w.c_behav == CBehav::Silent) {
					w.process_forwards(n);
					w.process_events(n);
				}
			}
			if !(w.c_silent && w.c_behav == CBehav::Silent) {
				w.c_act_due();
			}
			for (chan, id) in w.pending_updates_b() {
				w.complete_update(chan, id);
				any = true;
			}
			w.after_action();
			let queued = (0..3).any(|x| (0..3).any(|y| !w.queues[x][y].is_empty() && w.connected[x][y]));
			if !any && !queued {
				break;
			}
		}
		let unsettled = w.unsettled_b() || !w.mempool.is_empty();
		let a_open = !all_done(&w);
		if !unsettled && !a_open {
			quiet_rounds += 1;
			if quiet_rounds >= 2 {
				break;
			}
		} else {
			quiet_rounds = 0;
		}
		if blocks_mined > 900 {
			w.rec("STUCK", format!("unsettled={} a_open={}", unsettled, a_open));
			break;
		}
		w.mine();
		blocks_mined += 1;
	}
	for _ in 0..8 {
		step += 1;
		w.set_step(step);
		w.mine();
		for n in 0..3 {
			w.process_events(n);
		}
	}
	let bal1 = w.balance_b();
	let chans_b: Vec<String> = w
		.nodes[B]
		.node
		.list_channels()
		.iter()
		.map(|c| format!("{}:{}", w.chan_name(&c.channel_id), c.pending_outbound_htlcs.len() + c.pending_inbound_htlcs.len()))
		.collect();
	w.rec(
		"END",
		format!(
			"bal={} swept={} detail={} a_results={} height={} reloads={} open={} mempool={}",
			bal1,
			w.swept_b,
			w.balances_detail_b(),
			w.pays.iter().map(|x| x.a_result).collect::<Vec<_>>().join(","),
			w.height(),
			w.reloads,
			chans_b.join(","),
			w.mempool.len()
		),
	);
	std::mem::forget(w);
}

// ------------------------------------------------------------------------------------------------
// scripted cases: preimage learned late relative to the close of a (possibly spliced) upstream channel
// ------------------------------------------------------------------------------------------------
/// A -> B -> C with an HTLC pending through B; the A - B channel is optionally spliced (`splice` 0 no,
/// 1 splice transaction confirmed but not yet locked); A force-closes it; C claims and B learns
/// the preimage by message `timing` 0 before A's close, 1 right after A's commitment confirmed, 2 six
/// blocks later. Recorded: how many transactions B broadcast that spend A's commitment with the preimage.
fn splice_case(splice: u8, timing: u8, trace: TraceRef) {
	use bitcoin::Amount;
	use lightning::ln::splicing_tests::{do_initiate_splice_in, splice_channel};
	let chanmon_cfgs = create_chanmon_cfgs(3);
	let node_cfgs = create_node_cfgs(3, &chanmon_cfgs);
	let node_chanmgrs = create_node_chanmgrs(3, &node_cfgs, &[None, None, None]);
	let nodes = create_network(3, &node_cfgs, &node_chanmgrs);
	for n in nodes.iter() {
		*n.connect_style.borrow_mut() = ConnectStyle::BestBlockFirst;
	}
	let node_id_b = nodes[1].node.get_our_node_id();
	let node_id_c = nodes[2].node.get_our_node_id();
	let cap = 100_000;
	let (_, _, chan_id_ab, _) = create_announced_chan_between_nodes_with_value(&nodes, 0, 1, cap, 0);
	create_announced_chan_between_nodes_with_value(&nodes, 1, 2, cap, 0);
	let _coinbase_tx = provide_utxo_reserves(&nodes, 1, Amount::ONE_BTC);
	let payment_amount = 1_000_000;
	let (preimage, _payment_hash, ..) = route_payment(&nodes[0], &[&nodes[1], &nodes[2]], payment_amount);

	if splice >= 1 {
		let contribution = do_initiate_splice_in(&nodes[0], &nodes[1], chan_id_ab, Amount::from_sat(cap / 2));
		let (splice_tx, _) = splice_channel(&nodes[0], &nodes[1], chan_id_ab, contribution);
		mine_transaction(&nodes[0], &splice_tx);
		mine_transaction(&nodes[1], &splice_tx);
	}
	let learn = |nodes: &Vec<Node>| {
		nodes[2].node.claim_funds(preimage);
		let _ = nodes[2].node.get_and_clear_pending_events();
		nodes[2].chain_monitor.added_monitors.lock().unwrap().clear();
		let mut cs_updates = get_htlc_update_msgs(&nodes[2], &node_id_b);
		nodes[1].node.handle_update_fulfill_htlc(node_id_c, cs_updates.update_fulfill_htlcs.remove(0));
		nodes[1].chain_monitor.added_monitors.lock().unwrap().clear();
		let _ = nodes[1].node.get_and_clear_pending_events();
		// whatever B wants to tell A stays undelivered: A is about to go (or has gone) on chain
		let _ = nodes[1].node.get_and_clear_pending_msg_events();
		nodes[1].chain_monitor.added_monitors.lock().unwrap().clear();
		do_commitment_signed_dance(&nodes[1], &nodes[2], &cs_updates.commitment_signed, false, false);
		// whatever B wants to tell A stays undelivered: A is about to go (or has gone) on chain
		let _ = nodes[1].node.get_and_clear_pending_msg_events();
		nodes[1].chain_monitor.added_monitors.lock().unwrap().clear();
	};
	if timing == 0 {
		learn(&nodes);
	}
	nodes[0].node.force_close_broadcasting_latest_txn(&chan_id_ab, &node_id_b, "test".to_owned()).unwrap();
	handle_bump_events(&nodes[0], true, 0);
	let commitment_tx = {
		let mut txn = nodes[0].tx_broadcaster.txn_broadcast();
		txn.remove(0)
	};
	let _ = nodes[1].tx_broadcaster.txn_broadcast();
	mine_transaction(&nodes[0], &commitment_tx);
	mine_transaction(&nodes[1], &commitment_tx);
	let _ = nodes[0].node.get_and_clear_pending_events();
	let _ = nodes[1].node.get_and_clear_pending_events();
	let _ = nodes[0].node.get_and_clear_pending_msg_events();
	let _ = nodes[1].node.get_and_clear_pending_msg_events();
	nodes[0].chain_monitor.added_monitors.lock().unwrap().clear();
	nodes[1].chain_monitor.added_monitors.lock().unwrap().clear();
	if timing == 2 {
		connect_blocks(&nodes[1], ANTI_REORG_DELAY);
		connect_blocks(&nodes[0], ANTI_REORG_DELAY);
	}
	if timing >= 1 {
		learn(&nodes);
	}
	connect_blocks(&nodes[1], 1);
	let bs_txn = nodes[1].tx_broadcaster.txn_broadcast();
	let commitment_txid = commitment_tx.compute_txid();
	let claims = bs_txn
		.iter()
		.filter(|tx| {
			tx.input.iter().any(|inp| {
				inp.previous_output.txid == commitment_txid && inp.witness.iter().any(|elem| elem == &preimage.0[..])
			})
		})
		.count();
	let has_htlc_output = commitment_tx.output.iter().any(|o| o.value.to_sat() == payment_amount / 1000 + 1 || o.value.to_sat() == (payment_amount + 1000) / 1000 || o.value.to_sat() == 1001 || o.value.to_sat() == 1000);
	trace.lock().unwrap().rec(
		"SPLICE",
		format!(
			"splice={} timing={} claims={} commitment_outputs={} htlc_output={}",
			splice,
			timing,
			claims,
			commitment_tx.output.iter().map(|o| o.value.to_sat().to_string()).collect::<Vec<_>>().join("/"),
			has_htlc_output
		),
	);
	std::mem::forget(nodes);
}

// ------------------------------------------------------------------------------------------------
// scripted cases: forwards to SCIDs without a channel (interception) with sender-crafted onions
// ------------------------------------------------------------------------------------------------
/// `kind` 0: onion names an intercept SCID (flag ToInterceptSCIDs), 1: an unknown SCID (flag
/// ToUnknownSCIDs), 2: the real B-C channel with flag ToPublicChannels (the channel's policy applies
/// before the interception). The onion asks B to forward `inbound + amt_skew` msat with
/// `outgoing_cltv = inbound_cltv - (B's delta) + cltv_skew`. The harness's user forwards exactly
/// `expected_outbound_amount_msat`. Recorded: what B received, what it offered downstream (if it did).
fn intercept_case(kind: u8, amt_skew: i64, cltv_skew: i64, trace: TraceRef) {
	use bitcoin::secp256k1::{Secp256k1, SecretKey};
	use lightning::ln::onion_utils::create_payment_onion;
	use lightning::util::config::HTLCInterceptionFlags;
	let chanmon_cfgs = create_chanmon_cfgs(3);
	let node_cfgs = create_node_cfgs(3, &chanmon_cfgs);
	let mut cfg_b = test_legacy_channel_config();
	cfg_b.htlc_interception_flags = match kind {
		0 => HTLCInterceptionFlags::ToInterceptSCIDs as u8,
		1 => HTLCInterceptionFlags::ToUnknownSCIDs as u8,
		2 => HTLCInterceptionFlags::ToPublicChannels as u8,
		3 => HTLCInterceptionFlags::ToOnlinePrivateChannels as u8,
		_ => HTLCInterceptionFlags::ToOfflinePrivateChannels as u8,
	};
	cfg_b.accept_forwards_to_priv_channels = true;
	cfg_b.channel_config.forwarding_fee_base_msat = 1000;
	cfg_b.channel_config.forwarding_fee_proportional_millionths = 0;
	cfg_b.channel_config.cltv_expiry_delta = 72;
	let legacy = test_legacy_channel_config();
	let node_chanmgrs = create_node_chanmgrs(3, &node_cfgs, &[Some(legacy.clone()), Some(cfg_b), Some(legacy)]);
	let nodes = create_network(3, &node_cfgs, &node_chanmgrs);
	for n in nodes.iter() {
		*n.connect_style.borrow_mut() = ConnectStyle::BestBlockFirst;
	}
	let node_a_id = nodes[0].node.get_our_node_id();
	let node_c_id = nodes[2].node.get_our_node_id();
	create_announced_chan_between_nodes(&nodes, 0, 1);
	let chan_bc = create_announced_chan_between_nodes_with_value(&nodes, 1, 2, 1_000_000, 0);
	let (mut fwd_chan_id, mut fwd_scid) = (chan_bc.2, chan_bc.0.contents.short_channel_id);
	if kind >= 3 {
		// a second, unannounced B - C channel; the onion names it
		let _ = create_unannounced_chan_between_nodes_with_value(&nodes, 1, 2, 1_000_000, 0);
		for c in nodes[1].node.list_channels() {
			if c.counterparty.node_id == node_c_id && c.channel_id != chan_bc.2 {
				fwd_chan_id = c.channel_id;
				fwd_scid = c.short_channel_id.or(c.outbound_scid_alias).unwrap();
			}
		}
	}
	let amt_msat = 1_000_000u64;
	let (mut route, payment_hash, _preimage, payment_secret) = get_route_and_payment_hash!(nodes[0], nodes[2], amt_msat);
	let scid = match kind {
		0 => nodes[1].node.get_intercept_scid(),
		1 => 0x0007_0000_0700_0007u64,
		_ => fwd_scid,
	};
	if kind == 4 {
		nodes[1].node.peer_disconnected(node_c_id);
		nodes[2].node.peer_disconnected(nodes[1].node.get_our_node_id());
	}
	route.paths[0].hops[1].short_channel_id = scid;
	let onion = RecipientOnionFields::secret_only(payment_secret, amt_msat);
	nodes[0].node.send_payment_with_route(route.clone(), payment_hash, onion, PaymentId(payment_hash.0)).unwrap();
	nodes[0].chain_monitor.added_monitors.lock().unwrap().clear();
	let mut payment_event = SendEvent::from_node(&nodes[0]);
	let in_amt = payment_event.msgs[0].amount_msat;
	let in_cltv = payment_event.msgs[0].cltv_expiry;
	// the sender's own onion: what it asks B to forward
	let onion_amt = (in_amt as i64 + amt_skew).max(1) as u64;
	let cur_height = nodes[0].best_block_info().1 + 1;
	let mut bogus = route.paths[0].clone();
	bogus.hops[1].fee_msat = onion_amt;
	// in_cltv = cur_height + final_delta + B's delta; the onion's outgoing value is cur_height + final_delta
	bogus.hops[1].cltv_expiry_delta = (bogus.hops[1].cltv_expiry_delta as i64 + cltv_skew).max(0) as u32;
	let session_priv = SecretKey::from_slice(&[3; 32]).unwrap();
	let fields = RecipientOnionFields::secret_only(payment_secret, onion_amt);
	let (packet, _, _) =
		create_payment_onion(&Secp256k1::new(), &bogus, &session_priv, &fields, cur_height, &payment_hash, &None, None, [0; 32]).unwrap();
	let onion_cltv = cur_height + bogus.hops[1].cltv_expiry_delta;
	payment_event.msgs[0].onion_routing_packet = packet;
	nodes[1].node.handle_update_add_htlc(node_a_id, &payment_event.msgs[0]);
	do_commitment_signed_dance(&nodes[1], &nodes[0], &payment_event.commitment_msg, false, true);
	nodes[1].node.process_pending_htlc_forwards();
	let mut intercepted = 0;
	let mut expected_out = 0u64;
	let mut failed = 0;
	for ev in nodes[1].node.get_and_clear_pending_events() {
		match ev {
			Event::HTLCIntercepted { intercept_id, expected_outbound_amount_msat, .. } => {
				intercepted = 1;
				expected_out = expected_outbound_amount_msat;
				// what an LSP does: forward the amount the node said it expects to forward
				let _ = nodes[1].node.forward_intercepted_htlc(intercept_id, &fwd_chan_id, node_c_id, expected_outbound_amount_msat);
			},
			Event::HTLCHandlingFailed { .. } => failed = 1,
			_ => {},
		}
	}
	nodes[1].node.process_pending_htlc_forwards();
	nodes[1].node.process_pending_htlc_forwards();
	for ev in nodes[1].node.get_and_clear_pending_events() {
		if let Event::HTLCHandlingFailed { .. } = ev {
			failed = 1;
		}
	}
	let (mut out_amt, mut out_cltv, mut forwarded) = (0u64, 0u32, 0);
	for ev in nodes[1].node.get_and_clear_pending_msg_events() {
		if let MessageSendEvent::UpdateHTLCs { node_id, updates, .. } = ev {
			if node_id == node_c_id {
				for add in updates.update_add_htlcs.iter() {
					forwarded = 1;
					out_amt = add.amount_msat;
					out_cltv = add.cltv_expiry;
				}
			} else if !updates.update_fail_htlcs.is_empty() || !updates.update_fail_malformed_htlcs.is_empty() {
				failed = 1;
			}
		}
	}
	trace.lock().unwrap().rec(
		"ICPT",
		format!(
			"kind={} height={} amt_skew={} cltv_skew={} in_amt={} in_cltv={} onion_amt={} onion_cltv={} intercepted={} expected_out={} forwarded={} out_amt={} out_cltv={} failed={} base=1000 prop=0 delta=72",
			kind, nodes[1].best_block_info().1 + 1, amt_skew, cltv_skew, in_amt, in_cltv, onion_amt, onion_cltv, intercepted, expected_out, forwarded, out_amt, out_cltv, failed
		),
	);
	std::mem::forget(nodes);
}

fn scripted<F: FnOnce(TraceRef) + std::panic::UnwindSafe>(idx: u64, tag: String, out: &mut std::fs::File, f: F) {
	let trace: TraceRef = Arc::new(Mutex::new(Trace { scen: idx, step: 0, lines: Vec::new() }));
	let t2 = trace.clone();
	let res = panic::catch_unwind(move || f(t2));
	let mut tr = match trace.lock() {
		Ok(g) => g,
		Err(p) => p.into_inner(),
	};
	if res.is_err() {
		let msg = LAST_PANIC.with(|m| m.borrow().clone());
		tr.rec("PANIC", format!("{} msg={}", tag, msg.replace('\n', " ").replace(' ', "_")));
	}
	for l in tr.lines.iter() {
		writeln!(out, "{}", l).unwrap();
	}
	out.flush().unwrap();
}

fn run_intercept_cases(out: &mut std::fs::File) {
	let mut idx = 0u64;
	for kind in 0..5u8 {
		for amt_skew in [-2000i64, -1001, -1000, -999, -1, 0, 1, 1000, 49_000_000] {
			for cltv_skew in [0i64, 24, 25, 40] {
				if cltv_skew != 0 && !(amt_skew == -1000 || amt_skew == 0) {
					continue;
				}
				scripted(idx, format!("kind={} amt_skew={} cltv_skew={}", kind, amt_skew, cltv_skew), out, move |t| {
					intercept_case(kind, amt_skew, cltv_skew, t)
				});
				idx += 1;
			}
		}
	}
}

// ------------------------------------------------------------------------------------------------
// scripted cases: which commitment of the DOWNSTREAM channel confirms x is the HTLC dust there x
// restart of B at a confirmation depth
// ------------------------------------------------------------------------------------------------
/// A -> B -> C, HTLC of `amt_msat` pending, C never claims. `which` 0: B force-closes (its current
/// commitment confirms); 1: C fails the HTLC (update_fail_htlc + commitment_signed reach B, B's answers
/// never reach C) and B's PREVIOUS commitment - the one carrying the HTLC, signed before that update -
/// confirms; 2: C's commitment confirms. `restart_depth` >= 0: B restarts when the closing transaction
/// has that many blocks on top, from the current monitors and (`stale_mgr`) the manager written before
/// the close or the manager as of now. Recorded: outputs of the confirmed transaction and the depth at
/// which B released update_fail_htlc to A (if it did within ANTI_REORG_DELAY + 3 blocks).
fn onchain_case(feerate: u32, amt_msat: u64, which: u8, restart_depth: i32, stale_mgr: bool, trace: TraceRef) {
	let chanmon_cfgs: &'static Vec<TestChanMonCfg> = Box::leak(Box::new(create_chanmon_cfgs(3)));
	for c in chanmon_cfgs.iter() {
		*c.fee_estimator.sat_per_kw.lock().unwrap() = feerate;
	}
	let node_cfgs: &'static Vec<NodeCfg<'static>> = Box::leak(Box::new(create_node_cfgs(3, chanmon_cfgs)));
	let legacy = test_legacy_channel_config();
	let node_chanmgrs: &'static Vec<_> = Box::leak(Box::new(create_node_chanmgrs(
		3,
		node_cfgs,
		&[Some(legacy.clone()), Some(legacy.clone()), Some(legacy.clone())],
	)));
	let mut nodes = create_network(3, node_cfgs, node_chanmgrs);
	for n in nodes.iter() {
		*n.connect_style.borrow_mut() = ConnectStyle::BestBlockFirst;
	}
	let node_a_id = nodes[0].node.get_our_node_id();
	let node_b_id = nodes[1].node.get_our_node_id();
	let node_c_id = nodes[2].node.get_our_node_id();
	let chan_ab = create_announced_chan_between_nodes(&nodes, 0, 1).2;
	let chan_bc = create_announced_chan_between_nodes(&nodes, 1, 2).2;
	let (_preimage, payment_hash, ..) = route_payment(&nodes[0], &[&nodes[1], &nodes[2]], amt_msat);
	let mgr_before = nodes[1].node.encode();
	let bs_with_htlc = get_local_commitment_txn!(nodes[1], chan_bc);
	let closing_tx = match which {
		0 => {
			let _ = nodes[1].node.force_close_broadcasting_latest_txn(&chan_bc, &node_c_id, "close".to_string());
			nodes[1].tx_broadcaster.txn_broadcast().remove(0)
		},
		1 => {
			nodes[2].node.fail_htlc_backwards(&payment_hash);
			nodes[2].node.process_pending_htlc_forwards();
			let _ = nodes[2].node.get_and_clear_pending_events();
			nodes[2].chain_monitor.added_monitors.lock().unwrap().clear();
			let cs_fail = get_htlc_update_msgs(&nodes[2], &node_b_id);
			nodes[1].node.handle_update_fail_htlc(node_c_id, &cs_fail.update_fail_htlcs[0]);
			nodes[1].node.handle_commitment_signed_batch_test(node_c_id, &cs_fail.commitment_signed);
			// B's revoke_and_ack / commitment_signed never reach C
			let _ = nodes[1].node.get_and_clear_pending_msg_events();
			bs_with_htlc[0].clone()
		},
		_ => get_local_commitment_txn!(nodes[2], chan_bc)[0].clone(),
	};
	nodes[1].chain_monitor.added_monitors.lock().unwrap().clear();
	let outs: Vec<u64> = closing_tx.output.iter().map(|o| o.value.to_sat()).collect();
	let htlc_output = outs.iter().any(|v| *v == amt_msat / 1000);
	mine_transaction(&nodes[1], &closing_tx);
	let mut failed_at: i32 = -1;
	let mut restarted = false;
	for depth in 0..(ANTI_REORG_DELAY as i32 + 4) {
		if depth == restart_depth && !restarted {
			restarted = true;
			nodes[0].node.peer_disconnected(node_b_id);
			nodes[2].node.peer_disconnected(node_b_id);
			let mgr = if stale_mgr { mgr_before.clone() } else { nodes[1].node.encode() };
			let mon_ab = get_monitor!(nodes[1], chan_ab).encode();
			let mon_bc = get_monitor!(nodes[1], chan_bc).encode();
			let persister: &'static lightning::util::test_utils::TestPersister =
				Box::leak(Box::new(lightning::util::test_utils::TestPersister::new()));
			let new_cm: &'static TestChainMonitor<'static> = Box::leak(Box::new(TestChainMonitor::new(
				Some(nodes[1].chain_source),
				nodes[1].tx_broadcaster,
				nodes[1].logger,
				nodes[1].fee_estimator,
				persister,
				nodes[1].keys_manager,
			)));
			nodes[1].chain_monitor = new_cm;
			let node_ref: &'static Node<'static, 'static, 'static> = unsafe { &*(&nodes[1] as *const Node<'static, 'static, 'static>) };
			let new_mgr: &'static TestChannelManager<'static, 'static> =
				Box::leak(Box::new(_reload_node(node_ref, legacy.clone(), &mgr, &[&mon_ab, &mon_bc], None)));
			nodes[1].node = new_mgr;
			nodes[1].onion_messenger.set_offers_handler(new_mgr);
			nodes[1].onion_messenger.set_async_payments_handler(new_mgr);
			nodes[1].chain_monitor.added_monitors.lock().unwrap().clear();
			connect_nodes(&nodes[0], &nodes[1]);
		}
		// let B and A talk until quiet; note when B releases a failure for the upstream HTLC
		for _ in 0..12 {
			nodes[1].node.process_pending_htlc_forwards();
			let _ = nodes[1].node.get_and_clear_pending_events();
			let mut any = false;
			for ev in nodes[1].node.get_and_clear_pending_msg_events() {
				any = true;
				match ev {
					MessageSendEvent::UpdateHTLCs { node_id, updates, .. } if node_id == node_a_id => {
						if (!updates.update_fail_htlcs.is_empty() || !updates.update_fail_malformed_htlcs.is_empty()) && failed_at < 0 {
							failed_at = depth;
						}
					},
					MessageSendEvent::SendChannelReestablish { node_id, msg } if node_id == node_a_id => {
						nodes[0].node.handle_channel_reestablish(node_b_id, &msg);
					},
					_ => {},
				}
			}
			for ev in nodes[0].node.get_and_clear_pending_msg_events() {
				any = true;
				if let MessageSendEvent::SendChannelReestablish { node_id, msg } = ev {
					if node_id == node_b_id {
						nodes[1].node.handle_channel_reestablish(node_a_id, &msg);
					}
				}
			}
			nodes[0].chain_monitor.added_monitors.lock().unwrap().clear();
			nodes[1].chain_monitor.added_monitors.lock().unwrap().clear();
			if !any {
				break;
			}
		}
		if failed_at >= 0 {
			break;
		}
		connect_blocks(&nodes[1], 1);
	}
	trace.lock().unwrap().rec(
		"ONCH",
		format!(
			"feerate={} amt={} which={} restart_depth={} stale_mgr={} outs={} htlc_output={} failed_at_depth={}",
			feerate,
			amt_msat,
			which,
			restart_depth,
			stale_mgr,
			outs.iter().map(|v| v.to_string()).collect::<Vec<_>>().join("/"),
			htlc_output,
			failed_at
		),
	);
	std::mem::forget(nodes);
}

fn run_onchain_cases(out: &mut std::fs::File, shard: u64, nshards: u64) {
	let mut idx = 0u64;
	// On a non-anchor channel an HTLC B offers is trimmed below dust_limit + feerate*663/1000 sat on B's
	// own commitment (HTLC-timeout) and below dust_limit + feerate*703/1000 sat on C's (HTLC-success):
	// amounts below both, between the two (an output on exactly ONE side), and above both.
	// (With anchors the second-stage fee is zero and the two thresholds coincide.)
	for feerate in [253u32, 1000] {
		let lo = 354 + feerate as u64 * 663 / 1000;
		let hi = 354 + feerate as u64 * 703 / 1000;
		for amt in [300_000u64, lo * 1000 - 1, lo * 1000, (lo + hi) * 500, hi * 1000 - 1, hi * 1000, hi * 1000 + 600_000] {
			for which in 0..3u8 {
				for restart in [-1i32, 0, 1, 2, 3, 4, 5, 6, 7, 8] {
					for stale in [false, true] {
						if restart < 0 && stale {
							continue;
						}
						if feerate != 253 && !(restart == -1 || restart == 5 || restart == 6) {
							continue;
						}
						if idx % nshards == shard {
							scripted(
								idx,
								format!("feerate={} amt={} which={} restart={} stale={}", feerate, amt, which, restart, stale),
								out,
								move |t| onchain_case(feerate, amt, which, restart, stale, t),
							);
						}
						idx += 1;
					}
				}
			}
		}
	}
}

fn run_splice_cases(out: &mut std::fs::File) {
	let mut idx = 0u64;
	for splice in 0..2u8 {
		for timing in 0..3u8 {
			let trace: TraceRef = Arc::new(Mutex::new(Trace { scen: idx, step: 0, lines: Vec::new() }));
			let t2 = trace.clone();
			let res = panic::catch_unwind(AssertUnwindSafe(|| splice_case(splice, timing, t2)));
			let mut tr = match trace.lock() {
				Ok(g) => g,
				Err(p) => p.into_inner(),
			};
			if res.is_err() {
				let msg = LAST_PANIC.with(|m| m.borrow().clone());
				tr.rec("PANIC", format!("splice={} timing={} msg={}", splice, timing, msg.replace('\n', " ").replace(' ', "_")));
			}
			for l in tr.lines.iter() {
				writeln!(out, "{}", l).unwrap();
			}
			idx += 1;
		}
	}
	out.flush().unwrap();
}

thread_local! {
	static LAST_PANIC: std::cell::RefCell<String> = std::cell::RefCell::new(String::new());
}

fn run_one(seed: u64, index: u64, out: &mut std::fs::File) {
	let trace: TraceRef = Arc::new(Mutex::new(Trace { scen: index, step: 0, lines: Vec::new() }));
	let t2 = trace.clone();
	let res = panic::catch_unwind(AssertUnwindSafe(|| run_scenario(seed, index, t2)));
	if res.is_err() {
		let msg = LAST_PANIC.with(|m| m.borrow().clone());
		// the trace mutex may be poisoned if the panic happened while recording
		let mut tr = match trace.lock() {
			Ok(g) => g,
			Err(p) => p.into_inner(),
		};
		tr.rec("PANIC", format!("msg={}", msg.replace('\n', " ").replace(' ', "_")));
	}
	let tr = match trace.lock() {
		Ok(g) => g,
		Err(p) => p.into_inner(),
	};
	for l in tr.lines.iter() {
		writeln!(out, "{}", l).unwrap();
	}
	writeln!(out, "T {} 0 DONE -", index).unwrap();
	out.flush().unwrap();
}

fn main() {
	let args: Vec<String> = std::env::args().collect();
	panic::set_hook(Box::new(|info| {
		let loc = info.location().map(|l| format!("{}:{}", l.file(), l.line())).unwrap_or_default();
		let msg = if let Some(s) = info.payload().downcast_ref::<&str>() {
			s.to_string()
		} else if let Some(s) = info.payload().downcast_ref::<String>() {
			s.clone()
		} else {
			"?".to_string()
		};
		LAST_PANIC.with(|m| *m.borrow_mut() = format!("{} at {}", msg, loc));
	}));
	if args.len() < 5 {
		eprintln!("usage: h_fwdm run <seed> <first> <count> <outfile> | h_fwdm one <seed> <index> <outfile>");
		std::process::exit(2);
	}
	let seed: u64 = args[2].parse().unwrap();
	match args[1].as_str() {
		"run" => {
			let first: u64 = args[3].parse().unwrap();
			let count: u64 = args[4].parse().unwrap();
			let mut out = std::fs::File::create(&args[5]).unwrap();
			for i in first..first + count {
				run_one(seed, i, &mut out);
			}
		},
		"intercept" => {
			let mut out = std::fs::File::create(&args[4]).unwrap();
			run_intercept_cases(&mut out);
		},
		"onchain" => {
			// h_fwdm onchain <shard> <nshards> <outfile>
			let nshards: u64 = args[3].parse().unwrap();
			let mut out = std::fs::File::create(&args[4]).unwrap();
			run_onchain_cases(&mut out, seed, nshards);
		},
		"splice" => {
			// h_fwdm splice <ignored> <ignored> <outfile>
			let mut out = std::fs::File::create(&args[4]).unwrap();
			run_splice_cases(&mut out);
		},
		_ => {
			let index: u64 = args[3].parse().unwrap();
			let mut out = std::fs::File::create(&args[4]).unwrap();
			run_one(seed, index, &mut out);
		},
	}
}
