//! C01 functional correspondence, amount layer: the real `SpecTxBuilder::build_commitment_transaction`
//! (+ `CommitmentTransaction::new` output construction), fee functions, `is_dust`,
//! `get_next_commitment_stats`, `get_available_balances`, called by value through
//! `lightning::sign::tx_builder::verif_hooks_c01`.
//!
//! Case lines (ct: 0 = static_remote_key, 1 = anchors_zero_fee_htlc_tx, 2 = zero_fee_commitments):
//!   fee  <ct> <feerate> <n> <n_accepted> <n_offered>
//!   dust <ct> <outbound> <amount_msat> <local> <feerate> <dust_limit>
//!   bc   <ct> <local> <holder_is_funder> <value_sat> <value_to_self_msat> <feerate> <dust_limit> <n> (<outbound> <amount_msat>)*n
//!   ncs  <ct> <local> <holder_is_funder> <value_sat> <value_to_holder_msat> <addl> <feerate> <spike> <limiting_feerate|-1> <dust_limit> <n> (<outbound> <amount_msat>)*n
//!   ab   <ct> <holder_is_funder> <value_sat> <value_to_holder_msat> <feerate> <limiting_feerate|-1> <max_dust_exposure_msat> <c0..c6> <n> (<outbound> <amount_msat>)*n
use bitcoin::hashes::Hash;
use bitcoin::secp256k1::{PublicKey, Secp256k1, SecretKey};
use bitcoin::Txid;
use lightning::chain::transaction::OutPoint;
use lightning::ln::chan_utils::{
	ChannelPublicKeys, ChannelTransactionParameters, CounterpartyChannelTransactionParameters,
	HTLCOutputInCommitment,
};
use lightning::sign::tx_builder::verif_hooks_c01 as vh;
use lightning::types::features::ChannelTypeFeatures;
use lightning::types::payment::PaymentHash;
use verif_harness::*;

fn ct_of(i: i128) -> ChannelTypeFeatures {
	match i {
		0 => ChannelTypeFeatures::only_static_remote_key(),
		1 => ChannelTypeFeatures::anchors_zero_htlc_fee_and_dependencies(),
		2 => ChannelTypeFeatures::anchors_zero_fee_commitments(),
		_ => panic!("bad channel type"),
	}
}

fn keys(secp: &Secp256k1<bitcoin::secp256k1::All>, tag: u8) -> ChannelPublicKeys {
	let pk = |i: u8| PublicKey::from_secret_key(secp, &SecretKey::from_slice(&[tag * 16 + i; 32]).unwrap());
	ChannelPublicKeys {
		funding_pubkey: pk(1),
		revocation_basepoint: pk(2).into(),
		payment_point: pk(3),
		delayed_payment_basepoint: pk(4).into(),
		htlc_basepoint: pk(5).into(),
	}
}

fn htlcs_of(a: &[i128]) -> Vec<(bool, u64)> {
	let n = a[0] as usize;
	(0..n).map(|i| (a[1 + 2 * i] != 0, a[2 + 2 * i] as u64)).collect()
}

fn main() {
	let secp = Secp256k1::new();
	let hk = keys(&secp, 1);
	let ck = keys(&secp, 2);
	let pcp = PublicKey::from_secret_key(&secp, &SecretKey::from_slice(&[7; 32]).unwrap());
	for_each_case(|l| {
		let mut it = l.split_whitespace();
		let cmd = it.next().unwrap();
		let a: Vec<i128> = it.map(|t| t.parse::<i128>().unwrap()).collect();
		match cmd {
			"fee" => {
				let ct = ct_of(a[0]);
				let r = vh::fees(a[1] as u32, a[2] as usize, a[3] as usize, a[4] as usize, &ct);
				format!("{} {} {} {} {} {}", r.0, r.1, r.2, r.3, r.4, r.5)
			},
			"dust" => {
				let ct = ct_of(a[0]);
				format!("{}", vh::is_dust(a[1] != 0, a[2] as u64, a[3] != 0, a[4] as u32, a[5] as u64, &ct) as u8)
			},
			"bc" => {
				let ct = ct_of(a[0]);
				let local = a[1] != 0;
				let value_sat = a[3] as u64;
				let params = ChannelTransactionParameters {
					holder_pubkeys: hk.clone(),
					holder_selected_contest_delay: 144,
					is_outbound_from_holder: a[2] != 0,
					counterparty_parameters: Some(CounterpartyChannelTransactionParameters {
						pubkeys: ck.clone(),
						selected_contest_delay: 144,
					}),
					funding_outpoint: Some(OutPoint { txid: Txid::from_byte_array([42; 32]), index: 0 }),
					splice_parent_funding_txid: None,
					channel_type_features: ct,
					channel_value_satoshis: value_sat,
				};
				let hs = htlcs_of(&a[7..]);
				// `offered` is relative to the broadcaster: an HTLC outbound from the holder is offered
				// on the holder's (local) commitment
				let htlcs: Vec<HTLCOutputInCommitment> = hs
					.iter()
					.enumerate()
					.map(|(i, (outbound, amt))| {
						let mut h = [0u8; 32];
						h[0] = (i >> 8) as u8;
						h[1] = (i & 0xff) as u8;
						h[2] = 0xC1;
						HTLCOutputInCommitment {
							offered: *outbound == local,
							amount_msat: *amt,
							cltv_expiry: 800_000 + (i as u32 % 7),
							payment_hash: PaymentHash(h),
							transaction_output_index: None,
						}
					})
					.collect();
				let (tx, st) = vh::build_commitment_transaction(
					local, (1u64 << 48) - 5, &pcp, &params, &secp, a[4] as u64, htlcs, a[5] as u32, a[6] as u64,
				);
				let mut kept: Vec<usize> = tx
					.nondust_htlcs()
					.iter()
					.map(|h| ((h.payment_hash.0[0] as usize) << 8) | h.payment_hash.0[1] as usize)
					.collect();
				// every kept HTLC carries its output index and that output has the HTLC's sat value
				let built = tx.trust().built_transaction().transaction.clone();
				let mut idx_ok = true;
				for h in tx.nondust_htlcs() {
					match h.transaction_output_index {
						Some(i) => {
							if built.output[i as usize].value.to_sat() != h.amount_msat / 1000 {
								idx_ok = false;
							}
						},
						None => idx_ok = false,
					}
				}
				kept.sort();
				let mut outs: Vec<u64> = built.output.iter().map(|o| o.value.to_sat()).collect();
				outs.sort();
				format!(
					"tb={} tc={} fee={} lb={} rb={} fr={} kept={} outs={} idx={}",
					tx.to_broadcaster_value_sat(),
					tx.to_countersignatory_value_sat(),
					st.0,
					st.1,
					st.2,
					tx.negotiated_feerate_per_kw(),
					kept.iter().map(|x| x.to_string()).collect::<Vec<_>>().join(","),
					outs.iter().map(|x| x.to_string()).collect::<Vec<_>>().join(","),
					idx_ok as u8
				)
			},
			"ncs" => {
				let ct = ct_of(a[0]);
				let lim = if a[8] < 0 { None } else { Some(a[8] as u32) };
				let hs = htlcs_of(&a[10..]);
				match vh::next_commitment_stats(
					a[1] != 0, a[2] != 0, a[3] as u64, a[4] as u64, &hs, a[5] as usize, a[6] as u32, a[7] != 0, lim,
					a[9] as u64, &ct,
				) {
					Ok((h, c, d)) => format!("Ok {} {} {}", h, c, d),
					Err(()) => "Err".to_string(),
				}
			},
			"ab" => {
				let ct = ct_of(a[0]);
				let lim = if a[5] < 0 { None } else { Some(a[5] as u32) };
				let mut c = [0u64; 7];
				for i in 0..7 {
					c[i] = a[7 + i] as u64;
				}
				let hs = htlcs_of(&a[14..]);
				let r = vh::available_balances(a[1] != 0, a[2] as u64, a[3] as u64, &hs, a[4] as u32, lim, a[6] as u64, c, &ct);
				format!("{} {} {} {} {} {}", r[0], r[1], r[2], r[3], r[4], r[5])
			},
			_ => "BADCMD".to_string(),
		}
	});
}
