//! C10 crash-point harness: a scenario (same op language as h_monupd) is run on three real nodes
//! A-B-C with a scripted persister that records EVERY durable write (full ChannelMonitor bytes of each
//! persist call, in order) while the crash node's ChannelManager is serialized after every step (the
//! snapshots a background processor could have written). One trial = (crash step k, manager lag,
//! monitor choice): the scenario prefix is re-run, the crash node is rebuilt from the chosen bytes with
//! `reload_node!` (ChannelManagerReadArgs + load_existing_monitor), peers are reconnected, everything
//! is run to quiescence (including an on-chain phase when a channel was closed), and one JSON result
//! line is printed for the judge in tools/props/C10.py.
//!
//! input line:  `<strict|relaxed> crash=<n> k=<step> lag=<j> mon=<min|max|mix<seed>> pre=<0|1> recrash=<0|1> ; op ; op ; ...`
//!   k        crash after the k-th op (1-based; ops beyond k are not executed)
//!   lag      the manager snapshot used is the one taken after op k-lag (0 = most recent)
//!   mon      per channel: the last write reported complete (min), the last write handed to the
//!            persister (max: every in-flight async write landed), or a seeded mix in between
//!   pre      with lag=0: use the snapshot taken BEFORE the events of step k were handled (they must be
//!            re-delivered after the restart)
//!   recrash  crash again after the first recovery step, from the freshly written state
//! ops: send/deliver/dany/fwd/fwdany/claim/fail/disc/reconn/pmode/pnext/complete/cany/completeall as in
//!      h_monupd (channels are established before the scenario; no open/confirm/fee/fc/flush here).
#![allow(dead_code)]
use std::collections::{HashMap, HashSet, VecDeque};
use std::panic::{self, AssertUnwindSafe};
use std::sync::atomic::{AtomicUsize, Ordering};
use std::sync::{Arc, Mutex};

use bitcoin::hashes::sha256::Hash as Sha256;
use bitcoin::hashes::Hash;
use bitcoin::secp256k1::PublicKey;
use bitcoin::Transaction;

use lightning::chain::chaininterface::ConfirmationTarget;
use lightning::chain::chainmonitor::Persist;
use lightning::chain::channelmonitor::{ChannelMonitor, ChannelMonitorUpdate};
use lightning::chain::ChannelMonitorUpdateStatus;
use lightning::events::{ClosureReason, Event, EventsProvider};
use lightning::ln::channelmanager::PaymentId;
use lightning::ln::functional_test_utils::*;
use lightning::ln::msgs::{self, BaseMessageHandler, ChannelMessageHandler, ErrorAction, MessageSendEvent};
use lightning::ln::outbound_payment::RecipientOnionFields;
use lightning::ln::types::ChannelId;
use lightning::ln::verif_hooks as vh;
use lightning::reload_node;
use lightning::routing::router::{Path, PaymentParameters, Route, RouteHop, RouteParameters};
use lightning::types::payment::{PaymentHash, PaymentPreimage};
use lightning::util::persist::MonitorName;
use lightning::util::ser::Writeable;
use lightning::util::test_channel_signer::TestChannelSigner;

use verif_harness::hex;

// ------------------------------------------------------------------------------------------
// persister recording every durable write
// ------------------------------------------------------------------------------------------
#[derive(Clone)]
struct WriteRec {
	step: usize,
	chan: ChannelId,
	id: u64,
	inprog: bool,
	bytes: Vec<u8>,
}

struct PState {
	default_async: bool,
	force_next: u64,
	relaxed: bool,
	ever_async: HashSet<ChannelId>,
	pending: HashMap<ChannelId, Vec<u64>>,
	completed: HashMap<ChannelId, u64>,
	writes: Vec<WriteRec>,
}

struct SnapPersister {
	step: Arc<AtomicUsize>,
	st: Mutex<PState>,
}

impl SnapPersister {
	fn new(step: Arc<AtomicUsize>, relaxed: bool) -> Self {
		SnapPersister {
			step,
			st: Mutex::new(PState {
				default_async: false,
				force_next: 0,
				relaxed,
				ever_async: HashSet::new(),
				pending: HashMap::new(),
				completed: HashMap::new(),
				writes: Vec::new(),
			}),
		}
	}
	fn record(&self, data: &ChannelMonitor<TestChannelSigner>, tracked: bool) -> ChannelMonitorUpdateStatus {
		let chan = data.channel_id();
		let id = data.get_latest_update_id();
		let mut st = self.st.lock().unwrap();
		let mut inprog = false;
		if tracked {
			let has_pending = st.pending.get(&chan).map(|v| !v.is_empty()).unwrap_or(false);
			let forced = st.force_next > 0;
			if forced {
				st.force_next -= 1;
			}
			let sticky = !st.relaxed && st.ever_async.contains(&chan);
			inprog = st.default_async || forced || has_pending || sticky;
			if inprog {
				st.ever_async.insert(chan);
				st.pending.entry(chan).or_insert_with(Vec::new).push(id);
			} else {
				let e = st.completed.entry(chan).or_insert(0);
				*e = (*e).max(id);
			}
		}
		let step = self.step.load(Ordering::SeqCst);
		st.writes.push(WriteRec { step, chan, id, inprog, bytes: data.encode() });
		if inprog {
			ChannelMonitorUpdateStatus::InProgress
		} else {
			ChannelMonitorUpdateStatus::Completed
		}
	}
}

impl Persist<TestChannelSigner> for SnapPersister {
	fn persist_new_channel(&self, _name: MonitorName, data: &ChannelMonitor<TestChannelSigner>) -> ChannelMonitorUpdateStatus {
		self.record(data, true)
	}
	fn update_persisted_channel(
		&self, _name: MonitorName, update: Option<&ChannelMonitorUpdate>, data: &ChannelMonitor<TestChannelSigner>,
	) -> ChannelMonitorUpdateStatus {
		// chain-sync persists (update == None) are durable writes too, but not tracked as pending
		self.record(data, update.is_some())
	}
	fn archive_persisted_channel(&self, _name: MonitorName) {}
}

fn cid(c: &ChannelId) -> String {
	hex(&c.0[..6])
}

// ------------------------------------------------------------------------------------------
// wire messages in flight
// ------------------------------------------------------------------------------------------
#[derive(Clone)]
enum Wire {
	Open(msgs::OpenChannel),
	Accept(msgs::AcceptChannel),
	FundingCreated(msgs::FundingCreated),
	FundingSigned(msgs::FundingSigned),
	ChannelReady(msgs::ChannelReady),
	AnnSigs(msgs::AnnouncementSignatures),
	Add(msgs::UpdateAddHTLC),
	Fulfill(msgs::UpdateFulfillHTLC),
	FailHtlc(msgs::UpdateFailHTLC),
	FailMalformed(msgs::UpdateFailMalformedHTLC),
	Fee(msgs::UpdateFee),
	CS(msgs::CommitmentSigned),
	RAA(msgs::RevokeAndACK),
	Reestablish(msgs::ChannelReestablish),
	ChanUpdate(msgs::ChannelUpdate),
	Error(msgs::ErrorMessage),
	Shutdown(msgs::Shutdown),
	ClosingSigned(msgs::ClosingSigned),
}

fn h8<W: Writeable>(m: &W) -> String {
	hex(&Sha256::hash(&m.encode()).to_byte_array()[..6])
}

impl Wire {
	fn kind(&self) -> &'static str {
		match self {
			Wire::Open(_) => "open_channel",
			Wire::Accept(_) => "accept_channel",
			Wire::FundingCreated(_) => "funding_created",
			Wire::FundingSigned(_) => "funding_signed",
			Wire::ChannelReady(_) => "channel_ready",
			Wire::AnnSigs(_) => "announcement_signatures",
			Wire::Add(_) => "update_add_htlc",
			Wire::Fulfill(_) => "update_fulfill_htlc",
			Wire::FailHtlc(_) => "update_fail_htlc",
			Wire::FailMalformed(_) => "update_fail_malformed_htlc",
			Wire::Fee(_) => "update_fee",
			Wire::CS(_) => "commitment_signed",
			Wire::RAA(_) => "revoke_and_ack",
			Wire::Reestablish(_) => "channel_reestablish",
			Wire::ChanUpdate(_) => "channel_update",
			Wire::Error(_) => "error",
			Wire::Shutdown(_) => "shutdown",
			Wire::ClosingSigned(_) => "closing_signed",
		}
	}
	fn chan(&self) -> String {
		match self {
			Wire::Open(m) => cid(&m.common_fields.temporary_channel_id),
			Wire::Accept(m) => cid(&m.common_fields.temporary_channel_id),
			Wire::FundingCreated(m) => cid(&m.temporary_channel_id),
			Wire::FundingSigned(m) => cid(&m.channel_id),
			Wire::ChannelReady(m) => cid(&m.channel_id),
			Wire::AnnSigs(m) => cid(&m.channel_id),
			Wire::Add(m) => cid(&m.channel_id),
			Wire::Fulfill(m) => cid(&m.channel_id),
			Wire::FailHtlc(m) => cid(&m.channel_id),
			Wire::FailMalformed(m) => cid(&m.channel_id),
			Wire::Fee(m) => cid(&m.channel_id),
			Wire::CS(m) => cid(&m.channel_id),
			Wire::RAA(m) => cid(&m.channel_id),
			Wire::Reestablish(m) => cid(&m.channel_id),
			Wire::ChanUpdate(_) => "-".to_string(),
			Wire::Error(m) => cid(&m.channel_id),
			Wire::Shutdown(m) => cid(&m.channel_id),
			Wire::ClosingSigned(m) => cid(&m.channel_id),
		}
	}
	fn hash(&self) -> String {
		match self {
			Wire::Open(m) => h8(m),
			Wire::Accept(m) => h8(m),
			Wire::FundingCreated(m) => h8(m),
			Wire::FundingSigned(m) => h8(m),
			Wire::ChannelReady(m) => h8(m),
			Wire::AnnSigs(m) => h8(m),
			Wire::Add(m) => h8(m),
			Wire::Fulfill(m) => h8(m),
			Wire::FailHtlc(m) => h8(m),
			Wire::FailMalformed(m) => h8(m),
			Wire::Fee(m) => h8(m),
			Wire::CS(m) => h8(m),
			Wire::RAA(m) => h8(m),
			Wire::Reestablish(m) => h8(m),
			Wire::ChanUpdate(m) => h8(m),
			Wire::Error(m) => h8(m),
			Wire::Shutdown(m) => h8(m),
			Wire::ClosingSigned(m) => h8(m),
		}
	}
}


// ------------------------------------------------------------------------------------------
// JSON helpers
// ------------------------------------------------------------------------------------------
fn js(s: &str) -> String {
	let mut o = String::with_capacity(s.len() + 2);
	o.push('"');
	for c in s.chars() {
		match c {
			'"' => o.push_str("\\\""),
			'\\' => o.push_str("\\\\"),
			'\n' => o.push_str("\\n"),
			c if (c as u32) < 0x20 => o.push(' '),
			c => o.push(c),
		}
	}
	o.push('"');
	o
}
fn jarr(v: &[String]) -> String {
	format!("[{}]", v.join(","))
}


// ------------------------------------------------------------------------------------------
// the world (state of the harness that survives the crash of one node)
// ------------------------------------------------------------------------------------------
#[derive(Clone)]
struct PayInfo {
	preimage: PaymentPreimage,
	from: usize,
	to: usize,
	sent_step: usize,
	first_chan: ChannelId,
}

#[derive(Clone, Default)]
struct Carry {
	queues: HashMap<(usize, usize), VecDeque<Wire>>,
	connected: HashSet<(usize, usize)>,
	chans: Vec<Vec<(ChannelId, usize)>>,
	claimables: Vec<Vec<PaymentHash>>,
	claiming: Vec<Vec<PaymentHash>>, // claim_funds called, PaymentClaimed not seen yet
	payments: HashMap<PaymentHash, PayInfo>,
	pay_order: Vec<PaymentHash>,
	pay_ctr: u64,
	bcast_seen: Vec<usize>,
	closed: Vec<(usize, String, String)>, // (node, chan, reason)
	events: Vec<(usize, String, String)>, // (node, event name, payment tag / detail)
	errs: Vec<String>,
	claim_ops: HashSet<String>,
	step: usize,
	evhold: Vec<bool>,
	scripted_fc: Vec<String>,
	// post-crash: event kinds whose handling fails (handler returns Err(ReplayEvent)) and how often still
	evfail: Vec<String>,
	evfail_left: usize,
	replayed: Vec<(usize, String, String)>,
}

struct World<'w, 'a, 'b, 'c> {
	nodes: &'w Vec<Node<'a, 'b, 'c>>,
	persisters: &'w Vec<SnapPersister>,
	ids: Vec<PublicKey>,
	c: Carry,
	crashed: Option<usize>, // after the crash this node uses a synchronous persister
}

impl<'w, 'a, 'b, 'c> World<'w, 'a, 'b, 'c> {
	fn idx_of(&self, pk: &PublicKey) -> Option<usize> {
		self.ids.iter().position(|p| p == pk)
	}
	fn pay_tag(&self, h: &PaymentHash) -> String {
		match self.c.pay_order.iter().position(|x| x == h) {
			Some(i) => format!("p{}", i),
			None => hex(&h.0[..4]),
		}
	}
	fn push_wire(&mut self, from: usize, to_pk: &PublicKey, w: Wire) {
		let to = match self.idx_of(to_pk) {
			Some(t) => t,
			None => return,
		};
		if self.c.connected.contains(&(from.min(to), from.max(to))) {
			self.c.queues.entry((from, to)).or_insert_with(VecDeque::new).push_back(w);
		}
	}
	fn do_disconnect(&mut self, a: usize, b: usize) {
		self.nodes[a].node.peer_disconnected(self.ids[b]);
		self.nodes[b].node.peer_disconnected(self.ids[a]);
		self.c.connected.remove(&(a.min(b), a.max(b)));
		self.c.queues.remove(&(a, b));
		self.c.queues.remove(&(b, a));
	}
	fn do_connect(&mut self, a: usize, b: usize) {
		let init_a = msgs::Init { features: self.nodes[a].init_features(self.ids[b]), networks: None, remote_network_address: None };
		let init_b = msgs::Init { features: self.nodes[b].init_features(self.ids[a]), networks: None, remote_network_address: None };
		self.c.connected.insert((a.min(b), a.max(b)));
		self.nodes[a].node.peer_connected(self.ids[b], &init_b, true).unwrap();
		self.nodes[b].node.peer_connected(self.ids[a], &init_a, false).unwrap();
	}

	fn handle_msg_event(&mut self, n: usize, ev: MessageSendEvent) {
		match ev {
			MessageSendEvent::SendChannelReady { node_id, msg } => self.push_wire(n, &node_id, Wire::ChannelReady(msg)),
			MessageSendEvent::SendAnnouncementSignatures { node_id, msg } => self.push_wire(n, &node_id, Wire::AnnSigs(msg)),
			MessageSendEvent::UpdateHTLCs { node_id, channel_id: _, updates } => {
				for m in updates.update_add_htlcs {
					self.push_wire(n, &node_id, Wire::Add(m));
				}
				for m in updates.update_fulfill_htlcs {
					self.push_wire(n, &node_id, Wire::Fulfill(m));
				}
				for m in updates.update_fail_htlcs {
					self.push_wire(n, &node_id, Wire::FailHtlc(m));
				}
				for m in updates.update_fail_malformed_htlcs {
					self.push_wire(n, &node_id, Wire::FailMalformed(m));
				}
				if let Some(m) = updates.update_fee {
					self.push_wire(n, &node_id, Wire::Fee(m));
				}
				for m in updates.commitment_signed {
					self.push_wire(n, &node_id, Wire::CS(m));
				}
			},
			MessageSendEvent::SendRevokeAndACK { node_id, msg } => self.push_wire(n, &node_id, Wire::RAA(msg)),
			MessageSendEvent::SendChannelReestablish { node_id, msg } => self.push_wire(n, &node_id, Wire::Reestablish(msg)),
			MessageSendEvent::SendChannelUpdate { node_id, msg } => self.push_wire(n, &node_id, Wire::ChanUpdate(msg)),
			MessageSendEvent::HandleError { node_id, action } => match action {
				ErrorAction::SendErrorMessage { msg } => {
					self.c.errs.push(format!("node {} sends error: {}", n, msg.data));
					let dead = self.c.closed.iter().filter(|(_, c, _)| *c == cid(&msg.channel_id)).count() >= 2;
					if !dead {
						self.push_wire(n, &node_id, Wire::Error(msg));
					}
				},
				ErrorAction::DisconnectPeer { msg } => {
					self.c.errs.push(format!("node {} disconnects peer: {:?}", n, msg.map(|m| m.data)));
					if let Some(t) = self.idx_of(&node_id) {
						if self.c.connected.contains(&(n.min(t), n.max(t))) {
							self.do_disconnect(n, t);
						}
					}
				},
				ErrorAction::DisconnectPeerWithWarning { msg } => {
					self.c.errs.push(format!("node {} disconnects peer with warning: {}", n, msg.data));
					if let Some(t) = self.idx_of(&node_id) {
						if self.c.connected.contains(&(n.min(t), n.max(t))) {
							self.do_disconnect(n, t);
						}
					}
				},
				ErrorAction::SendWarningMessage { msg, .. } => self.c.errs.push(format!("node {} sends warning: {}", n, msg.data)),
				_ => {},
			},
			_ => {},
		}
	}

	/// The detail string handle_event records for a payment event, without handle_event's side effects.
	fn detail_of(&self, ev: &Event) -> String {
		match ev {
			Event::PaymentClaimable { payment_hash, .. } => self.pay_tag(payment_hash),
			Event::PaymentClaimed { payment_hash, .. } => self.pay_tag(payment_hash),
			Event::PaymentSent { payment_hash, .. } => self.pay_tag(payment_hash),
			Event::PaymentFailed { payment_hash: Some(h), .. } => self.pay_tag(h),
			Event::PaymentPathSuccessful { payment_hash: Some(h), .. } => self.pay_tag(h),
			Event::PaymentPathFailed { payment_hash, .. } => self.pay_tag(payment_hash),
			Event::PaymentForwarded { prev_htlcs, next_htlcs, .. } => {
				let p: Vec<String> = prev_htlcs.iter().map(|h| cid(&h.channel_id)).collect();
				let q: Vec<String> = next_htlcs.iter().map(|h| cid(&h.channel_id)).collect();
				format!("{}>{}", p.join("+"), q.join("+"))
			},
			_ => String::new(),
		}
	}

	fn handle_event(&mut self, n: usize, ev: Event) {
		let dbg = format!("{:?}", ev);
		let name: String = dbg.chars().take_while(|c| c.is_alphanumeric()).collect();
		let mut detail = String::new();
		match ev {
			Event::PaymentClaimable { payment_hash, .. } => {
				if !self.c.claimables[n].contains(&payment_hash) {
					self.c.claimables[n].push(payment_hash);
				}
				detail = self.pay_tag(&payment_hash);
			},
			Event::PaymentClaimed { payment_hash, .. } => {
				self.c.claiming[n].retain(|h| *h != payment_hash);
				detail = self.pay_tag(&payment_hash)
			},
			Event::PaymentSent { payment_hash, .. } => detail = self.pay_tag(&payment_hash),
			Event::PaymentFailed { payment_hash, .. } => {
				if let Some(h) = payment_hash {
					detail = self.pay_tag(&h)
				}
			},
			Event::PaymentPathSuccessful { payment_hash, .. } => {
				if let Some(h) = payment_hash {
					detail = self.pay_tag(&h)
				}
			},
			Event::PaymentPathFailed { payment_hash, .. } => detail = self.pay_tag(&payment_hash),
			Event::PaymentForwarded { prev_htlcs, next_htlcs, .. } => {
				let p: Vec<String> = prev_htlcs.iter().map(|h| cid(&h.channel_id)).collect();
				let q: Vec<String> = next_htlcs.iter().map(|h| cid(&h.channel_id)).collect();
				detail = format!("{}>{}", p.join("+"), q.join("+"));
			},
			Event::ChannelClosed { channel_id, reason, .. } => {
				let r = match reason {
					ClosureReason::OutdatedChannelManager => "OutdatedChannelManager".to_string(),
					other => format!("{}", other).chars().take(80).collect(),
				};
				self.c.closed.push((n, cid(&channel_id), r.clone()));
				detail = format!("{} {}", cid(&channel_id), r);
			},
			_ => {},
		}
		self.c.events.push((n, name, detail));
	}

	fn drain(&mut self) {
		for _round in 0..50 {
			let mut activity = false;
			for n in 0..self.nodes.len() {
				for ev in self.nodes[n].node.get_and_clear_pending_msg_events() {
					activity = true;
					self.handle_msg_event(n, ev);
				}
				if !self.c.evhold[n] {
					if self.crashed == Some(n) && self.c.evfail_left > 0 && !self.c.evfail.is_empty() {
						// the application's handler fails for some events: they must stay queued and be
						// delivered again
						let got: std::cell::RefCell<Vec<Event>> = std::cell::RefCell::new(Vec::new());
						let refused: std::cell::RefCell<Vec<(String, Event)>> = std::cell::RefCell::new(Vec::new());
						let kinds = self.c.evfail.clone();
						let left = std::cell::Cell::new(self.c.evfail_left);
						self.nodes[n].node.process_pending_events(&|ev: Event| {
							let dbg = format!("{:?}", ev);
							let name: String = dbg.chars().take_while(|c| c.is_alphanumeric()).collect();
							if left.get() > 0 && kinds.iter().any(|k| *k == name) {
								left.set(left.get() - 1);
								refused.borrow_mut().push((name, ev));
								return Err(lightning::events::ReplayEvent());
							}
							got.borrow_mut().push(ev);
							Ok(())
						});
						self.c.evfail_left = left.get();
						for (name, ev) in refused.into_inner() {
							let detail = self.detail_of(&ev);
							self.c.replayed.push((n, name, detail));
						}
						for ev in got.into_inner() {
							activity = true;
							self.handle_event(n, ev);
						}
					} else {
						for ev in self.nodes[n].node.get_and_clear_pending_events() {
							activity = true;
							self.handle_event(n, ev);
						}
					}
				}
				let _ = self.nodes[n].chain_monitor.chain_monitor.get_and_clear_pending_msg_events();
				let _ = self.nodes[n].chain_monitor.chain_monitor.get_and_clear_pending_events();
				self.nodes[n].chain_monitor.added_monitors.lock().unwrap().clear();
			}
			if !activity {
				break;
			}
		}
	}

	fn first_chan_between(&self, a: usize, b: usize) -> Option<ChannelId> {
		let open: HashSet<ChannelId> = self.nodes[a].node.list_channels().iter().map(|d| d.channel_id).collect();
		self.c.chans[a].iter().find(|(c, p)| *p == b && open.contains(c)).map(|(c, _)| *c)
	}

	fn send(&mut self, a: usize, b: usize, amt: u64) -> bool {
		let nn = self.nodes.len();
		if a == b || a >= nn || b >= nn {
			return false;
		}
		// star topology: node 1 is the hub
		let path_nodes: Vec<usize> = if a == 1 || b == 1 { vec![b] } else { vec![1, b] };
		let mut prev = a;
		let mut hops = Vec::new();
		let mut first_chan = None;
		for (i, &h) in path_nodes.iter().enumerate() {
			let chan = match self.first_chan_between(prev, h) {
				Some(c) => c,
				None => return false,
			};
			if first_chan.is_none() {
				first_chan = Some(chan);
			}
			let scid = match self.nodes[prev].node.list_channels().iter().find(|d| d.channel_id == chan).and_then(|d| d.short_channel_id) {
				Some(s) => s,
				None => return false,
			};
			let last = i + 1 == path_nodes.len();
			hops.push(RouteHop {
				pubkey: self.ids[h],
				node_features: self.nodes[h].node.node_features(),
				short_channel_id: scid,
				channel_features: self.nodes[h].node.channel_features(),
				fee_msat: if last { amt } else { 50_000 },
				cltv_expiry_delta: if last { TEST_FINAL_CLTV } else { 100 },
				maybe_announced_channel: true,
			});
			prev = h;
		}
		self.c.pay_ctr += 1;
		let mut pre = [0u8; 32];
		pre[0..8].copy_from_slice(&self.c.pay_ctr.to_be_bytes());
		pre[31] = 0x5a;
		let preimage = PaymentPreimage(pre);
		let hash = PaymentHash(Sha256::hash(&pre).to_byte_array());
		let secret = match self.nodes[b].node.create_inbound_payment_for_hash(hash, None, 7200, None, None) {
			Ok((s, _)) => s,
			Err(_) => return false,
		};
		let route_params = RouteParameters::from_payment_params_and_value(PaymentParameters::from_node_id(self.ids[b], TEST_FINAL_CLTV), amt);
		let route = Route { paths: vec![Path { hops, blinded_tail: None }], route_params };
		let onion = RecipientOnionFields::secret_only(secret, amt);
		let mut id = [0u8; 32];
		id[0..8].copy_from_slice(&self.c.pay_ctr.to_be_bytes());
		self.c.payments.insert(hash, PayInfo { preimage, from: a, to: b, sent_step: self.c.step, first_chan: first_chan.unwrap() });
		self.c.pay_order.push(hash);
		self.nodes[a].node.send_payment_with_route(route, hash, onion, PaymentId(id)).is_ok()
	}

	fn deliver(&mut self, a: usize, b: usize) -> bool {
		let w = match self.c.queues.get_mut(&(a, b)).and_then(|q| q.pop_front()) {
			Some(w) => w,
			None => return false,
		};
		let from = self.ids[a];
		let nb = self.nodes[b].node;
		match w {
			Wire::Open(m) => nb.handle_open_channel(from, &m),
			Wire::Accept(m) => nb.handle_accept_channel(from, &m),
			Wire::FundingCreated(m) => nb.handle_funding_created(from, &m),
			Wire::FundingSigned(m) => nb.handle_funding_signed(from, &m),
			Wire::ChannelReady(m) => nb.handle_channel_ready(from, &m),
			Wire::AnnSigs(m) => nb.handle_announcement_signatures(from, &m),
			Wire::Add(m) => nb.handle_update_add_htlc(from, &m),
			Wire::Fulfill(m) => nb.handle_update_fulfill_htlc(from, m),
			Wire::FailHtlc(m) => nb.handle_update_fail_htlc(from, &m),
			Wire::FailMalformed(m) => nb.handle_update_fail_malformed_htlc(from, &m),
			Wire::Fee(m) => nb.handle_update_fee(from, &m),
			Wire::CS(m) => nb.handle_commitment_signed(from, &m),
			Wire::RAA(m) => nb.handle_revoke_and_ack(from, &m),
			Wire::Reestablish(m) => nb.handle_channel_reestablish(from, &m),
			Wire::ChanUpdate(m) => nb.handle_channel_update(from, &m),
			Wire::Error(m) => nb.handle_error(from, &m),
			Wire::Shutdown(m) => nb.handle_shutdown(from, &m),
			Wire::ClosingSigned(m) => nb.handle_closing_signed(from, &m),
		}
		true
	}

	fn pending_of(&self, n: usize, chan: &ChannelId) -> Vec<u64> {
		if self.crashed == Some(n) {
			return Vec::new();
		}
		self.persisters[n].st.lock().unwrap().pending.get(chan).cloned().unwrap_or_default()
	}

	fn complete(&mut self, n: usize, chan: ChannelId, id: u64) {
		{
			let mut st = self.persisters[n].st.lock().unwrap();
			if let Some(v) = st.pending.get_mut(&chan) {
				v.retain(|x| *x != id);
			}
			let e = st.completed.entry(chan).or_insert(0);
			*e = (*e).max(id);
		}
		let _ = self.nodes[n].chain_monitor.chain_monitor.channel_monitor_updated(chan, id);
	}

	fn apply(&mut self, t: &[&str]) -> bool {
		let num = |i: usize| -> usize { t.get(i).and_then(|s| s.parse::<usize>().ok()).unwrap_or(0) };
		let nn = self.nodes.len();
		match t[0] {
			"send" => self.send(num(1) % nn, num(2) % nn, num(3) as u64),
			"deliver" => self.deliver(num(1) % nn, num(2) % nn),
			"dany" => {
				let mut ne: Vec<(usize, usize)> = self.c.queues.iter().filter(|(_, q)| !q.is_empty()).map(|(k, _)| *k).collect();
				ne.sort();
				if ne.is_empty() {
					return false;
				}
				let (a, b) = ne[num(1) % ne.len()];
				self.deliver(a, b)
			},
			"fwd" => {
				self.nodes[num(1) % nn].node.process_pending_htlc_forwards();
				true
			},
			"decode" => {
				// only the first half of process_pending_htlc_forwards: the onions are decoded and the HTLCs wait in
				// forward_htlcs / as pending receives (what a ChannelManager written at that moment contains)
				self.nodes[num(1) % nn].node.test_process_pending_update_add_htlcs()
			},
			"fwdany" => {
				let ns: Vec<usize> = (0..nn).filter(|n| self.nodes[*n].node.needs_pending_htlc_processing()).collect();
				if ns.is_empty() {
					return false;
				}
				self.nodes[ns[num(1) % ns.len()]].node.process_pending_htlc_forwards();
				true
			},
			"claim" | "fail" => {
				let n = num(1) % nn;
				if self.c.claimables[n].is_empty() {
					return false;
				}
				let k = num(2) % self.c.claimables[n].len();
				let h = self.c.claimables[n].remove(k);
				if t[0] == "claim" {
					let pre = self.c.payments[&h].preimage;
					let tag = self.pay_tag(&h);
					self.c.claim_ops.insert(tag);
					if !self.c.claiming[n].contains(&h) {
						self.c.claiming[n].push(h);
					}
					self.nodes[n].node.claim_funds(pre);
				} else {
					self.nodes[n].node.fail_htlc_backwards(&h);
				}
				true
			},
			"evhold" => {
				let n = num(1) % nn;
				let on = t.get(2) == Some(&"on");
				if self.c.evhold[n] == on {
					return false;
				}
				self.c.evhold[n] = on;
				true
			},
			"events" => {
				let n = num(1) % nn;
				let evs = self.nodes[n].node.get_and_clear_pending_events();
				let any = !evs.is_empty();
				for ev in evs {
					self.handle_event(n, ev);
				}
				any
			},
			"fc" => {
				let n = num(1) % nn;
				if self.c.chans[n].is_empty() {
					return false;
				}
				let (chan, peer) = self.c.chans[n][num(2) % self.c.chans[n].len()];
				if self.c.scripted_fc.contains(&cid(&chan)) {
					return false;
				}
				let ok = self.nodes[n].node.force_close_broadcasting_latest_txn(&chan, &self.ids[peer], "harness".to_string()).is_ok();
				if ok {
					self.c.scripted_fc.push(cid(&chan));
				}
				ok
			},
			"disc" => {
				let (a, b) = (num(1) % nn, num(2) % nn);
				if a == b || !self.c.connected.contains(&(a.min(b), a.max(b))) {
					return false;
				}
				self.do_disconnect(a, b);
				true
			},
			"reconn" => {
				let (a, b) = (num(1) % nn, num(2) % nn);
				if a == b || self.c.connected.contains(&(a.min(b), a.max(b))) {
					return false;
				}
				self.do_connect(a, b);
				true
			},
			"pmode" => {
				let n = num(1) % nn;
				if self.crashed == Some(n) {
					return false;
				}
				let want_async = t.get(2) == Some(&"async");
				let mut st = self.persisters[n].st.lock().unwrap();
				if !want_async && !st.relaxed && st.default_async {
					return false;
				}
				st.default_async = want_async;
				true
			},
			"pnext" => {
				let n = num(1) % nn;
				if self.crashed == Some(n) {
					return false;
				}
				let mut st = self.persisters[n].st.lock().unwrap();
				if !st.relaxed {
					return false;
				}
				st.force_next = num(2) as u64;
				true
			},
			"complete" => {
				let n = num(1) % nn;
				if self.c.chans[n].is_empty() {
					return false;
				}
				let (chan, _) = self.c.chans[n][num(2) % self.c.chans[n].len()];
				let pend = self.pending_of(n, &chan);
				if pend.is_empty() {
					return false;
				}
				let id = pend[num(3) % pend.len()];
				self.complete(n, chan, id);
				true
			},
			"cany" => {
				let mut all: Vec<(usize, ChannelId, u64)> = Vec::new();
				for n in 0..nn {
					for (chan, _) in self.c.chans[n].iter() {
						for id in self.pending_of(n, chan) {
							all.push((n, *chan, id));
						}
					}
				}
				if all.is_empty() {
					return false;
				}
				let (n, chan, id) = all[num(1) % all.len()];
				self.complete(n, chan, id);
				true
			},
			"completeall" => {
				let n = num(1) % nn;
				let mut any = false;
				let chans: Vec<ChannelId> = self.c.chans[n].iter().map(|(c, _)| *c).collect();
				for chan in chans {
					for id in self.pending_of(n, &chan) {
						self.complete(n, chan, id);
						// let the manager see this MonitorEvent::Completed before the next completion:
						// a relaxed persister may answer Completed again only once the manager has
						// nothing of the channel in flight
						self.drain();
						any = true;
					}
				}
				any
			},
			_ => false,
		}
	}

	/// complete everything, reconnect, deliver, forward, claim until nothing moves
	fn settle(&mut self) {
		let nn = self.nodes.len();
		let mut quiet = 0;
		for _round in 0..400 {
			let mut sub: Vec<String> = Vec::new();
			for n in 0..nn {
				sub.push(format!("evhold {} off", n));
				sub.push(format!("completeall {}", n));
			}
			for b in 0..nn {
				if b != 1 {
					sub.push(format!("reconn {} {}", 1.min(b), 1.max(b)));
				}
			}
			for a in 0..nn {
				for b in 0..nn {
					if a != b {
						sub.push(format!("deliver {} {}", a, b));
					}
				}
			}
			for n in 0..nn {
				sub.push(format!("fwd {}", n));
				sub.push(format!("claim {} 0", n));
			}
			let mut any = false;
			for s in sub {
				let st: Vec<&str> = s.split_whitespace().collect();
				if st[0] == "fwd" && !self.nodes[st[1].parse::<usize>().unwrap()].node.needs_pending_htlc_processing() {
					continue;
				}
				if self.apply(&st) {
					any = true;
					self.drain();
				}
			}
			if any {
				quiet = 0;
			} else {
				quiet += 1;
				if quiet >= 2 {
					break;
				}
			}
		}
	}

	/// confirm whatever was broadcast, advance the chain, until payments are resolved
	fn onchain(&mut self, spent: &mut HashSet<bitcoin::OutPoint>, deferred: &mut Vec<Transaction>) {
		let nn = self.nodes.len();
		for _round in 0..60 {
			let mut fresh: Vec<Transaction> = std::mem::take(deferred);
			for n in 0..nn {
				let txn = self.nodes[n].tx_broadcaster.txn_broadcasted.lock().unwrap().clone();
				for tx in txn.iter().skip(self.c.bcast_seen[n]) {
					fresh.push(tx.clone());
				}
				self.c.bcast_seen[n] = txn.len();
			}
			let height = self.nodes[0].best_block_info().1;
			let mut to_mine: Vec<Transaction> = Vec::new();
			for tx in fresh {
				if tx.lock_time.is_block_height() && tx.lock_time.to_consensus_u32() > height {
					deferred.push(tx);
					continue;
				}
				if tx.input.iter().any(|i| spent.contains(&i.previous_output)) {
					continue; // conflicts with something already confirmed
				}
				if to_mine.iter().any(|m| m.compute_txid() == tx.compute_txid()) {
					continue;
				}
				for i in tx.input.iter() {
					spent.insert(i.previous_output);
				}
				to_mine.push(tx);
			}
			if std::env::var("H_RESTART_DEBUG").is_ok() {
				eprintln!("ONCHAIN round {} height {} mine {:?} deferred {:?}", _round, height,
					to_mine.iter().map(|t| (t.compute_txid().to_string()[..8].to_string(), t.lock_time.to_consensus_u32(), t.input.len(), t.output.len())).collect::<Vec<_>>(),
					deferred.iter().map(|t| t.lock_time.to_consensus_u32()).collect::<Vec<_>>());
			}
			for n in 0..nn {
				if !to_mine.is_empty() {
					let refs: Vec<&Transaction> = to_mine.iter().collect();
					mine_transactions(&self.nodes[n], &refs);
				}
				connect_blocks(&self.nodes[n], 6);
			}
			self.drain();
			self.settle();
			let all_terminal = self.c.pay_order.iter().all(|h| {
				let tag = self.pay_tag(h);
				self.c.events.iter().any(|(_, name, d)| (name == "PaymentSent" || name == "PaymentFailed") && *d == tag)
			});
			let more = (0..nn).any(|n| self.nodes[n].tx_broadcaster.txn_broadcasted.lock().unwrap().len() > self.c.bcast_seen[n]);
			if all_terminal && !more && deferred.is_empty() && to_mine.is_empty() {
				break;
			}
		}
	}
}

// ------------------------------------------------------------------------------------------
// one trial
// ------------------------------------------------------------------------------------------
thread_local! {
	static OUT: std::cell::RefCell<Option<std::io::BufWriter<std::fs::File>>> = std::cell::RefCell::new(None);
	static LAST_PANIC: std::cell::RefCell<String> = std::cell::RefCell::new(String::new());
	static PHASE: std::cell::RefCell<String> = std::cell::RefCell::new(String::new());
	static PARTIAL: std::cell::RefCell<String> = std::cell::RefCell::new(String::new());
}

macro_rules! outln {
	($($arg:tt)*) => {{
		use std::io::Write;
		let line = format!($($arg)*);
		OUT.with(|o| match o.borrow_mut().as_mut() {
			Some(f) => { writeln!(f, "{}", line).unwrap(); },
			None => { println!("R {}", line); },
		});
	}};
}

fn phase(p: &str) {
	PHASE.with(|x| *x.borrow_mut() = p.to_string());
}
fn partial(p: String) {
	PARTIAL.with(|x| x.borrow_mut().push_str(&p));
}

struct Snap {
	pre: Vec<u8>,
	post: Vec<u8>,
	latest: HashMap<ChannelId, u64>,
	inflight: HashMap<ChannelId, Vec<u64>>,
	blocked: HashMap<ChannelId, Vec<u64>>,
	hold: HashMap<ChannelId, usize>,
	/// the same four views at the moment `pre` was serialized
	pre_view: (HashMap<ChannelId, u64>, HashMap<ChannelId, Vec<u64>>, HashMap<ChannelId, Vec<u64>>, HashMap<ChannelId, usize>),
	events_at_step: Vec<(String, String)>,
}

fn view_ids(
	node: &Node, ids: &Vec<PublicKey>, chans: &Vec<(ChannelId, usize)>,
) -> (HashMap<ChannelId, u64>, HashMap<ChannelId, Vec<u64>>, HashMap<ChannelId, Vec<u64>>, HashMap<ChannelId, usize>) {
	let mut latest = HashMap::new();
	let mut infl = HashMap::new();
	let mut blk = HashMap::new();
	let mut hold = HashMap::new();
	for (chan, peer) in chans.iter() {
		if let Some((Some(v), inflight, _)) = vh::monupd_view(node.node, &ids[*peer], chan) {
			// the id the channel would be compared with on reload
			latest.insert(*chan, v.latest_monitor_update_id);
			blk.insert(*chan, v.blocked_update_ids.clone());
			hold.insert(*chan, v.holding_cell_htlc_updates);
			infl.insert(*chan, inflight);
		}
	}
	(latest, infl, blk, hold)
}

fn param<'x>(head: &'x [&'x str], key: &str) -> Option<&'x str> {
	head.iter().find_map(|t| t.strip_prefix(key).and_then(|r| r.strip_prefix('=')))
}

fn run_trial(line: &str) {
	let mut parts = line.split(';').map(|s| s.trim());
	let head: Vec<&str> = parts.next().unwrap_or("").split_whitespace().collect();
	let relaxed = head.get(0) == Some(&"relaxed");
	let x: usize = param(&head, "crash").and_then(|v| v.parse().ok()).unwrap_or(1);
	let k: usize = param(&head, "k").and_then(|v| v.parse().ok()).unwrap_or(0);
	let lag: usize = param(&head, "lag").and_then(|v| v.parse().ok()).unwrap_or(0);
	let mon_mode = param(&head, "mon").unwrap_or("max").to_string();
	let pre = param(&head, "pre") == Some("1");
	// recrash: 0 none; 1 crash again with the freshly serialized manager; 2 crash again before the manager was
	// rewritten (the same, now even staler, manager bytes with the monitors as they are by then)
	let recrash_mode: usize = param(&head, "recrash").and_then(|v| v.parse().ok()).unwrap_or(0);
	let recrash = recrash_mode > 0;
	let path_mode = param(&head, "path").unwrap_or("default").to_string();
	let probe_progress = param(&head, "progress") != Some("0");
	let evfail: Vec<String> = param(&head, "evfail").map(|v| v.split(',').filter(|x| !x.is_empty()).map(|x| x.to_string()).collect()).unwrap_or_default();
	vh::set_reconstruct_manager_from_monitors(match path_mode.as_str() {
		"legacy" => Some(false),
		"recon" => Some(true),
		_ => None,
	});
	let ops: Vec<String> = parts.filter(|s| !s.is_empty()).map(|s| s.to_string()).collect();
	let nn = 4;
	let k = k.min(ops.len());

	phase("setup");
	let step = Arc::new(AtomicUsize::new(0));
	let persisters: Vec<SnapPersister> = (0..nn).map(|_| SnapPersister::new(step.clone(), relaxed)).collect();
	let chanmon_cfgs = create_chanmon_cfgs(nn);
	let node_cfgs = create_node_cfgs_with_persisters(nn, &chanmon_cfgs, persisters.iter().collect());
	let persister_r;
	let chain_monitor_r;
	let persister_r2;
	let chain_monitor_r2;
	let legacy = test_legacy_channel_config();
	let cfgs: Vec<Option<lightning::util::config::UserConfig>> = (0..nn).map(|_| Some(legacy.clone())).collect();
	let node_chanmgrs = create_node_chanmgrs(nn, &node_cfgs, &cfgs);
	let node_r;
	let node_r2;
	let mut nodes = create_network(nn, &node_cfgs, &node_chanmgrs);
	for n in nodes.iter() {
		*n.connect_style.borrow_mut() = ConnectStyle::BestBlockFirst;
		let mut o = n.fee_estimator.target_override.lock().unwrap();
		o.insert(ConfirmationTarget::MinAllowedAnchorChannelRemoteFee, 253);
		o.insert(ConfirmationTarget::MinAllowedNonAnchorChannelRemoteFee, 253);
	}
	let ids: Vec<PublicKey> = nodes.iter().map(|n| n.node.get_our_node_id()).collect();
	let c01 = create_announced_chan_between_nodes_with_value(&nodes, 0, 1, 1_000_000, 400_000_000).2;
	let c12 = create_announced_chan_between_nodes_with_value(&nodes, 1, 2, 1_000_000, 400_000_000).2;
	let c13 = create_announced_chan_between_nodes_with_value(&nodes, 1, 3, 1_000_000, 400_000_000).2;
	let mut carry = Carry::default();
	carry.chans = vec![vec![(c01, 1)], vec![(c01, 0), (c12, 2), (c13, 3)], vec![(c12, 1)], vec![(c13, 1)]];
	carry.evhold = vec![false; nn];
	carry.claimables = (0..nn).map(|_| Vec::new()).collect();
	carry.claiming = (0..nn).map(|_| Vec::new()).collect();
	carry.bcast_seen = (0..nn).map(|n| nodes[n].tx_broadcaster.txn_broadcasted.lock().unwrap().len()).collect();
	for b in 0..nn {
		if b != 1 {
			carry.connected.insert((1.min(b), 1.max(b)));
		}
	}
	for n in nodes.iter() {
		n.chain_monitor.added_monitors.lock().unwrap().clear();
	}

	// ---- the scenario prefix, with a manager snapshot of the crash node after every step
	phase("prefix");
	let mut snaps: Vec<Snap> = Vec::new();
	{
		let mut w = World { nodes: &nodes, persisters: &persisters, ids: ids.clone(), c: carry, crashed: None };
		w.drain();
		w.c.events.clear();
		w.c.errs.clear();
		w.c.queues.clear();
		let (l0, i0, k0, h0) = view_ids(&nodes[x], &ids, &w.c.chans[x]);
		let b0 = nodes[x].node.encode();
		snaps.push(Snap { pre: b0.clone(), post: b0, latest: l0.clone(), inflight: i0.clone(), blocked: k0.clone(), hold: h0.clone(), pre_view: (l0.clone(), i0.clone(), k0, h0), events_at_step: Vec::new() });
		for i in 1..=k {
			step.store(i, Ordering::SeqCst);
			w.c.step = i;
			let toks: Vec<&str> = ops[i - 1].split_whitespace().collect();
			let ev_before = w.c.events.len();
			if !toks.is_empty() {
				w.apply(&toks);
			}
			// let monitor events be processed and messages leave, but keep user events pending
			for n in 0..nn {
				for ev in nodes[n].node.get_and_clear_pending_msg_events() {
					w.handle_msg_event(n, ev);
				}
			}
			let pre_bytes = nodes[x].node.encode();
			let pre_view = view_ids(&nodes[x], &ids, &w.c.chans[x]);
			// (events handled by the op itself, e.g. `events n`, are gone from the pre-drain snapshot already)
			let ev_before = ev_before.max(w.c.events.len());
			// exactly the user events that are pending in the pre-drain snapshot (handling them may raise further
			// events, which are not part of that snapshot)
			if !w.c.evhold[x] {
				for ev in nodes[x].node.get_and_clear_pending_events() {
					w.handle_event(x, ev);
				}
			}
			let ev_pending_end = w.c.events.len();
			w.drain();
			let evs: Vec<(String, String)> = w.c.events[ev_before..ev_pending_end].iter().filter(|(n, _, _)| *n == x).map(|(_, a, b)| (a.clone(), b.clone())).collect();
			let (l, inf, blk, hld) = view_ids(&nodes[x], &ids, &w.c.chans[x]);
			snaps.push(Snap { pre: pre_bytes, post: nodes[x].node.encode(), latest: l, inflight: inf, blocked: blk, hold: hld, pre_view, events_at_step: evs });
		}
		carry = w.c.clone();
	}

	if param(&head, "probe") == Some("1") {
		// only report at which steps the crash node had user events to handle
		let steps: Vec<String> = snaps.iter().enumerate().filter(|(_, s)| !s.events_at_step.is_empty()).map(|(i, _)| i.to_string()).collect();
		partial(format!("\"probe\":true,\"crash\":{},\"event_steps\":[{}]", x, steps.join(",")));
		phase("done");
		std::mem::forget(nodes);
		return;
	}

	// ---- what is on disk
	phase("choose");
	let j = k.saturating_sub(lag);
	let use_pre = pre && lag == 0 && k > 0;
	let mgr_bytes: Vec<u8> = if use_pre { snaps[k].pre.clone() } else { snaps[j].post.clone() };
	let (snap_latest, snap_inflight, snap_blocked, snap_hold) = if use_pre {
		snaps[k].pre_view.clone()
	} else {
		(snaps[j].latest.clone(), snaps[j].inflight.clone(), snaps[j].blocked.clone(), snaps[j].hold.clone())
	};
	let expect_events: Vec<(String, String)> = if use_pre { snaps[k].events_at_step.clone() } else { Vec::new() };
	let mut mon_bytes: Vec<Vec<u8>> = Vec::new();
	let mut mon_ids: HashMap<ChannelId, u64> = HashMap::new();
	let mut mon_range: Vec<String> = Vec::new();
	{
		let open_now: HashSet<ChannelId> = nodes[x].node.list_channels().iter().map(|d| d.channel_id).collect();
		let st = persisters[x].st.lock().unwrap();
		let mut rng = verif_harness::Rng(mon_mode.trim_start_matches("mix").parse::<u64>().unwrap_or(7) ^ ((k as u64) << 20) ^ ((lag as u64) << 8));
		for (chan, _) in carry.chans[x].iter() {
			let writes: Vec<&WriteRec> = st.writes.iter().filter(|w| w.chan == *chan && w.step <= k).collect();
			let completed = *st.completed.get(chan).unwrap_or(&0);
			let maxid = writes.iter().map(|w| w.id).max().unwrap_or(0);
			let chosen = if mon_mode == "min" {
				completed
			} else if mon_mode == "max" {
				maxid
			} else {
				completed + rng.below(maxid - completed + 1)
			};
			let wsel = writes.iter().rev().find(|w| w.id == chosen).expect("a write for every id");
			mon_bytes.push(wsel.bytes.clone());
			mon_ids.insert(*chan, chosen);
			mon_range.push(format!(
				"{{\"chan\":{},\"completed\":{},\"handed\":{},\"chosen\":{},\"open_at_crash\":{}}}",
				js(&cid(chan)), completed, maxid, chosen, open_now.contains(chan)
			));
		}
	}
	let pays_json: Vec<String> = carry
		.pay_order
		.iter()
		.enumerate()
		.map(|(i, h)| {
			let p = &carry.payments[h];
			format!("{{\"tag\":\"p{}\",\"from\":{},\"to\":{},\"sent_step\":{},\"first_chan\":{}}}", i, p.from, p.to, p.sent_step, js(&cid(&p.first_chan)))
		})
		.collect();
	let snap_json: Vec<String> = carry.chans[x]
		.iter()
		.map(|(c, _)| {
			format!(
				"{{\"chan\":{},\"mgr_latest\":{},\"mgr_inflight\":[{}],\"mgr_blocked\":[{}],\"mgr_holding_cell\":{},\"mon\":{}}}",
				js(&cid(c)),
				snap_latest.get(c).map(|v| *v as i64).unwrap_or(-1),
				snap_inflight.get(c).map(|v| v.iter().map(|x| x.to_string()).collect::<Vec<_>>().join(",")).unwrap_or_default(),
				snap_blocked.get(c).map(|v| v.iter().map(|x| x.to_string()).collect::<Vec<_>>().join(",")).unwrap_or_default(),
				snap_hold.get(c).copied().unwrap_or(0),
				mon_ids[c]
			)
		})
		.collect();
	partial(format!(
		"\"crash\":{},\"k\":{},\"lag\":{},\"mon\":{},\"pre\":{},\"recrash\":{},\"recrash_mode\":{},\"path\":{},\"evfail\":{},\"disk\":{},\"snap\":{},\"payments\":{},\"prefix_errs\":{},\"prefix_closed\":{}",
		x, k, lag, js(&mon_mode), use_pre, recrash, recrash_mode, js(&path_mode), jarr(&evfail.iter().map(|e| js(e)).collect::<Vec<_>>()), jarr(&mon_range), jarr(&snap_json), jarr(&pays_json),
		jarr(&carry.errs.iter().map(|e| js(e)).collect::<Vec<_>>()), carry.closed.len()
	));
	let prefix_events = carry.events.len();

	// ---- crash: the peers see a disconnection, everything in flight to/from the node is lost
	phase("reload");
	for p in 0..nn {
		if p != x && carry.connected.contains(&(p.min(x), p.max(x))) {
			nodes[p].node.peer_disconnected(ids[x]);
			carry.connected.remove(&(p.min(x), p.max(x)));
		}
		carry.queues.remove(&(p, x));
		carry.queues.remove(&(x, p));
	}
	// a restarted application handles its events again
	carry.evhold[x] = false;
	// the application never saw PaymentClaimed for these: it calls claim_funds again after the restart
	for h in carry.claiming[x].clone() {
		if !carry.claimables[x].contains(&h) {
			carry.claimables[x].push(h);
		}
	}
	{
		let refs: Vec<&[u8]> = mon_bytes.iter().map(|b| &b[..]).collect();
		reload_node!(nodes[x], &mgr_bytes, &refs, persister_r, chain_monitor_r, node_r);
	}
	partial(",\"read_ok\":true".to_string());

	// ---- first recovery step (the application's event handler may fail for some event kinds)
	phase("recover");
	carry.evfail = evfail.clone();
	carry.evfail_left = if evfail.is_empty() { 0 } else { 6 };
	{
		let mut w = World { nodes: &nodes, persisters: &persisters, ids: ids.clone(), c: carry, crashed: Some(x) };
		w.drain();
		if !recrash {
			// without a second crash the handler recovers after a few more rounds
			w.drain();
			w.c.evfail_left = 0;
			w.drain();
		}
		carry = w.c.clone();
	}
	let after_first: Vec<String> = carry.chans[x]
		.iter()
		.map(|(c, _)| {
			let open = nodes[x].node.list_channels().iter().any(|d| d.channel_id == *c);
			let mid = nodes[x].chain_monitor.chain_monitor.get_monitor(*c).map(|m| m.get_latest_update_id() as i64).unwrap_or(-1);
			let ups: Vec<String> = nodes[x]
				.chain_monitor
				.monitor_updates
				.lock()
				.unwrap()
				.get(c)
				.map(|v| {
					v.iter()
						.map(|u| {
							let kinds: Vec<String> = vh::update_step_kinds(u).iter().map(|k| js(k)).collect();
							format!("[{},{}]", u.update_id, jarr(&kinds))
						})
						.collect()
				})
				.unwrap_or_default();
			format!("{{\"chan\":{},\"open\":{},\"mon_id\":{},\"updates\":{}}}", js(&cid(c)), open, mid, jarr(&ups))
		})
		.collect();
	partial(format!(",\"after_first\":{}", jarr(&after_first)));

	if recrash {
		phase("recrash");
		let mgr2 = if recrash_mode == 2 { mgr_bytes.clone() } else { nodes[x].node.encode() };
		let mut mons2: Vec<Vec<u8>> = Vec::new();
		for (c, _) in carry.chans[x].iter() {
			if let Ok(m) = nodes[x].chain_monitor.chain_monitor.get_monitor(*c) {
				mons2.push(m.encode());
			}
		}
		{
			let refs: Vec<&[u8]> = mons2.iter().map(|b| &b[..]).collect();
			reload_node!(nodes[x], &mgr2, &refs, persister_r2, chain_monitor_r2, node_r2);
		}
		partial(",\"reread_ok\":true".to_string());
		carry.evfail_left = 0;
	}

	// ---- reconnect and run to quiescence
	phase("settle");
	let (closed, events, errs, claim_ops, final_chans, unresolved, scripted_fc, replayed);
	{
		let mut w = World { nodes: &nodes, persisters: &persisters, ids: ids.clone(), c: carry, crashed: Some(x) };
		w.drain();
		w.settle();
		if !w.c.closed.is_empty() {
			phase("onchain");
			let mut spent = HashSet::new();
			let mut deferred = Vec::new();
			w.onchain(&mut spent, &mut deferred);
		}
		// ---- progress probe: every channel of the restarted node that is still open must still carry payments in
		// both directions (a channel left frozen, e.g. with MONITOR_UPDATE_IN_PROGRESS set and nothing in flight,
		// would keep new HTLCs in its holding cell for ever)
		phase("progress");
		let mut probes: Vec<String> = Vec::new();
		if probe_progress {
			for (chan, peer) in w.c.chans[x].clone() {
				let usable = |n: usize| nodes[n].node.list_channels().iter().any(|d| d.channel_id == chan && d.is_usable);
				if !usable(x) || !usable(peer) {
					continue;
				}
				// stage 1: the restarted node pays its peer, nothing else happens on the channel
				let idx = w.c.pay_order.len();
				if !(w.send(x, peer, 1_100_000 + 1000 * idx as u64) && w.c.pay_order.len() == idx + 1) {
					continue;
				}
				let hash = w.c.pay_order[idx];
				let tag = format!("p{}", idx);
				w.drain();
				w.settle();
				let done = |w: &World, tag: &str| w.c.events.iter().any(|(n, name, d)| *n == x && name == "PaymentSent" && d == tag);
				let mut stage = if done(&w, &tag) { "alone" } else { "" };
				let mip_after_alone = vh::monupd_view(nodes[x].node, &ids[peer], &chan).and_then(|v| v.0).map(|v| v.monitor_update_in_progress).unwrap_or(false);
				// stage 2: timer ticks
				if stage.is_empty() {
					nodes[x].node.timer_tick_occurred();
					nodes[x].node.timer_tick_occurred();
					w.drain();
					w.settle();
					if done(&w, &tag) {
						stage = "tick";
					}
				}
				// stage 3: a disconnection and reconnection
				if stage.is_empty() {
					let (lo, hi) = (x.min(peer), x.max(peer));
					w.apply(&["disc", &lo.to_string(), &hi.to_string()]);
					w.drain();
					w.settle();
					if done(&w, &tag) {
						stage = "reconnect";
					}
				}
				// stage 4: traffic from the peer
				let idx2 = w.c.pay_order.len();
				let sent2 = w.send(peer, x, 1_100_000 + 1000 * idx2 as u64) && w.c.pay_order.len() == idx2 + 1;
				w.drain();
				w.settle();
				if stage.is_empty() && done(&w, &tag) {
					stage = "peer_traffic";
				}
				let _ = hash;
				probes.push(format!(
					"{{\"tag\":{},\"from\":{},\"to\":{},\"chan\":{},\"completed_by\":{},\"mip_after_alone\":{}}}",
					js(&tag), x, peer, js(&cid(&chan)), js(if stage.is_empty() { "never" } else { stage }), mip_after_alone
				));
				if sent2 {
					let tag2 = format!("p{}", idx2);
					let ok2 = w.c.events.iter().any(|(n, name, d)| *n == peer && name == "PaymentSent" && *d == tag2);
					probes.push(format!(
						"{{\"tag\":{},\"from\":{},\"to\":{},\"chan\":{},\"completed_by\":{},\"mip_after_alone\":false}}",
						js(&tag2), peer, x, js(&cid(&chan)), js(if ok2 { "alone" } else { "never" })
					));
				}
			}
		}
		let final_view: Vec<String> = w.c.chans[x]
			.iter()
			.filter_map(|(c, peer)| match vh::monupd_view(nodes[x].node, &ids[*peer], c) {
				Some((Some(v), infl, _)) => Some(format!(
					"{{\"chan\":{},\"mip\":{},\"hold\":{},\"blocked\":{},\"inflight\":{}}}",
					js(&cid(c)), v.monitor_update_in_progress, v.holding_cell_htlc_updates, v.blocked_update_ids.len(), infl.len()
				)),
				_ => None,
			})
			.collect();
		partial(format!(",\"probes\":{},\"final_view\":{}", jarr(&probes), jarr(&final_view)));
		phase("summary");
		closed = w.c.closed.clone();
		events = w.c.events[prefix_events..].to_vec();
		errs = w.c.errs.clone();
		claim_ops = w.c.claim_ops.clone();
		scripted_fc = w.c.scripted_fc.clone();
		replayed = w.c.replayed.clone();
		let mut fc = Vec::new();
		for n in 0..nn {
			for d in nodes[n].node.list_channels() {
				fc.push(format!(
					"{{\"n\":{},\"chan\":{},\"in\":{},\"out\":{},\"usable\":{}}}",
					n, js(&cid(&d.channel_id)), d.pending_inbound_htlcs.len(), d.pending_outbound_htlcs.len(), d.is_usable
				));
			}
		}
		final_chans = fc;
		unresolved = w.c.queues.values().map(|q| q.len()).sum::<usize>();
		let all_events: Vec<String> = w.c.events.iter().map(|(n, a, b)| jarr(&[n.to_string(), js(a), js(b)])).collect();
		partial(format!(",\"all_events\":{}", jarr(&all_events)));
		std::mem::forget(w);
	}
	partial(format!(
		",\"scripted_fc\":{},\"handler_refused\":{},\"closed\":{},\"events_after\":{},\"expect_events\":{},\"errs\":{},\"claim_ops\":{},\"final_chans\":{},\"queued\":{}",
		jarr(&scripted_fc.iter().map(|c| js(c)).collect::<Vec<_>>()),
		jarr(&replayed.iter().map(|(n, a, d)| jarr(&[n.to_string(), js(a), js(d)])).collect::<Vec<_>>()),
		jarr(&closed.iter().map(|(n, c, r)| jarr(&[n.to_string(), js(c), js(r)])).collect::<Vec<_>>()),
		jarr(&events.iter().map(|(n, a, b)| jarr(&[n.to_string(), js(a), js(b)])).collect::<Vec<_>>()),
		jarr(&expect_events.iter().map(|(a, b)| jarr(&[js(a), js(b)])).collect::<Vec<_>>()),
		jarr(&errs.iter().map(|e| js(e)).collect::<Vec<_>>()),
		jarr(&claim_ops.iter().map(|e| js(e)).collect::<Vec<_>>()),
		jarr(&final_chans),
		unresolved
	));
	phase("done");
	std::mem::forget(nodes);
}

fn main() {
	panic::set_hook(Box::new(|info| {
		let msg = format!("{}", info);
		LAST_PANIC.with(|p| *p.borrow_mut() = msg.chars().take(500).collect());
	}));
	let args: Vec<String> = std::env::args().collect();
	let input: Box<dyn std::io::BufRead> = match args.get(1) {
		Some(p) if p != "-" => Box::new(std::io::BufReader::new(std::fs::File::open(p).unwrap())),
		_ => Box::new(std::io::BufReader::new(std::io::stdin())),
	};
	if let Some(p) = args.get(2) {
		let f = std::fs::File::create(p).unwrap();
		OUT.with(|o| *o.borrow_mut() = Some(std::io::BufWriter::new(f)));
	}
	use std::io::BufRead;
	for line in input.lines() {
		let l = line.unwrap().trim().to_string();
		if l.is_empty() || l.starts_with('#') {
			continue;
		}
		PARTIAL.with(|p| p.borrow_mut().clear());
		LAST_PANIC.with(|p| p.borrow_mut().clear());
		let r = panic::catch_unwind(AssertUnwindSafe(|| run_trial(&l)));
		let partial = PARTIAL.with(|p| p.borrow().clone());
		let ph = PHASE.with(|p| p.borrow().clone());
		match r {
			Ok(()) => outln!("{{{},\"phase\":{},\"panic\":null}}", partial, js(&ph)),
			Err(_) => {
				let msg = LAST_PANIC.with(|p| p.borrow().clone());
				let sep = if partial.is_empty() { "" } else { "," };
				outln!("{{{}{}\"phase\":{},\"panic\":{}}}", partial, sep, js(&ph), js(&msg));
			},
		}
		use std::io::Write;
		OUT.with(|o| {
			if let Some(f) = o.borrow_mut().as_mut() {
				f.flush().unwrap();
			}
		});
	}
}
