//! C11 trace harness: one channel is brought to a seeded state (pending HTLCs, preimages known or
//! not), the monitors of both nodes are serialized, the channel is closed unilaterally and the two
//! REAL nodes are driven to the end on a reference chain. Then, for each node, clones of the
//! serialized monitor are fed the SAME chain under different deliveries:
//!   0 whole blocks (`Listen::block_connected`)            1 transactions first, then best block
//!   2 best block first, then transactions                3 transactions only, best block every k-th block
//!   4 every call duplicated                              5 all earlier transactions re-delivered each block
//!   6 one `transactions_confirmed` per transaction        7 whole blocks with shallow fork detours
//!   8 `Confirm` style with shallow fork detours (`transaction_unconfirmed`, best block back)
//!   9 a seeded mix of 0/1/2 with duplicates
//! Judged on the real monitors: at the tip every clone of a node has the same claimable balances,
//! relevant txids, best block, outputs to watch, and has produced the same set of monitor events and
//! spendable outputs; no spendable output and no HTLC fail-back appears before the causing transaction
//! is ANTI_REORG_DELAY deep in the clone's own chain; a fork of depth < ANTI_REORG_DELAY leaves no trace
//! (relevant txids right after the disconnect equal those of a clone that saw the same fork emptied).
//! With `model`, every clone also prints its operation list with `get_relevant_txids` after each
//! operation, for comparison with Model/ChainView.v.
//!
//! usage: h_chainview run <first_seed> <count> [model]    one `R {json}` line per scenario
//!        h_chainview replay <seed>
use std::collections::{BTreeMap, BTreeSet, HashMap};
use std::panic::{self, AssertUnwindSafe};
use std::sync::Mutex;

use bitcoin::block::Header;
use bitcoin::{Amount, BlockHash, OutPoint, Transaction, Txid};

use lightning::chain::chaininterface::{BroadcasterInterface, TransactionType};
use lightning::chain::channelmonitor::{ChannelMonitor, ChannelMonitorUpdate, ANTI_REORG_DELAY};
use lightning::chain::verif_hooks_package::monitor_event_summary;
use lightning::chain::BlockLocator;
use lightning::events::bump_transaction::BumpTransactionEvent;
use lightning::events::Event;
use lightning::ln::functional_test_utils::*;
use lightning::ln::channelmanager::PaymentId;
use lightning::ln::msgs::{BaseMessageHandler, ChannelMessageHandler, MessageSendEvent};
use lightning::ln::outbound_payment::RecipientOnionFields;
use lightning::sign::SpendableOutputDescriptor;
use lightning::util::ser::{ReadableArgs, Writeable};
use lightning::util::test_channel_signer::TestChannelSigner;
use lightning::{get_local_commitment_txn, get_route_and_payment_hash};
use verif_harness::Rng;

static PANIC_MSG: Mutex<String> = Mutex::new(String::new());
/// operations of the clone being driven (for failure reports)
static LAST_OPS: Mutex<Vec<String>> = Mutex::new(Vec::new());

struct NullBroadcaster;
impl BroadcasterInterface for NullBroadcaster {
	fn broadcast_transactions(&self, _txs: &[(&Transaction, TransactionType)]) {}
}

struct Fail {
	why: String,
	detail: String,
}
fn fail<T>(why: &str, detail: String) -> Result<T, Fail> {
	Err(Fail { why: why.to_string(), detail })
}

fn jstr(s: &str) -> String {
	let mut o = String::from("\"");
	for c in s.chars() {
		match c {
			'"' => o.push_str("\\\""),
			'\\' => o.push_str("\\\\"),
			'\n' => o.push_str("\\n"),
			c if (c as u32) < 0x20 => o.push(' '),
			c => o.push(c),
		}
	}
	o.push('"');
	o
}

#[derive(Clone)]
struct Blk {
	header: Header,
	height: u32,
	txs: Vec<Transaction>,
	id: u64,
}

/// What a clone has observably produced / currently shows.
#[derive(Default, Clone, PartialEq, Eq, Debug)]
struct View {
	balances: Vec<String>,
	relevant: BTreeSet<(Txid, u32, Option<BlockHash>)>,
	best: (u32, String),
	watch: BTreeSet<String>,
	mon_events: BTreeSet<String>,
	spendable: Vec<String>,
	/// what a ChannelManager read together with this monitor would fail as resolved on chain
	failed_outbound: Vec<String>,
	/// the confirmed, not yet locked alternative (splice) funding
	alt_funding: Option<(Txid, u32)>,
}

/// What a clone shows when its tip is a given real block (for the judge "a reorganisation back to a
/// block leaves everything confirmed up to that block untouched").
#[derive(Clone, PartialEq, Eq, Debug)]
struct Snap {
	relevant: BTreeSet<(Txid, u32, Option<BlockHash>)>,
	balances: Vec<String>,
	failed_outbound: Vec<String>,
	alt_funding: Option<(Txid, u32)>,
}

struct Clone_<'a> {
	mon: ChannelMonitor<TestChannelSigner>,
	km: &'a lightning::util::test_utils::TestKeysInterface,
	fee: &'a lightning::util::test_utils::TestFeeEstimator,
	logger: &'a lightning::util::test_utils::TestLogger,
	mon_events: BTreeSet<String>,
	spendable: Vec<String>,
	/// the clone's own chain: height -> block id, and where each transaction is confirmed
	conf: HashMap<Txid, u32>,
	conf_hash: HashMap<Txid, BlockHash>,
	/// transactions that have been ANTI_REORG_DELAY deep in this clone's chain at some point
	buried: BTreeSet<Txid>,
	/// highest tip this clone was ever told
	max_best: u32,
	commit_txid: Txid,
	/// the splice transaction; a ChannelManager lists it among its relevant txids (and so has a `Confirm`
	/// client unconfirm it) for as long as it has not seen the channel closed
	splice_txid: Option<Txid>,
	seen_close: bool,
	confirm_style: bool,
	trace: Vec<String>,
	txidx: &'a BTreeMap<Txid, usize>,
	blkid: HashMap<BlockHash, u64>,
	want_trace: bool,
	filters: Vec<String>,
}

impl<'a> Clone_<'a> {
	fn observe(&mut self, op: String) -> Result<(), Fail> {
		LAST_OPS.lock().unwrap().push(op.clone());
		let best = self.mon.current_best_block().height;
		self.max_best = self.max_best.max(best);
		for (t, c) in self.conf.iter() {
			if c + ANTI_REORG_DELAY - 1 <= best {
				self.buried.insert(*t);
			}
		}
		for ev in self.mon.get_and_clear_pending_monitor_events() {
			let s = monitor_event_summary(&ev);
			if s.starts_with("htlc:") && s.split(':').nth(2) == Some("0") {
				// a fail-back: irreversible, needs the commitment ANTI_REORG_DELAY deep
				match self.conf.get(&self.commit_txid) {
					_ if self.buried.contains(&self.commit_txid) => {},
					other => {
						return fail(
							"HTLC failed back before the closing transaction was buried",
							format!("{} at best height {} commitment confirmed at {:?}", s, best, other),
						)
					},
				}
			}
			self.mon_events.insert(s);
		}
		let collected: std::cell::RefCell<Vec<Event>> = std::cell::RefCell::new(Vec::new());
		{
			let handler = |ev: Event| -> Result<(), lightning::events::ReplayEvent> {
				collected.borrow_mut().push(ev);
				Ok(())
			};
			let _ = self.mon.process_pending_events(&&handler, self.logger);
		}
		for ev in collected.into_inner() {
			if let Event::SpendableOutputs { outputs, .. } = ev {
				for d in outputs {
					let op = match &d {
						SpendableOutputDescriptor::StaticOutput { outpoint, .. } => outpoint.into_bitcoin_outpoint(),
						SpendableOutputDescriptor::DelayedPaymentOutput(x) => x.outpoint.into_bitcoin_outpoint(),
						SpendableOutputDescriptor::StaticPaymentOutput(x) => x.outpoint.into_bitcoin_outpoint(),
					};
					match self.conf.get(&op.txid) {
						_ if self.buried.contains(&op.txid) => {},
						other => {
							return fail(
								"spendable output announced before its transaction was buried",
								format!("{} at best height {} confirmed at {:?}", op, best, other),
							)
						},
					}
					self.spendable.push(format!("{}", op));
				}
			}
		}
		// what a restart would conclude: a ChannelManager read together with this monitor fails these HTLCs
		// at startup, irreversibly; so none may be listed before the closing transaction is buried
		let failed = self.mon.verif_onchain_failed_outbound_htlcs();
		if !failed.is_empty() && !self.buried.contains(&self.commit_txid) && !std::env::var("VERIF_SKIP_JUDGE").map(|v| v.contains("hook")).unwrap_or(false) {
			return fail(
				"outbound HTLCs are reported as failed on chain (a restart acts on it) before the closing transaction was buried",
				format!("{} HTLC(s), first {}, at best height {} commitment confirmed at {:?} (after {})", failed.len(), failed[0], best, self.conf.get(&self.commit_txid), op),
			);
		}
		self.check_alt(&op)?;
		// every awaiting entry carries the height at which ITS transaction confirmed in this clone's chain
		// (never the tip at the time the entry was created): only then does a reorg retract it exactly
		// when the transaction it depends on is retracted
		// (all entries of the monitor's own list through the read-only hook, not only the one per txid that
		// get_relevant_txids shows; the claim handler's entries through get_relevant_txids)
		let mut listed: Vec<(Txid, u32, Option<BlockHash>, &'static str)> = self.mon.verif_awaiting_entries().into_iter().map(|(t, h, b, _, k)| (t, h, b, k)).collect();
		listed.extend(self.mon.get_relevant_txids().into_iter().map(|(t, h, b)| (t, h, b, "relevant")));
		for (t, h, bh, kind) in listed {
			match self.conf.get(&t) {
				Some(c) if *c == h => {},
				other => {
					return fail(
						"an awaiting entry does not carry the confirmation height of its transaction",
						format!("{} entry on txid {} stamped with height {} but confirmed at {:?} (best height {}, after {})", kind, t, h, other, best, op),
					)
				},
			}
			if let Some(bh) = bh {
				if self.conf_hash.get(&t) != Some(&bh) {
					return fail(
						"an awaiting entry does not carry the block hash of its transaction's confirmation",
						format!("{} entry on txid {} stamped with block {} but confirmed in {:?} (height {}, after {})", kind, t, bh, self.conf_hash.get(&t), h, op),
					);
				}
			}
		}
		for (t, h, _, thr, kind) in self.mon.verif_awaiting_entries() {
			if thr + 1 < h + ANTI_REORG_DELAY {
				return fail("an awaiting entry matures before its transaction is ANTI_REORG_DELAY deep", format!("{} entry on txid {} height {} threshold {}", kind, t, h, thr));
			}
		}
		if self.want_trace {
			let mut rel: Vec<String> = self
				.mon
				.get_relevant_txids()
				.iter()
				.map(|(t, h, b)| format!("{}.{}.{}", self.txidx.get(t).copied().unwrap_or(9999), h, b.and_then(|b| self.blkid.get(&b).copied()).unwrap_or(0)))
				.collect();
			rel.sort();
			self.trace.push(format!("{}={}", op, rel.join(",")));
		}
		Ok(())
	}
	/// the alternative funding is recorded at the height of its confirmation in the clone's chain
	fn check_alt(&self, op: &str) -> Result<(), Fail> {
		if let Some((t, h)) = self.mon.verif_alternative_funding_confirmed() {
			if self.conf.get(&t) != Some(&h) {
				if self.confirm_style && self.seen_close && self.conf.get(&t).is_none() {
					// known behaviour C11-F2 (known_findings.json): once the channel is closed nobody lists a
					// confirmed, not yet locked splice transaction for a `Confirm` client to unconfirm
					return fail(
						"KNOWN:F2-unlisted-alternative-funding-survives-confirm-reorg",
						format!("alternative funding {} recorded at {} is not in the clone's chain any more (after {}); it was in no get_relevant_txids list, and best_block_updated back below it does not forget it", t, h, op),
					);
				}
				return fail(
					"the recorded alternative funding is not confirmed at that height in the clone's chain",
					format!("alternative funding {} at {} but confirmed at {:?} (after {})", t, h, self.conf.get(&t), op),
				);
			}
		}
		Ok(())
	}
	/// `filter_block` on the transactions about to be handed over, against the rule "spends a watched
	/// outpoint, or ANY input spends an output of a transaction matched earlier in the same call"
	fn check_filter(&mut self, txs: &[Transaction]) -> Result<(), Fail> {
		if txs.is_empty() {
			return Ok(());
		}
		let watched: BTreeSet<(Txid, u32)> = self.mon.get_outputs_to_watch().iter().flat_map(|(t, outs)| outs.iter().map(move |(i, _)| (*t, *i))).collect();
		let mut matched: BTreeSet<Txid> = BTreeSet::new();
		let mut expect: Vec<usize> = Vec::new();
		for (i, t) in txs.iter().enumerate() {
			if t.input.iter().any(|inp| watched.contains(&(inp.previous_output.txid, inp.previous_output.vout)) || matched.contains(&inp.previous_output.txid)) {
				matched.insert(t.compute_txid());
				expect.push(i);
			}
		}
		let got = self.mon.verif_filter_block(txs);
		if self.want_trace && txs.len() > 1 {
			// for the model: watched outpoints that matter, the transactions' inputs, the kept positions
			let mut ids: BTreeMap<Txid, usize> = BTreeMap::new();
			let mut id = |t: &Txid| -> usize {
				let n = ids.len() + 1;
				*ids.entry(*t).or_insert(n)
			};
			let txs_s: Vec<String> = txs
				.iter()
				.map(|t| {
					let me = id(&t.compute_txid());
					format!("{}:{}", me, t.input.iter().map(|i| format!("{}.{}", id(&i.previous_output.txid), i.previous_output.vout)).collect::<Vec<_>>().join(","))
				})
				.collect();
			let w: Vec<String> = watched.iter().filter(|(t, _)| ids.contains_key(t)).map(|(t, v)| format!("{}.{}", ids[t], v)).collect();
			self.filters.push(format!("{}|{}|{}", w.join(","), txs_s.join(";"), got.iter().map(|x| x.to_string()).collect::<Vec<_>>().join(",")));
		}
		// (VERIF_SKIP_JUDGE: mutation experiments only, to see which other judge catches a defect)
		if got != expect && !std::env::var("VERIF_SKIP_JUDGE").map(|v| v.contains("filter")).unwrap_or(false) {
			return fail(
				"filter_block does not keep exactly the transactions spending a watched output or any output of a transaction kept earlier in the block",
				format!("kept positions {:?}, rule says {:?}; inputs {:?}", got, expect, txs.iter().map(|t| t.input.iter().map(|i| format!("{}", i.previous_output)).collect::<Vec<_>>()).collect::<Vec<_>>()),
			);
		}
		Ok(())
	}
	/// `Confirm` client: `transaction_unconfirmed` for every listed transaction that sits above `height`
	/// (or, with `blocks`, in one of these blocks): those the monitor lists and the one its manager lists
	fn unconfirm_listed(&mut self, height: u32, blocks: Option<&BTreeSet<BlockHash>>) -> Result<(), Fail> {
		loop {
			let mut stale: Vec<Txid> = self
				.mon
				.get_relevant_txids()
				.into_iter()
				.filter(|(_, h, bh)| match blocks {
					Some(bs) => bh.map(|x| bs.contains(&x)).unwrap_or(false),
					None => *h > height,
				})
				.map(|x| x.0)
				.collect();
			if let (Some(st), false) = (self.splice_txid, self.seen_close) {
				let gone = match blocks {
					Some(bs) => self.conf_hash.get(&st).map(|x| bs.contains(x)).unwrap_or(false) && self.conf.contains_key(&st),
					None => self.conf.get(&st).map(|h| *h > height).unwrap_or(false),
				};
				if gone {
					stale.push(st);
				}
			}
			match stale.first() {
				Some(t) => {
					let t = *t;
					self.tu(&t)?
				},
				None => return Ok(()),
			}
		}
	}
	/// serialize, read back, carry on with what was read (a restart of the monitor)
	fn reload(&mut self) -> Result<(), Fail> {
		let enc = self.mon.encode();
		let before = (self.snap(), self.mon.verif_awaiting_entries());
		let mut rd = &enc[..];
		match <(BlockLocator, ChannelMonitor<TestChannelSigner>)>::read(&mut rd, (self.km, self.km)) {
			Ok((_, m)) => {
				self.mon = m;
				let after = (self.snap(), self.mon.verif_awaiting_entries());
				if before != after {
					return fail("a monitor read back shows another view than the one that was written", format!("{:?} vs {:?}", after, before));
				}
			},
			Err(e) => return fail("serialized monitor does not read back", format!("{:?}", e)),
		}
		self.observe("L".to_string())
	}
	fn snap(&self) -> Snap {
		let mut balances: Vec<String> = self.mon.get_claimable_balances().iter().map(|b| format!("{:?}", b)).collect();
		balances.sort();
		Snap {
			relevant: self.mon.get_relevant_txids().into_iter().collect(),
			balances,
			failed_outbound: self.mon.verif_onchain_failed_outbound_htlcs().iter().map(|h| format!("{}", h)).collect(),
			alt_funding: self.effective_funding(),
		}
	}
	/// the funding transaction the monitor takes for the confirmed one: the alternative funding while it
	/// is recorded, else the current scope's (to which a confirmed alternative is promoted once buried)
	fn effective_funding(&self) -> Option<(Txid, u32)> {
		match self.mon.verif_alternative_funding_confirmed() {
			Some((t, _)) => Some((t, 0)),
			None => Some((self.mon.get_funding_txo().txid, 0)),
		}
	}
	/// the lowest height at which anything now awaiting could mature
	fn min_threshold(&self) -> u32 {
		let a = self.mon.verif_awaiting_entries().iter().map(|x| x.3).min().unwrap_or(u32::MAX);
		let b = self.mon.get_relevant_txids().iter().map(|x| x.1 + ANTI_REORG_DELAY - 1).min().unwrap_or(u32::MAX);
		a.min(b)
	}
	fn tc(&mut self, b: &Blk, txs: &[Transaction]) -> Result<(), Fail> {
		self.check_filter(txs)?;
		let txdata: Vec<(usize, &Transaction)> = txs.iter().enumerate().collect();
		self.mon.transactions_confirmed(&b.header, &txdata, b.height, &NullBroadcaster, self.fee, self.logger);
		for t in txs {
			if t.compute_txid() == self.commit_txid {
				self.seen_close = true;
			}
			self.conf.insert(t.compute_txid(), b.height);
			self.conf_hash.insert(t.compute_txid(), b.header.block_hash());
		}
		let ids: Vec<String> = txs.iter().map(|t| self.txidx[&t.compute_txid()].to_string()).collect();
		self.observe(format!("C{}.{}:{}", b.id, b.height, ids.join(",")))
	}
	fn bb(&mut self, b: &Blk) -> Result<(), Fail> {
		self.mon.best_block_updated(&b.header, b.height, &NullBroadcaster, self.fee, self.logger);
		self.observe(format!("U{}.{}", b.id, b.height))
	}
	fn bc(&mut self, b: &Blk) -> Result<(), Fail> {
		self.check_filter(&b.txs)?;
		let txdata: Vec<(usize, &Transaction)> = b.txs.iter().enumerate().collect();
		self.mon.block_connected(&b.header, &txdata, b.height, &NullBroadcaster, self.fee, self.logger);
		for t in &b.txs {
			if t.compute_txid() == self.commit_txid {
				self.seen_close = true;
			}
			self.conf.insert(t.compute_txid(), b.height);
			self.conf_hash.insert(t.compute_txid(), b.header.block_hash());
		}
		let ids: Vec<String> = b.txs.iter().map(|t| self.txidx[&t.compute_txid()].to_string()).collect();
		self.observe(format!("C{}.{}:{}", b.id, b.height, ids.join(",")))
	}
	fn bd(&mut self, fork_point: &Blk) -> Result<(), Fail> {
		self.mon.blocks_disconnected(BlockLocator::new(fork_point.header.block_hash(), fork_point.height), &NullBroadcaster, self.fee, self.logger);
		self.conf.retain(|_, h| *h <= fork_point.height);
		self.observe(format!("D{}.{}", fork_point.id, fork_point.height))
	}
	fn tu(&mut self, txid: &Txid) -> Result<(), Fail> {
		self.mon.transaction_unconfirmed(txid, &NullBroadcaster, self.fee, self.logger);
		self.conf.remove(txid);
		self.observe(format!("R{}", self.txidx.get(txid).copied().unwrap_or(9999)))
	}
	fn apply_updates(&mut self, ups: &[ChannelMonitorUpdate]) -> Result<(), Fail> {
		for u in ups {
			// refused (Err) after the funding output was spent, but applied all the same
			let _ = self.mon.update_monitor(u, &NullBroadcaster, self.fee, self.logger);
		}
		let dep = self.txidx.get(&self.commit_txid).copied().unwrap_or(9999);
		self.observe(format!("A{}", dep))
	}
	fn view(&self) -> View {
		let mut balances: Vec<String> = self.mon.get_claimable_balances().iter().map(|b| format!("{:?}", b)).collect();
		balances.sort();
		let bb = self.mon.current_best_block();
		View {
			balances,
			relevant: self.mon.get_relevant_txids().into_iter().collect(),
			best: (bb.height, bb.block_hash.to_string()),
			watch: self.mon.get_outputs_to_watch().iter().flat_map(|(t, outs)| outs.iter().map(move |(i, s)| format!("{}:{}:{}", t, i, s.to_hex_string()))).collect(),
			mon_events: self.mon_events.clone(),
			spendable: { let mut v = self.spendable.clone(); v.sort(); v },
			failed_outbound: self.mon.verif_onchain_failed_outbound_htlcs().iter().map(|h| format!("{}", h)).collect(),
			alt_funding: self.effective_funding(),
		}
	}
}

struct Out {
	blocks: usize,
	clones: usize,
	ops: usize,
	detours: usize,
	/// clones that were given monitor updates after the closing transaction had confirmed
	late: usize,
	/// children confirmed in the block of a parent / of those, with the parent-spending input not first
	sameblock: usize,
	nonfirst: usize,
	/// detours whose fork point is the confirmation block of a transaction (it stays) / the block below (it goes)
	boundary_keep: usize,
	boundary_go: usize,
	/// comparisons "back at a block = as when first there" made / skipped because something could mature
	kept_checks: usize,
	kept_skipped: usize,
	reloads: usize,
	splice: bool,
	filters: Vec<String>,
	traces: Vec<String>,
	cfg: String,
}

fn scenario(seed: u64, want_model: bool) -> Result<Out, Fail> {
	let mut rng = Rng(seed.wrapping_mul(0x9E37_79B9_7F4A_7C15) ^ 0xC11C11);
	let chan_type = rng.below(3);
	let closer = rng.below(2) as usize;
	let n_htlcs = rng.below(7) as usize;
	let mut chanmon_cfgs = create_chanmon_cfgs(2);
	chanmon_cfgs[0].keys_manager.disable_revocation_policy_check = true;
	chanmon_cfgs[1].keys_manager.disable_revocation_policy_check = true;
	let node_cfgs = create_node_cfgs(2, &chanmon_cfgs);
	let mut user_config = test_legacy_channel_config();
	user_config.channel_handshake_config.negotiate_anchors_zero_fee_htlc_tx = chan_type == 1;
	user_config.channel_handshake_config.negotiate_anchor_zero_fee_commitments = chan_type == 2;
	let node_chanmgrs = create_node_chanmgrs(2, &node_cfgs, &[Some(user_config.clone()), Some(user_config)]);
	let nodes = std::mem::ManuallyDrop::new(create_network(2, &node_cfgs, &node_chanmgrs));
	for i in 0..2 {
		*nodes[i].connect_style.borrow_mut() = ConnectStyle::FullBlockViaListen;
	}
	let ids = [nodes[0].node.get_our_node_id(), nodes[1].node.get_our_node_id()];
	provide_utxo_reserves(&nodes, 24, Amount::from_sat(50_000_000));
	let (_, _, chan_id, funding_tx) = create_announced_chan_between_nodes_with_value(&nodes, 0, 1, 1_000_000, 300_000_000);
	let funding_outpoint = OutPoint { txid: funding_tx.compute_txid(), vout: 0 };
	// ---- in one scenario of four a splice is negotiated first: its transaction confirms on the reference
	// chain but is never locked (no messages pass), and the channel is closed on top of it
	let mut rs = Rng(seed.wrapping_mul(0xC2B2_AE3D_27D4_EB4F) ^ 0x5911CE);
	let splice = rs.below(4) == 0;
	let mut splice_tx: Option<Transaction> = None;
	if splice {
		use lightning::ln::splicing_tests::{do_initiate_splice_in, splice_channel};
		let who = rs.below(2) as usize;
		let contribution = do_initiate_splice_in(&nodes[who], &nodes[1 - who], chan_id, Amount::from_sat(150_000 + rs.below(300_000)));
		let (tx, _) = splice_channel(&nodes[who], &nodes[1 - who], chan_id, contribution);
		splice_tx = Some(tx);
	}
	let splice_txid = splice_tx.as_ref().map(|t| t.compute_txid());
	let splice_wait = rs.below(9) as u32;
	let mut used = BTreeSet::new();
	let mut claims: Vec<(usize, lightning::types::payment::PaymentPreimage)> = Vec::new();
	let mut htlc_descr = Vec::new();
	for _ in 0..n_htlcs {
		let from = rng.below(2) as usize;
		let sat = loop {
			let s = if rng.below(4) == 0 { 1 + rng.below(352) } else { 1_000 + rng.below(12_500) };
			if s != 330 && s != 240 && used.insert(s) {
				break s;
			}
		};
		let (preimage, _hash, _, _) = route_payment(&nodes[from], &[&nodes[1 - from]], sat * 1000 + rng.below(1000));
		let know = rng.below(2) == 0;
		if know {
			claims.push((1 - from, preimage));
		}
		htlc_descr.push(format!("[{},{},{}]", from, sat, know));
		if rng.below(3) == 0 {
			let k = 1 + rng.below(3) as u32;
			connect_blocks(&nodes[0], k);
			connect_blocks(&nodes[1], k);
		}
	}
	for (n, p) in claims.iter() {
		nodes[*n].node.claim_funds(*p);
	}
	let drain = |i: usize| {
		nodes[i].node.get_and_clear_pending_events();
		nodes[i].node.get_and_clear_pending_msg_events();
		nodes[i].chain_monitor.added_monitors.lock().unwrap().clear();
	};
	drain(0);
	drain(1);
	let cfg = format!("{{\"chan_type\":{},\"closer\":{},\"splice\":{},\"htlcs\":[{}]}}", chan_type, closer, splice, htlc_descr.join(","));
	// the closing transaction: the closer's current commitment; with a splice, the closer's commitment on the
	// splice funding, obtained from its monitor once the splice transaction has confirmed
	let mut commitment: Option<Transaction> = if splice { None } else { Some(get_local_commitment_txn!(nodes[closer], chan_id)[0].clone()) };
	if nodes[0].best_block_info() != nodes[1].best_block_info() {
		return fail("harness: nodes on different chains", String::new());
	}
	// ---- snapshot of both monitors before anything happens on chain
	let snaps: Vec<Vec<u8>> = (0..2).map(|i| nodes[i].chain_monitor.chain_monitor.get_monitor(chan_id).unwrap().encode()).collect();
	let snap_update_id: Vec<u64> = (0..2).map(|i| nodes[i].chain_monitor.chain_monitor.get_monitor(chan_id).unwrap().get_latest_update_id()).collect();
	// ---- updates dispatched after the snapshot: a new outbound HTLC (new counterparty commitment for
	// the sender, new holder commitment for the receiver), sometimes the whole round trip. The channel is
	// nevertheless closed by the commitment captured above, so the new HTLC is in no confirmed transaction.
	let mut rx = Rng(seed.wrapping_mul(0xA24B_AED4_963E_E407) ^ 0x1A7E);
	let n_late = rx.below(3);
	if n_late > 0 {
		let x = rx.below(2) as usize;
		let y = 1 - x;
		let amt = if rx.below(3) == 0 { 100_000 + rx.below(200_000) } else { 1_500_000 + rx.below(6_000_000) };
		let (route, hash, _pre, secret) = get_route_and_payment_hash!(nodes[x], nodes[y], amt);
		if nodes[x].node.send_payment_with_route(route, hash, RecipientOnionFields::secret_only(secret, amt), PaymentId(hash.0)).is_ok() {
			let mut evs = nodes[x].node.get_and_clear_pending_msg_events();
			if !evs.is_empty() {
				let ev = SendEvent::from_event(evs.remove(0));
				nodes[y].node.handle_update_add_htlc(ids[x], &ev.msgs[0]);
				nodes[y].node.handle_commitment_signed_batch_test(ids[x], &ev.commitment_msg);
				// only if the sender closes: otherwise the receiver's old commitment would be REVOKED (C06's subject)
				if n_late == 2 && closer == x {
					// y's revocation and commitment go back to x; x's answer is lost
					for m in nodes[y].node.get_and_clear_pending_msg_events() {
						match m {
							MessageSendEvent::SendRevokeAndACK { msg, .. } => nodes[x].node.handle_revoke_and_ack(ids[y], &msg),
							MessageSendEvent::UpdateHTLCs { updates, .. } => nodes[x].node.handle_commitment_signed_batch_test(ids[y], &updates.commitment_signed),
							_ => {},
						}
					}
				}
			}
		}
		drain(0);
		drain(1);
	}
	let late_updates: Vec<Vec<ChannelMonitorUpdate>> = (0..2)
		.map(|i| {
			nodes[i].chain_monitor.monitor_updates.lock().unwrap().get(&chan_id).map(|v| v.iter().filter(|u| u.update_id > snap_update_id[i]).cloned().collect()).unwrap_or_default()
		})
		.collect();
	let start_height = nodes[0].best_block_info().1;
	let start_hash = nodes[0].best_block_hash();
	let start_blk = Blk { header: nodes[0].get_block_header(start_height), height: start_height, txs: vec![], id: start_height as u64 };
	if start_blk.header.block_hash() != start_hash {
		return fail("harness: header bookkeeping", String::new());
	}

	// ---- reference run on the real nodes
	nodes[0].tx_broadcaster.txn_broadcast();
	nodes[1].tx_broadcaster.txn_broadcast();
	let mut spent: BTreeSet<OutPoint> = BTreeSet::new();
	let mut confirmed: BTreeSet<Txid> = BTreeSet::new();
	let mut known_out: BTreeSet<Txid> = BTreeSet::new();
	known_out.insert(funding_tx.compute_txid());
	let mut mempool: Vec<(Transaction, u32)> = match (&commitment, &splice_tx) {
		(Some(c), _) => vec![(c.clone(), start_height + 1)],
		(None, Some(t)) => vec![(t.clone(), start_height + 1 + rs.below(3) as u32)],
		_ => unreachable!(),
	};
	let mut splice_height: Option<u32> = None;
	let mut funding_outpoints: BTreeSet<OutPoint> = BTreeSet::new();
	funding_outpoints.insert(funding_outpoint);
	if let Some(t) = &splice_tx {
		for (i, o) in t.output.iter().enumerate() {
			if o.script_pubkey.is_p2wsh() {
				funding_outpoints.insert(OutPoint { txid: t.compute_txid(), vout: i as u32 });
			}
		}
	}
	let mut chain: Vec<Blk> = Vec::new();
	let mut height = start_height;
	let mut idle = 0;
	loop {
		let want_commitment = commitment.is_none() && splice_height.map(|h| height >= h + splice_wait).unwrap_or(false);
		if want_commitment {
			let mon = nodes[closer].chain_monitor.chain_monitor.get_monitor(chan_id).unwrap();
			mon.broadcast_latest_holder_commitment_txn(&nodes[closer].tx_broadcaster, &nodes[closer].fee_estimator, &nodes[closer].logger);
		}
		for n in 0..2 {
			for _ in 0..3 {
				let evs = nodes[n].chain_monitor.chain_monitor.get_and_clear_pending_events();
				if evs.is_empty() {
					break;
				}
				for ev in evs {
					if let Event::BumpTransaction(b) = ev {
						if let BumpTransactionEvent::ChannelClose { commitment_tx, .. } = &b {
							if want_commitment && n == closer && commitment.is_none() && commitment_tx.input.iter().any(|i| Some(i.previous_output.txid) == splice_txid) {
								commitment = Some(commitment_tx.clone());
								mempool.push((commitment_tx.clone(), height + 1));
							}
							continue; // the commitment is mined by the harness
						}
						nodes[n].bump_tx_handler.handle_event(&b);
					}
				}
			}
			drain(n);
			for tx in nodes[n].tx_broadcaster.txn_broadcast() {
				let txid = tx.compute_txid();
				if confirmed.contains(&txid) || mempool.iter().any(|(t, _)| t.compute_txid() == txid) {
					continue;
				}
				if tx.input.len() == 1 && funding_outpoints.contains(&tx.input[0].previous_output) && Some(txid) != commitment.as_ref().map(|c| c.compute_txid()) {
					if want_commitment && n == closer && commitment.is_none() && Some(tx.input[0].previous_output.txid) == splice_txid {
						commitment = Some(tx.clone());
						mempool.push((tx, height + 1));
					}
					continue; // only the planned commitment closes the channel
				}
				if Some(txid) == splice_txid {
					continue;
				}
				let delay = [0u64, 0, 0, 1, 2, 4, 9][rng.below(7) as usize] as u32;
				mempool.push((tx, height + 1 + delay));
			}
		}
		let done = height > start_height + 3
			&& (0..2).all(|n| nodes[n].chain_monitor.chain_monitor.get_monitor(chan_id).unwrap().get_claimable_balances().is_empty());
		if done {
			idle += 1;
			if idle > 7 {
				break;
			}
		}
		if height - start_height > 330 {
			break;
		}
		let new_height = height + 1;
		let mut chosen: Vec<Transaction> = Vec::new();
		let mut block_spent: BTreeSet<OutPoint> = BTreeSet::new();
		let mut in_block: BTreeSet<Txid> = BTreeSet::new();
		let mut progress = true;
		while progress {
			progress = false;
			for (tx, ready) in mempool.iter() {
				let txid = tx.compute_txid();
				if in_block.contains(&txid) || *ready > new_height {
					continue;
				}
				let lt = tx.lock_time.to_consensus_u32();
				if lt < 500_000_000 && lt >= new_height && tx.input.iter().any(|i| i.sequence.0 != 0xffff_ffff) {
					continue;
				}
				let ok = tx.input.iter().all(|i| {
					!spent.contains(&i.previous_output)
						&& !block_spent.contains(&i.previous_output)
						&& (known_out.contains(&i.previous_output.txid) || in_block.contains(&i.previous_output.txid) || Some(i.previous_output.txid) != commitment.as_ref().map(|c| c.compute_txid()) && !mempool.iter().any(|(t, _)| t.compute_txid() == i.previous_output.txid))
				});
				// CSV of 1 on anchor-channel outputs: never in the parent's own block
				let csv_ok = tx.input.iter().all(|i| {
					let n = i.sequence.0;
					n & (1 << 31) != 0 || (n & 0xffff) == 0 || !in_block.contains(&i.previous_output.txid)
				});
				if !ok || !csv_ok {
					continue;
				}
				for i in &tx.input {
					block_spent.insert(i.previous_output);
				}
				in_block.insert(txid);
				chosen.push(tx.clone());
				progress = true;
			}
		}
		let block = create_dummy_block(nodes[0].best_block_hash(), new_height, chosen.clone());
		for n in 0..2 {
			connect_block(&nodes[n], &block);
		}
		for tx in &chosen {
			let txid = tx.compute_txid();
			if Some(txid) == splice_txid {
				splice_height = Some(new_height);
			}
			confirmed.insert(txid);
			known_out.insert(txid);
			for i in &tx.input {
				spent.insert(i.previous_output);
			}
		}
		mempool.retain(|(t, _)| !confirmed.contains(&t.compute_txid()) && t.input.iter().all(|i| !spent.contains(&i.previous_output)));
		chain.push(Blk { header: block.header, height: new_height, txs: chosen, id: new_height as u64 });
		height = new_height;
	}
	let ctxid = match commitment.as_ref().map(|c| c.compute_txid()) {
		Some(t) if confirmed.contains(&t) => t,
		_ => return fail("harness: commitment never confirmed", format!("splice {} confirmed at {:?}", splice, splice_height)),
	};
	let mut out = Out {
		blocks: chain.len(), clones: 0, ops: 0, detours: 0, late: 0, sameblock: 0, nonfirst: 0, boundary_keep: 0, boundary_go: 0,
		kept_checks: 0, kept_skipped: 0, reloads: 0, splice, filters: Vec::new(), traces: Vec::new(), cfg,
	};

	// ---- the chain the clones are told is the reference chain with (seeded) changes that keep it a valid
	// chain for a monitor (which checks no signatures): a spend of an output of the closing transaction or
	// of one of its descendants is moved up into its parent's block where time locks allow, and is given
	// one or two foreign inputs at seeded positions (as sweepers of other implementations batch), so that
	// the input spending the parent is first, in the middle, or last. Descendants follow the new txids.
	{
		let mut rel: BTreeSet<Txid> = BTreeSet::new();
		rel.insert(ctxid);
		let mut rename: HashMap<Txid, Txid> = HashMap::new();
		let mut where_: HashMap<Txid, usize> = HashMap::new();
		where_.insert(ctxid, chain.iter().position(|b| b.txs.iter().any(|t| t.compute_txid() == ctxid)).unwrap());
		let mut dummy = 0u8;
		for j in 0..chain.len() {
			let txs = std::mem::take(&mut chain[j].txs);
			let mut keep: Vec<Transaction> = Vec::new();
			for mut t in txs {
				let old = t.compute_txid();
				if old == ctxid {
					keep.push(t);
					continue;
				}
				for i in t.input.iter_mut() {
					if let Some(n) = rename.get(&i.previous_output.txid) {
						i.previous_output.txid = *n;
					}
				}
				let parents: Vec<Txid> = t.input.iter().map(|i| i.previous_output.txid).filter(|p| rel.contains(p)).collect();
				if parents.is_empty() {
					keep.push(t);
					continue;
				}
				if rs.below(4) != 0 {
					for _ in 0..(1 + rs.below(2)) {
						dummy = dummy.wrapping_add(1);
						let at = if rs.below(2) == 0 { 0 } else { rs.below(t.input.len() as u64 + 1) as usize };
						t.input.insert(
							at,
							bitcoin::TxIn {
								previous_output: OutPoint { txid: Txid::from_raw_hash(bitcoin::hashes::Hash::from_byte_array([0x40u8.wrapping_add(dummy); 32])), vout: 3 },
								script_sig: bitcoin::ScriptBuf::new(),
								sequence: bitcoin::Sequence::ENABLE_RBF_NO_LOCKTIME,
								witness: bitcoin::Witness::new(),
							},
						);
					}
				}
				let new = t.compute_txid();
				if new != old {
					rename.insert(old, new);
				}
				rel.insert(new);
				// move up into the block of the latest parent?
				let pj = parents.iter().map(|p| where_[p]).max().unwrap();
				let lt = t.lock_time.to_consensus_u32();
				let final_ = t.input.iter().all(|i| i.sequence.0 == 0xffff_ffff);
				let lock_ok = final_ || lt >= 500_000_000 || lt < chain[pj].height;
				let csv_ok = t.version.0 < 2 || t.input.iter().all(|i| !rel.contains(&i.previous_output.txid) || i.sequence.0 & (1 << 31) != 0 || (i.sequence.0 & 0xffff) == 0);
				if pj < j && lock_ok && csv_ok && rs.below(5) != 0 {
					where_.insert(new, pj);
					chain[pj].txs.push(t);
				} else {
					where_.insert(new, j);
					keep.push(t);
				}
			}
			// (transactions moved up from later blocks were appended to earlier blocks only)
			let moved_here = std::mem::take(&mut chain[j].txs);
			keep.extend(moved_here);
			chain[j].txs = keep;
		}
		for b in chain.iter() {
			let here: BTreeSet<Txid> = b.txs.iter().map(|t| t.compute_txid()).collect();
			for t in b.txs.iter() {
				if let Some(pos) = t.input.iter().position(|i| here.contains(&i.previous_output.txid)) {
					out.sameblock += 1;
					if pos > 0 {
						out.nonfirst += 1;
					}
				}
			}
		}
	}

	// ---- transaction table
	let mut txidx: BTreeMap<Txid, usize> = BTreeMap::new();
	for b in &chain {
		for t in &b.txs {
			let n = txidx.len();
			txidx.entry(t.compute_txid()).or_insert(n);
		}
	}
	let mut blkid: HashMap<BlockHash, u64> = HashMap::new();
	blkid.insert(start_hash, start_blk.id);
	for b in &chain {
		blkid.insert(b.header.block_hash(), b.id);
	}

	let mut next_fork_id = 1_000_000u64;
	for node in 0..2 {
		let mut reference: Option<View> = None;
		let mut deltas: Vec<String> = Vec::new();
		for style in 0..10u64 {
			let mut rd = &snaps[node][..];
			let (_, mon) = match <(BlockLocator, ChannelMonitor<TestChannelSigner>)>::read(&mut rd, (nodes[node].keys_manager, nodes[node].keys_manager)) {
				Ok(x) => x,
				Err(e) => return fail("serialized monitor does not read back", format!("{:?}", e)),
			};
			LAST_OPS.lock().unwrap().clear();
			let mut c = Clone_ {
				mon,
				km: nodes[node].keys_manager,
				fee: nodes[node].fee_estimator,
				logger: nodes[node].logger,
				mon_events: BTreeSet::new(),
				spendable: Vec::new(),
				conf: HashMap::new(),
				conf_hash: HashMap::new(),
				buried: BTreeSet::new(),
				max_best: 0,
				commit_txid: ctxid,
				splice_txid,
				seen_close: false,
				confirm_style: style == 8,
				trace: Vec::new(),
				txidx: &txidx,
				blkid: blkid.clone(),
				want_trace: want_model || style == 0,
				filters: Vec::new(),
			};
			let mut r2 = Rng(seed ^ (style + 1).wrapping_mul(0xD1B5_4A32_D192_ED03) ^ (node as u64) << 40);
			let k_skip = 2 + r2.below(6) as usize;
			// detour positions for styles 7, 8
			let mut detour_at: BTreeSet<usize> = BTreeSet::new();
			if style == 7 || style == 8 {
				// mostly where it matters: at blocks that carry transactions
				let busy: Vec<usize> = (0..chain.len()).filter(|i| !chain[*i].txs.is_empty()).collect();
				for _ in 0..(1 + r2.below(3)) {
					if !busy.is_empty() && r2.below(4) != 0 {
						detour_at.insert(busy[r2.below(busy.len() as u64) as usize]);
					} else {
						detour_at.insert(r2.below(chain.len() as u64) as usize);
					}
				}
			}
			// where the commitment confirms, when the late monitor updates are applied (None: before any block;
			// Some(i): right after block i was delivered), detours that first rewind some real blocks
			let ci = chain.iter().position(|x| x.txs.iter().any(|t| t.compute_txid() == ctxid)).unwrap_or(0);
			let mut upd_idx: Option<usize> = if style == 0 || r2.below(3) == 0 { None } else { Some((ci + r2.below(8) as usize).min(chain.len() - 1)) };
			let mut rewind: BTreeMap<usize, usize> = BTreeMap::new();
			if style == 7 || style == 8 {
				for d in detour_at.iter() {
					if r2.below(2) == 0 && *d > 0 {
						rewind.insert(*d, 1 + r2.below((*d).min(4) as u64) as usize);
					}
				}
				if r2.below(3) != 0 && ci + 7 < chain.len() {
					// aimed at the window between confirmation and burial of the closing transaction: updates
					// applied at some depth, then a reorganisation that does not reach the closing transaction
					let dd = 1 + r2.below(5) as usize;
					let at = ci + 1 + dd;
					detour_at.insert(at);
					rewind.insert(at, 1 + r2.below(dd as u64) as usize);
					if !late_updates[node].is_empty() {
						upd_idx = Some(ci + 1 + r2.below(dd as u64) as usize);
					}
				}
			}
			// boundary cases: the fork point is EXACTLY the block in which a transaction confirmed (it stays
			// confirmed, with all its effects) or the block below (it goes), without or after a rewind
			let mut boundary: BTreeMap<usize, bool> = BTreeMap::new();
			if style == 7 || style == 8 {
				let busy: Vec<usize> = (0..chain.len()).filter(|i| !chain[*i].txs.is_empty()).collect();
				for _ in 0..(1 + r2.below(3)) {
					if busy.is_empty() {
						break;
					}
					let j = busy[r2.below(busy.len() as u64) as usize];
					let back = r2.below(4) as usize;
					let keep = r2.below(3) != 0;
					let at = if keep { j + 1 + back } else { j + back };
					if at < chain.len() && at > back {
						detour_at.insert(at);
						rewind.insert(at, back);
						boundary.insert(at, keep);
					}
				}
			}
			// monitor restarts (serialize, read back) after seeded blocks
			let mut reload_at: BTreeSet<usize> = BTreeSet::new();
			if style != 0 && r2.below(3) == 0 {
				for _ in 0..(1 + r2.below(3)) {
					reload_at.insert(if r2.below(2) == 0 { (ci + r2.below(9) as usize).min(chain.len() - 1) } else { r2.below(chain.len() as u64) as usize });
				}
			}
			// what the clone showed when its tip was a given real block, and the lowest height at which
			// something then awaiting could mature
			let mut hist: BTreeMap<usize, (Snap, u32, u32)> = BTreeMap::new();
			// only updates a deferred monitor write can really delay past the close: new counterparty
			// commitments (a holder-commitment update cannot follow the holder's own broadcast)
			let can_be_late = late_updates[node].iter().all(|u| lightning::ln::verif_hooks::update_step_kinds(u).iter().all(|k| k.starts_with("LatestCounterpartyCommitment")));
			// with a splice the closing commitment is the closer's latest, taken after these updates: the
			// counterparty cannot have it before they were persisted
			if !can_be_late || splice {
				upd_idx = None;
			}
			if late_updates[node].is_empty() {
				upd_idx = None;
			} else if upd_idx.is_none() {
				c.apply_updates(&late_updates[node])?;
			}
			for (bi, b) in chain.iter().enumerate() {
				let last = bi + 1 == chain.len();
				if detour_at.contains(&bi) {
					// fork on top of the block before `b` (or, rewinding, of an earlier one): the next real
					// blocks' transactions, shifted
					out.detours += 1;
					let depth = 1 + r2.below(ANTI_REORG_DELAY as u64 - 1) as usize;
					let mut back = rewind.get(&bi).copied().unwrap_or(0).min(bi);
					// shallow only: never disconnect ANTI_REORG_DELAY or more blocks below the highest tip this
					// clone has seen (an earlier detour may have carried it above the real chain)
					while back > 0 && (if bi == back { start_blk.height } else { chain[bi - 1 - back].height }) + ANTI_REORG_DELAY <= c.max_best {
						back -= 1;
					}
					let fp = if bi == back { start_blk.clone() } else { chain[bi - 1 - back].clone() };
					if let Some(keep) = boundary.get(&bi) {
						if back == rewind.get(&bi).copied().unwrap_or(0) {
							if *keep {
								out.boundary_keep += 1;
							} else {
								out.boundary_go += 1;
							}
						}
					}
					if back > 0 {
						// the last `back` real blocks are disconnected first (and delivered again afterwards)
						if style == 7 {
							c.bd(&fp)?;
						} else {
							c.unconfirm_listed(fp.height, None)?;
							c.conf.retain(|_, h| *h <= fp.height);
							c.bb(&fp)?;
							c.check_alt("the rewind")?;
						}
					}
					let mut prev = fp.header.block_hash();
					let mut fork: Vec<Blk> = Vec::new();
					// (with the rewound blocks' own transactions first, so that no child comes without its parent)
					let mut pool: Vec<Transaction> = chain[bi - back..(bi + 2).min(chain.len())].iter().flat_map(|x| x.txs.clone()).collect();
					for d in 0..depth {
						let txs: Vec<Transaction> = if d == 0 && r2.below(3) != 0 { std::mem::take(&mut pool) } else { Vec::new() };
						let blk = create_dummy_block(prev, 7_000_000 + next_fork_id as u32, txs.clone());
						prev = blk.header.block_hash();
						let fb = Blk { header: blk.header, height: fp.height + 1 + d as u32, txs, id: next_fork_id };
						c.blkid.insert(prev, next_fork_id);
						next_fork_id += 1;
						fork.push(fb);
					}
					// the same detour with emptied blocks, on a copy of the clone
					let mut rd2 = &c.mon.encode()[..];
					let (_, mon2) = <(BlockLocator, ChannelMonitor<TestChannelSigner>)>::read(&mut rd2, (nodes[node].keys_manager, nodes[node].keys_manager)).unwrap();
					for fb in &fork {
						if style == 7 {
							c.bc(fb)?;
						} else {
							c.tc(fb, &fb.txs)?;
							c.bb(fb)?;
						}
						mon2.block_connected(&fb.header, &[], fb.height, &NullBroadcaster, nodes[node].fee_estimator, nodes[node].logger);
					}
					for v in hist.values_mut() {
						v.2 = v.2.max(fp.height + depth as u32);
					}
					if style == 7 {
						c.bd(&fp)?;
					} else {
						let fork_hashes: BTreeSet<BlockHash> = fork.iter().map(|x| x.header.block_hash()).collect();
						let best_first = r2.below(2) == 0;
						if best_first {
							// the reorg branch of best_block_updated alone must retract the fork
							c.bb(&fp)?;
							let left: Vec<_> = c.mon.get_relevant_txids().into_iter().filter(|(_, h, _)| *h > fp.height).collect();
							if !left.is_empty() {
								return fail(
									"best_block_updated back to the fork point left confirmations above it",
									format!("node {} fork point {}: {:?}", node, fp.height, left),
								);
							}
						}
						c.unconfirm_listed(fp.height, Some(&fork_hashes))?;
						if best_first {
							c.conf.retain(|_, h| *h <= fp.height);
						}
						if !best_first {
							// best block back to the fork point (lower height, other hash: the reorg branch)
							c.conf.retain(|_, h| *h <= fp.height);
							c.bb(&fp)?;
						}
					}
					c.check_alt("the detour")?;
					mon2.blocks_disconnected(BlockLocator::new(fp.header.block_hash(), fp.height), &NullBroadcaster, nodes[node].fee_estimator, nodes[node].logger);
					let a: BTreeSet<_> = c.mon.get_relevant_txids().into_iter().collect();
					let e: BTreeSet<_> = mon2.get_relevant_txids().into_iter().collect();
					let ba: Vec<String> = c.mon.get_claimable_balances().iter().map(|b| format!("{:?}", b)).collect();
					let be: Vec<String> = mon2.get_claimable_balances().iter().map(|b| format!("{:?}", b)).collect();
					if a != e || ba != be {
						return fail(
							"a shallow fork left a trace after it was disconnected",
							format!("node {} style {} fork of depth {} on height {}: relevant {:?} vs {:?}; balances {:?} vs {:?}", node, style, depth, fp.height, a, e, ba, be),
						);
					}
					// back at the fork point: everything confirmed up to it keeps all its effects. Compared with
					// what this clone showed when the fork point was its tip before, unless something then
					// awaiting could legitimately have matured on the blocks above (real or fork)
					if bi > back {
						if let Some((snap, min_thr, max_since)) = hist.get(&(bi - 1 - back)) {
							if *min_thr > (*max_since).max(fp.height + depth as u32) {
								out.kept_checks += 1;
								let now = c.snap();
								if &now != snap {
									return fail(
										"a reorganisation back to a block changed what was concluded from the blocks that were kept",
										format!("node {} style {} back at height {} (after fork of depth {}, {} real blocks rewound): now {:?} before {:?}", node, style, fp.height, depth, back, now, snap),
									);
								}
							} else {
								out.kept_skipped += 1;
							}
						}
					}
					for (k, rb) in chain[bi - back..bi].iter().enumerate() {
						if style == 7 {
							c.bc(rb)?;
						} else {
							c.tc(rb, &rb.txs)?;
							c.bb(rb)?;
						}
						for v in hist.values_mut() {
							v.2 = v.2.max(rb.height);
						}
						hist.insert(bi - back + k, (c.snap(), c.min_threshold(), rb.height));
					}
				}
				match style {
					0 | 7 => c.bc(b)?,
					1 | 8 => {
						c.tc(b, &b.txs)?;
						c.bb(b)?;
					},
					2 => {
						c.bb(b)?;
						c.tc(b, &b.txs)?;
					},
					3 => {
						if !b.txs.is_empty() {
							c.tc(b, &b.txs)?;
						}
						if bi % k_skip == 0 || last {
							c.bb(b)?;
						}
					},
					4 => {
						c.tc(b, &b.txs)?;
						c.tc(b, &b.txs)?;
						c.bb(b)?;
						c.bb(b)?;
					},
					5 => {
						for ob in chain[..bi].iter().filter(|x| !x.txs.is_empty()) {
							c.tc(ob, &ob.txs)?;
						}
						c.tc(b, &b.txs)?;
						c.bb(b)?;
					},
					6 => {
						for t in b.txs.iter() {
							c.tc(b, std::slice::from_ref(t))?;
						}
						c.bb(b)?;
					},
					_ => match r2.below(4) {
						0 => c.bc(b)?,
						1 => {
							c.tc(b, &b.txs)?;
							c.bb(b)?;
							c.tc(b, &b.txs)?;
						},
						2 => {
							c.bb(b)?;
							c.tc(b, &b.txs)?;
							c.bb(b)?;
						},
						_ => {
							c.bc(b)?;
							c.bc(b)?;
						},
					},
				}
				if reload_at.contains(&bi) {
					out.reloads += 1;
					c.reload()?;
				}
				if upd_idx == Some(bi) {
					if bi >= ci {
						out.late += 1;
					}
					c.apply_updates(&late_updates[node])?;
					// what was shown at earlier blocks was shown without these updates
					hist.clear();
				}
				if style == 7 || style == 8 {
					for v in hist.values_mut() {
						v.2 = v.2.max(b.height);
					}
					hist.insert(bi, (c.snap(), c.min_threshold(), b.height));
					if bi >= 8 {
						hist.remove(&(bi - 8));
					}
				}
			}
			out.clones += 1;
			out.ops += c.trace.len();
			let v = c.view();
			if style == 0 {
				// calibration of the model's per-transaction confirmation counts from the reference clone
				let mut first: HashMap<usize, (u32, Option<u32>)> = HashMap::new();
				for t in c.trace.iter() {
					let (op, obs) = t.split_once('=').unwrap();
					if op.starts_with('A') || op.starts_with('R') || op.starts_with('L') {
						continue;
					}
					let h: u32 = op[1..].split(':').next().unwrap().split('.').nth(1).unwrap().parse().unwrap();
					let present: BTreeSet<usize> = obs.split(',').filter(|x| !x.is_empty()).map(|x| x.split('.').next().unwrap().parse().unwrap()).collect();
					for p in present.iter() {
						first.entry(*p).or_insert((h, None));
					}
					for (k, v) in first.iter_mut() {
						if v.1.is_none() && !present.contains(k) {
							v.1 = Some(h);
						}
					}
				}
				deltas = (0..txidx.len())
					.map(|i| match first.get(&i) {
						Some((c0, Some(gone))) => format!("{}:{}", i, gone - c0 + 1),
						Some((_, None)) => format!("{}:{}", i, 100_000),
						None => format!("{}:-1", i),
					})
					.collect();
				for (i, d) in deltas.iter().enumerate() {
					let dv: i64 = d.split(':').nth(1).unwrap().parse().unwrap();
					if dv >= 0 && dv < ANTI_REORG_DELAY as i64 {
						return fail("a transaction stopped being watched before it was ANTI_REORG_DELAY deep", format!("node {} tx {} after {} confirmations", node, i, dv));
					}
				}
				reference = Some(v.clone());
			}
			let r = reference.as_ref().unwrap();
			if &v != r {
				let mut diff: Vec<String> = Vec::new();
				if v.balances != r.balances {
					diff.push(format!("balances {:?} vs {:?}", v.balances, r.balances));
				}
				if v.relevant != r.relevant {
					diff.push(format!("relevant txids {:?} vs {:?}", v.relevant, r.relevant));
				}
				if v.best != r.best {
					diff.push(format!("best block {:?} vs {:?}", v.best, r.best));
				}
				// (with a pending splice the watched outputs and the monitor's own broadcast depend, by design, on
				// whether the alternative funding was promoted by burial or is still looked up, and on whether a
				// fork showed a close before the splice confirmed: the channel is closed at the first sight)
				if v.watch != r.watch && !splice {
					diff.push(format!("outputs to watch differ ({} vs {})", v.watch.len(), r.watch.len()));
				}
				let strip = |e: &BTreeSet<String>| -> BTreeSet<String> { e.iter().filter(|x| !(splice && x.starts_with("holder_force_closed"))).cloned().collect() };
				if strip(&v.mon_events) != strip(&r.mon_events) {
					diff.push(format!("monitor events {:?} vs {:?}", v.mon_events, r.mon_events));
				}
				if v.failed_outbound != r.failed_outbound {
					diff.push(format!("outbound HTLCs failed on chain {:?} vs {:?}", v.failed_outbound, r.failed_outbound));
				}
				if v.alt_funding != r.alt_funding {
					diff.push(format!("alternative funding {:?} vs {:?}", v.alt_funding, r.alt_funding));
				}
				if v.spendable != r.spendable {
					diff.push(format!("spendable outputs {:?} vs {:?}", v.spendable, r.spendable));
				}
				if !diff.is_empty() {
					return fail("deliveries of the same chain disagree", format!("node {} style {} vs whole blocks: {}; ops of this clone: {}", node, style, diff.join("; "), c.trace.join(" ")));
				}
			}
			if want_model {
				for f in c.filters.iter() {
					if out.filters.len() < 60 && !out.filters.contains(f) {
						out.filters.push(f.clone());
					}
				}
				// (Z: the splice transaction; whether the monitor lists it depends on whether it had seen the channel
				// closed before, on a fork too, which the model does not follow)
				let z = splice_txid.and_then(|t| txidx.get(&t).copied()).map(|i| i.to_string()).unwrap_or("-".to_string());
				out.traces.push(format!("N{} S{} H{} X{} Z{} | {}", node, style, start_height, deltas.join(","), z, c.trace.join(" ")));
			}
		}
	}
	let _ = ids;
	Ok(out)
}

fn run_one(seed: u64, model: bool) -> String {
	let r = panic::catch_unwind(AssertUnwindSafe(|| scenario(seed, model)));
	match r {
		Ok(Ok(o)) => format!(
			"R {{\"seed\":{},\"ok\":true,\"cfg\":{},\"blocks\":{},\"clones\":{},\"ops\":{},\"detours\":{},\"late\":{},\"sameblock\":{},\"nonfirst\":{},\"boundary_keep\":{},\"boundary_go\":{},\"kept_checks\":{},\"kept_skipped\":{},\"reloads\":{},\"splice\":{}{}}}",
			seed,
			o.cfg,
			o.blocks,
			o.clones,
			o.ops,
			o.detours,
			o.late,
			o.sameblock,
			o.nonfirst,
			o.boundary_keep,
			o.boundary_go,
			o.kept_checks,
			o.kept_skipped,
			o.reloads,
			if o.splice { 1 } else { 0 },
			if model {
				format!(",\"traces\":[{}],\"filters\":[{}]", o.traces.iter().map(|t| jstr(t)).collect::<Vec<_>>().join(","), o.filters.iter().map(|t| jstr(t)).collect::<Vec<_>>().join(","))
			} else {
				String::new()
			}
		),
		Ok(Err(f)) if f.why.starts_with("KNOWN:") => {
			format!("R {{\"seed\":{},\"ok\":true,\"aborted\":true,\"findings\":[{}],\"detail\":{}}}", seed, jstr(&f.why[6..]), jstr(&format!("{}; ops of this clone: {}", f.detail, LAST_OPS.lock().unwrap().join(" "))))
		},
		Ok(Err(f)) => {
			let ops = LAST_OPS.lock().unwrap().join(" ");
			let detail = if f.detail.contains("ops of this clone") { f.detail.clone() } else { format!("{}; ops of this clone: {}", f.detail, ops) };
			format!("R {{\"seed\":{},\"ok\":false,\"why\":{},\"detail\":{}}}", seed, jstr(&f.why), jstr(&detail))
		},
		Err(_) => {
			let msg = PANIC_MSG.lock().unwrap().clone();
			// Known behaviour C11-F1 (known_findings.json): time-locked claim packages created when a
			// commitment confirmed survive that block's disconnection; when the commitment confirms again
			// the aggregated ones are not recognised as duplicates and a debug assertion fires later.
			if msg.contains("onchaintx.rs") && msg.contains("self.pending_claim_requests.get(&claim_id).is_none()") {
				return format!(
					"R {{\"seed\":{},\"ok\":true,\"aborted\":true,\"findings\":[\"F1-locktimed-packages-survive-reorg\"],\"detail\":{}}}",
					seed, jstr(&msg)
				);
			}
			format!("R {{\"seed\":{},\"ok\":false,\"why\":{},\"detail\":{}}}", seed, jstr("panic inside the library or its test utilities"), jstr(&msg))
		},
	}
}

/// Demonstration for finding C11-F2 (`h_chainview f2demo`): a `Confirm` client; a splice and the
/// counterparty's commitment on it confirm in one block; the block is reorganised out (the client
/// unconfirms what `get_relevant_txids` lists and moves the best block back); then the counterparty's
/// commitment on the ORIGINAL funding confirms instead. Prints what the monitor shows at each point.
fn f2demo() -> String {
	use lightning::ln::splicing_tests::{do_initiate_splice_in, splice_channel};
	let chanmon_cfgs = create_chanmon_cfgs(2);
	let node_cfgs = create_node_cfgs(2, &chanmon_cfgs);
	let node_chanmgrs = create_node_chanmgrs(2, &node_cfgs, &[None, None]);
	let nodes = std::mem::ManuallyDrop::new(create_network(2, &node_cfgs, &node_chanmgrs));
	*nodes[0].connect_style.borrow_mut() = ConnectStyle::FullBlockViaListen;
	provide_utxo_reserves(&nodes, 4, Amount::from_sat(50_000_000));
	let (_, _, chan_id, _) = create_announced_chan_between_nodes_with_value(&nodes, 0, 1, 1_000_000, 300_000_000);
	let contribution = do_initiate_splice_in(&nodes[0], &nodes[1], chan_id, Amount::from_sat(200_000));
	let (splice_tx, _) = splice_channel(&nodes[0], &nodes[1], chan_id, contribution);
	let old_commitment = get_local_commitment_txn!(nodes[1], chan_id)[0].clone();
	let snap = nodes[0].chain_monitor.chain_monitor.get_monitor(chan_id).unwrap().encode();
	let start_height = nodes[0].best_block_info().1;
	let b0 = nodes[0].get_block_header(start_height);
	// node 1 alone sees the splice confirm and is made to broadcast its commitment on the new funding
	let blk1 = create_dummy_block(nodes[1].best_block_hash(), start_height + 1, vec![splice_tx.clone()]);
	connect_block(&nodes[1], &blk1);
	nodes[1].tx_broadcaster.txn_broadcast();
	let mon1 = nodes[1].chain_monitor.chain_monitor.get_monitor(chan_id).unwrap();
	mon1.broadcast_latest_holder_commitment_txn(&nodes[1].tx_broadcaster, &nodes[1].fee_estimator, &nodes[1].logger);
	let mut new_commitment: Option<Transaction> = nodes[1].tx_broadcaster.txn_broadcast().into_iter().find(|t| t.input.iter().any(|i| i.previous_output.txid == splice_tx.compute_txid()));
	for ev in nodes[1].chain_monitor.chain_monitor.get_and_clear_pending_events() {
		if let Event::BumpTransaction(BumpTransactionEvent::ChannelClose { commitment_tx, .. }) = ev {
			new_commitment = Some(commitment_tx);
		}
	}
	let new_commitment = match new_commitment {
		Some(t) => t,
		None => return "R {\"ok\":false,\"why\":\"f2demo: no commitment on the splice funding\"}".to_string(),
	};
	let mut rd = &snap[..];
	let (_, mon) = <(BlockLocator, ChannelMonitor<TestChannelSigner>)>::read(&mut rd, (nodes[0].keys_manager, nodes[0].keys_manager)).unwrap();
	let fee = nodes[0].fee_estimator;
	let logger = nodes[0].logger;
	let mut log: Vec<String> = Vec::new();
	let show = |mon: &ChannelMonitor<TestChannelSigner>, what: &str, log: &mut Vec<String>| {
		log.push(format!(
			"{}: best {} alternative_funding_confirmed {:?} relevant {:?}",
			what,
			mon.current_best_block().height,
			mon.verif_alternative_funding_confirmed().map(|(_, h)| h),
			mon.get_relevant_txids().iter().map(|(t, h, _)| (if *t == new_commitment.compute_txid() { "commitment-on-splice" } else if *t == splice_tx.compute_txid() { "splice" } else { "other" }, *h)).collect::<Vec<_>>()
		));
	};
	let b1 = create_dummy_block(b0.block_hash(), start_height + 1, vec![splice_tx.clone(), new_commitment.clone()]);
	let txdata: Vec<(usize, &Transaction)> = b1.txdata.iter().enumerate().collect();
	mon.transactions_confirmed(&b1.header, &txdata, start_height + 1, &NullBroadcaster, fee, logger);
	mon.best_block_updated(&b1.header, start_height + 1, &NullBroadcaster, fee, logger);
	show(&mon, "splice and commitment on it confirmed in one block", &mut log);
	// the block is reorganised out: unconfirm everything listed, best block back
	loop {
		let listed = mon.get_relevant_txids();
		match listed.iter().find(|(_, h, _)| *h > start_height) {
			Some((t, _, _)) => mon.transaction_unconfirmed(t, &NullBroadcaster, fee, logger),
			None => break,
		}
	}
	mon.best_block_updated(&b0, start_height, &NullBroadcaster, fee, logger);
	show(&mon, "after transaction_unconfirmed of everything listed and best_block_updated back", &mut log);
	let b1b = create_dummy_block(b0.block_hash(), start_height + 101, vec![old_commitment.clone()]);
	let txdata: Vec<(usize, &Transaction)> = b1b.txdata.iter().enumerate().collect();
	let r = panic::catch_unwind(AssertUnwindSafe(|| {
		mon.transactions_confirmed(&b1b.header, &txdata, start_height + 1, &NullBroadcaster, fee, logger);
	}));
	match r {
		Ok(()) => log.push("the commitment on the original funding confirms instead: accepted".to_string()),
		Err(_) => log.push(format!("the commitment on the original funding confirms instead: PANIC {}", PANIC_MSG.lock().unwrap().replace('\n', " "))),
	}
	format!("R {{\"ok\":true,\"f2demo\":[{}]}}", log.iter().map(|l| jstr(l)).collect::<Vec<_>>().join(","))
}

fn main() {
	panic::set_hook(Box::new(|info| {
		*PANIC_MSG.lock().unwrap() = format!("{}", info);
	}));
	let args: Vec<String> = std::env::args().collect();
	if args.len() >= 4 && args[1] == "run" {
		let first: u64 = args[2].parse().unwrap();
		let count: u64 = args[3].parse().unwrap();
		let model = args.get(4).map(|s| s == "model").unwrap_or(false);
		// optional time budget (seconds): scenarios not started before it elapsed are reported as skipped
		let budget: Option<u64> = std::env::var("VERIF_DEADLINE_S").ok().and_then(|v| v.parse().ok());
		let t0 = std::time::Instant::now();
		for s in first..first + count {
			if budget.map(|b| t0.elapsed().as_secs() >= b).unwrap_or(false) {
				println!("R {{\"seed\":{},\"ok\":true,\"skipped\":true}}", s);
				continue;
			}
			println!("{}", run_one(s, model));
		}
	} else if args.len() >= 2 && args[1] == "f2demo" {
		println!("{}", f2demo());
	} else if args.len() >= 3 && args[1] == "replay" {
		println!("{}", run_one(args[2].parse().unwrap(), true));
	} else {
		eprintln!("usage: h_chainview run <first_seed> <count> [model] | replay <seed>");
		std::process::exit(2);
	}
}
