//! C03 end-to-end scheduler: a list of actions (one per stdin line) is executed on real
//! ChannelManagers / ChannelMonitors (lightning::ln::functional_test_utils), then everything is
//! driven to quiescence and the sender's REAL event stream, `list_recent_payments`, `list_channels`
//! and monitor balances are judged by C03's statement. Node 0 sends, the last node receives.
//!
//!   cfg <topology 0 pair | 1 line of 3 | 2 diamond of 4> <legacy 0|1> <second channel per pair 0|1> <style> [<snapshot every 3rd step 0|1>]
//!   send <amt_msat> <retries>       send_payment through the node's router
//!   sendmpp <amt_msat>              diamond only: explicit two-path route (half each)
//!   persist <node> <0|1>            1: monitor updates of that node stay InProgress from now on; 0: complete
//!                                   everything pending, then persist synchronously again
//!   complete <node>                 complete the pending monitor updates of that node (mode unchanged)
//!   deliver <k>                     deliver one queued peer message (bundle) from the k-th non-empty queue
//!   deliverto <a> <b>               deliver one queued message (bundle) from a to b
//!   settle <a> <b>                  deliver between a and b only, until quiet
//!   pump                            deliver until quiet
//!   disconnect <a> <b> | reconnect <a> <b>
//!   config <node> <chan> <0 fee | 1 dust exposure | 2 cltv delta> <value>
//!   claim | fail | silence          recipient decides the oldest undecided PaymentClaimable
//!   fclose <node> <chan>            force-close, broadcasting the latest commitment (legacy channels only)
//!   snapcommit <node> <chan> | minesnap <k>   remember a holder commitment now / broadcast it later
//!   mine | blocks <n> | tick <node>
//!   halfpoll                        the sender's peer messages are fetched, its events are not handled
//!   freeze | unfreeze               stop / resume polling the sender (events, messages, forwards): what it has not
//!                                   fetched before a restart it has to recover from its monitors
//!   snapshot                        serialize the sender's ChannelManager (a legal persisted state)
//!   reload <k>                      (at most twice) restart the sender from its latest monitors and its
//!                                   k-th snapshot taken since the previous restart (k >= 1000: the
//!                                   (k-1000)-th latest)
//! Output: {"c03s":1,"ok":..,"why":..,"step":..,"payments":[..]}
use std::collections::{BTreeMap, HashSet, VecDeque};
use std::io::{self, BufRead};
use std::panic::{self, AssertUnwindSafe};

use bitcoin::hashes::sha256::Hash as Sha256;
use bitcoin::hashes::Hash;
use bitcoin::secp256k1::PublicKey;
use bitcoin::{OutPoint, Transaction, Txid};

use lightning::chain::channelmonitor::Balance;
use lightning::chain::ChannelMonitorUpdateStatus;
use lightning::events::Event;
use lightning::ln::channelmanager::{PaymentId, RecentPaymentDetails};
use lightning::ln::functional_test_utils::*;
use lightning::ln::msgs::{BaseMessageHandler, ChannelMessageHandler, ErrorAction, Init, MessageSendEvent};
use lightning::ln::outbound_payment::{RecipientOnionFields, Retry};
use lightning::ln::types::ChannelId;
use lightning::routing::router::{PaymentParameters, RouteParameters};
use lightning::types::payment::{PaymentHash, PaymentPreimage};
use lightning::util::config::{ChannelConfigUpdate, MaxDustHTLCExposure};
use lightning::util::ser::Writeable;
use lightning::util::test_utils::TestPersister;
use lightning::{get_local_commitment_txn, reload_node};

struct Pay {
	id: PaymentId,
	hash: PaymentHash,
	preimage: PaymentPreimage,
	amt: u64,
	accepted: bool,
	sent: Vec<usize>,   // restart epochs in which PaymentSent was seen
	failed: Vec<usize>, // restart epochs in which PaymentFailed was seen
	stale_failed: bool,
	/// a restart from an older manager failed a part of it whose HTLC is still live in the (newer)
	/// monitor of its channel
	stale_live: bool,
	created_step: usize,
	/// (step, epoch, closed) at which a resolution of the payment or of one of its parts was handled;
	/// closed: the channel that carried the HTLC was no longer a channel of the manager then (only
	/// for those does the monitor get told that the resolution is complete)
	resolutions: Vec<(usize, usize, bool)>,
	/// (step, epoch) of every PaymentFailed
	failed_at: Vec<(usize, usize)>,
	/// fee_paid_msat of the first PaymentSent
	fee_reported: Option<Option<u64>>,
	n_path_failed: usize,
	/// every part is too small to be sure of a commitment-transaction output: if its channel closes
	/// on chain before a claim is committed the amount is forfeited and the claim does not settle
	dusty: bool,
	epoch: usize,
}

struct World<'p> {
	queues: BTreeMap<(usize, usize), VecDeque<MessageSendEvent>>,
	connected: HashSet<(usize, usize)>,
	chans: Vec<(usize, usize, ChannelId)>,
	persisters: Vec<&'p TestPersister>,
	inprogress: Vec<bool>,
	mempool: Vec<Transaction>,
	seen_tx: HashSet<Txid>,
	spent: HashSet<OutPoint>,
	pays: Vec<Pay>,
	claimable: VecDeque<PaymentHash>,
	decided: Vec<(PaymentHash, u8)>, // 0 claim, 1 fail, 2 silence
	recip_claimed: HashSet<PaymentHash>,
	snapshots: Vec<Vec<u8>>,
	/// per snapshot: the step after which it was taken and the payments it lists as pending
	snap_info: Vec<(usize, HashSet<PaymentId>)>,
	/// per restart (epoch k is entered by reloads[k-1]): (step of the snapshot used, payments pending
	/// in it, step of the restart)
	reloads: Vec<(usize, HashSet<PaymentId>, usize)>,
	scids: std::collections::HashMap<u64, ChannelId>,
	/// per channel of the sender: how many HTLC failures its Channel object held back for a monitor
	/// update in progress when last looked at (while the manager still had the channel)
	held_fails: std::collections::HashMap<ChannelId, usize>,
	/// channels the sender's manager closed while such failures were held back
	closed_with_held_fails: HashSet<ChannelId>,
	/// payment hashes ever seen as a pending outbound HTLC of the channel
	chan_hashes: std::collections::HashMap<ChannelId, HashSet<PaymentHash>>,
	/// every HTLC the sender ever had pending for a payment: (channel, expiry, amount), from list_channels
	sent_htlcs: std::collections::HashMap<PaymentHash, HashSet<(ChannelId, u32, u64)>>,
	/// what the recipient reports to have received (PaymentClaimed)
	received: std::collections::HashMap<PaymentHash, u64>,
	commit_snaps: Vec<Transaction>,
	epoch: usize,
	step: usize,
	violations: Vec<(usize, &'static str, String)>,
	claimed_epoch: std::collections::HashMap<PaymentHash, usize>,
	legacy: bool,
	autosnap: bool,
	/// the sender is not polled (no events, messages or forwards fetched): it is about to go down
	frozen: bool,
	first_after_reload: bool,
	recipient: usize,
}

fn key(a: usize, b: usize) -> (usize, usize) {
	if a < b {
		(a, b)
	} else {
		(b, a)
	}
}

fn idx_of(nodes: &[Node], pk: &PublicKey) -> Option<usize> {
	nodes.iter().position(|n| n.node.get_our_node_id() == *pk)
}

impl<'p> World<'p> {
	fn bad(&mut self, why: String) {
		let s = self.step;
		self.violations.push((s, "c03", why));
	}
	/// the class "a manager older than the settlement of a payment fails it after the restart"
	fn bad_stale(&mut self, why: String) {
		let s = self.step;
		self.violations.push((s, "stale", why));
	}

	/// Looks at the sender's channels (read-only hooks): failures held back for a monitor update, and
	/// which payments have an HTLC in which channel.
	fn sample_sender(&mut self, nodes: &[Node]) {
		for (a, b, cid) in self.chans.iter() {
			if *a != 0 && *b != 0 {
				continue;
			}
			let cp = nodes[if *a == 0 { *b } else { *a }].node.get_our_node_id();
			if let Some((Some(view), _, _)) = lightning::ln::channelmanager::verif_hooks_monupd::monupd_view(nodes[0].node, &cp, cid) {
				self.held_fails.insert(*cid, view.monitor_pending_failures);
			}
		}
		for ch in nodes[0].node.list_channels() {
			let set = self.chan_hashes.entry(ch.channel_id).or_insert_with(HashSet::new);
			for h in ch.pending_outbound_htlcs.iter() {
				set.insert(h.payment_hash);
				self.sent_htlcs.entry(h.payment_hash).or_insert_with(HashSet::new).insert((ch.channel_id, h.cltv_expiry, h.amount_msat));
			}
		}
	}

	/// Has any channel that ever carried an HTLC of the payment left the sender's manager?
	fn carried_by_closed_channel(&self, nodes: &[Node], hash: &PaymentHash) -> bool {
		let open: HashSet<ChannelId> = nodes[0].node.list_channels().iter().map(|c| c.channel_id).collect();
		self.chan_hashes.iter().any(|(c, hs)| hs.contains(hash) && !open.contains(c))
	}

	fn take_snapshot(&mut self, nodes: &[Node]) {
		let pending: HashSet<PaymentId> = nodes[0]
			.node
			.list_recent_payments()
			.into_iter()
			.filter_map(|r| match r {
				RecentPaymentDetails::Pending { payment_id, .. } => Some(payment_id),
				_ => None,
			})
			.collect();
		self.snapshots.push(nodes[0].node.encode());
		self.snap_info.push((self.step, pending));
	}

	/// Restart `k` (1-based) used a manager that had not yet processed any fulfil of the payment.
	fn older_than_fulfil(&self, k: usize, p: &Pay) -> bool {
		let (snap_step, pending, _) = &self.reloads[k - 1];
		pending.contains(&p.id) || p.created_step > *snap_step
	}

	/// Every PaymentFailed of the payment so far was ROLLED BACK by a later restart: restart `k` used a
	/// manager persisted before the event was generated (the snapshot lists the payment as pending), so
	/// in the restored manager the payment has not failed - a terminal event is only durable once the
	/// manager that produced it is persisted ("if we restart without first persisting the
	/// ChannelManager, another PaymentFailed may be generated", or, conditions having changed, the
	/// payment goes on). Returns the first such `k`.
	fn failures_rolled_back(&self, p: &Pay) -> Option<usize> {
		if p.failed_at.is_empty() {
			return None;
		}
		(1..=self.epoch).find(|k| {
			let (snap_step, pending, _) = &self.reloads[*k - 1];
			pending.contains(&p.id) && p.failed_at.iter().all(|(st, ep)| *ep < *k && *st > *snap_step)
		})
	}

	/// Restart `k` used a manager older than the monitors it was combined with.
	fn reload_is_stale(&self, k: usize) -> bool {
		k >= 1 && self.reloads[k - 1].0 < self.reloads[k - 1].2
	}

	/// HTLCs of the payment pending in one channel of the sender: in the live channel (committed or in
	/// the holding cell), as an unresolved HTLC output of its monitor, or - the manager has closed the
	/// channel, no commitment is confirmed yet - in a counterparty commitment the monitor knows of.
	fn pending_in_channel(&self, nodes: &[Node], chan: &ChannelId, hash: &PaymentHash) -> usize {
		let mut n = 0;
		let mut open = false;
		for ch in nodes[0].node.list_channels() {
			if ch.channel_id == *chan {
				open = true;
				n += ch.pending_outbound_htlcs.iter().filter(|h| h.payment_hash == *hash).count();
			}
		}
		if let Ok(m) = nodes[0].chain_monitor.chain_monitor.get_monitor(*chan) {
			let bal = m.get_claimable_balances();
			let mut k1 = 0;
			let mut unconfirmed = false;
			for b in bal.iter() {
				match b {
					Balance::MaybeTimeoutClaimableHTLC { payment_hash, .. } if *payment_hash == *hash => k1 += 1,
					Balance::ClaimableOnChannelClose { .. } => unconfirmed = true,
					_ => {},
				}
			}
			let k2 = if !open && unconfirmed {
				let (outbound, _, _) = lightning::chain::channelmonitor::verif_hooks_fwd::monitor_htlc_view(&*m);
				outbound.iter().filter(|(h, pre)| *h == *hash && !*pre).count()
			} else {
				0
			};
			if std::env::var("H_TRACE").is_ok() && k1.max(k2) > 0 {
				eprintln!("TRACE pending in monitor of {}: {} as HTLC output, {} in a counterparty commitment (channel open in the manager: {})", chan, k1, k2, open);
			}
			n += k1.max(k2);
		}
		n
	}

	/// HTLCs of the payment that are still pending at the sender, over all its channels and monitors.
	fn pending_htlcs(&self, nodes: &[Node], hash: &PaymentHash) -> usize {
		let mut n = 0;
		for chan in nodes[0].chain_monitor.chain_monitor.list_monitors() {
			n += self.pending_in_channel(nodes, &chan, hash);
		}
		n
	}

	/// The node's outgoing peer messages go to the queues of the connected peers. (Fetching them also
	/// makes the manager take the pending MonitorEvents out of its monitors and free holding cells.)
	fn collect_msgs(&mut self, nodes: &[Node], i: usize) -> bool {
		let mut progressed = false;
		for ev in nodes[i].node.get_and_clear_pending_msg_events() {
			let to_pk = match &ev {
				MessageSendEvent::UpdateHTLCs { node_id, .. }
				| MessageSendEvent::SendRevokeAndACK { node_id, .. }
				| MessageSendEvent::SendChannelReestablish { node_id, .. }
				| MessageSendEvent::SendChannelReady { node_id, .. }
				| MessageSendEvent::SendAnnouncementSignatures { node_id, .. }
				| MessageSendEvent::SendChannelUpdate { node_id, .. }
				| MessageSendEvent::SendShutdown { node_id, .. }
				| MessageSendEvent::HandleError { node_id, .. } => Some(*node_id),
				_ => None,
			};
			if let Some(to) = to_pk.and_then(|pk| idx_of(nodes, &pk)) {
				if self.connected.contains(&key(i, to)) {
					self.queues.entry((i, to)).or_insert_with(VecDeque::new).push_back(ev);
					progressed = true;
				}
			}
		}
		progressed
	}

	/// Collects peer messages into the queues, lets every node forward, records events and
	/// broadcasts; the sender's terminal events are judged the moment they appear.
	fn fetch(&mut self, nodes: &[Node]) -> bool {
		let mut progressed = false;
		for i in 0..nodes.len() {
			if i == 0 && self.frozen {
				continue;
			}
			if self.collect_msgs(nodes, i) {
				progressed = true;
			}
		}
		for i in 0..nodes.len() {
			if i == 0 && self.frozen {
				let txs: Vec<Transaction> = nodes[i].tx_broadcaster.txn_broadcasted.lock().unwrap().split_off(0);
				for tx in txs {
					if self.seen_tx.insert(tx.compute_txid()) {
						self.mempool.push(tx);
					}
				}
				continue;
			}
			nodes[i].node.process_pending_htlc_forwards();
			let evs = nodes[i].node.get_and_clear_pending_events();
			if !evs.is_empty() {
				progressed = true;
			}
			for e in evs {
				if std::env::var("H_TRACE").is_ok() {
					let d = format!("{:?}", e);
					eprintln!("TRACE step {} node {} height {} {}", self.step, i, nodes[i].best_block_info().1, &d[..d.len().min(260)]);
				}
				if i == 0 {
					match &e {
						Event::ChannelClosed { channel_id, .. } => {
							if self.held_fails.get(channel_id).cloned().unwrap_or(0) > 0 {
								self.closed_with_held_fails.insert(*channel_id);
							}
						},
						Event::PaymentSent { payment_id: Some(id), payment_preimage, payment_hash, fee_paid_msat, .. } => {
							let ep = self.epoch;
							let mut why = None;
							let closed = self.carried_by_closed_channel(nodes, payment_hash);
							if let Some(p) = self.pays.iter_mut().find(|p| p.id == *id) {
								if p.fee_reported.is_none() {
									p.fee_reported = Some(*fee_paid_msat);
								}
								if Sha256::hash(&payment_preimage.0).to_byte_array() != payment_hash.0 || *payment_hash != p.hash {
									why = Some("PaymentSent: preimage does not hash to the payment hash".to_string());
								}
								p.sent.push(ep);
								p.resolutions.push((self.step, ep, closed));
							}
							if let Some(w) = why {
								self.bad(w);
							}
						},
						Event::PaymentPathFailed { payment_id: Some(id), path, .. } => {
							let ep = self.epoch;
							let step = self.step;
							let first_chan = path.hops.first().and_then(|h| self.scids.get(&h.short_channel_id)).cloned();
							let idx = self.pays.iter().position(|p| p.id == *id);
							if let Some(ix) = idx {
								let h = self.pays[ix].hash;
								let live_in_monitor = self.first_after_reload
									&& self.reload_is_stale(ep)
									&& self.pays[ix].epoch < ep
									&& first_chan.map(|c| self.pending_in_channel(nodes, &c, &h) > 0).unwrap_or(false);
								let open_now: HashSet<ChannelId> = nodes[0].node.list_channels().iter().map(|c| c.channel_id).collect();
								let closed = first_chan.map(|c| !open_now.contains(&c)).unwrap_or(false);
								let p = &mut self.pays[ix];
								p.resolutions.push((step, ep, closed));
								p.n_path_failed += 1;
								if live_in_monitor {
									p.stale_live = true;
								}
							}
						},
						Event::PaymentFailed { payment_id, .. } => {
							let ep = self.epoch;
							let step = self.step;
							if let Some(ix) = self.pays.iter().position(|p| p.id == *payment_id) {
								let h = self.pays[ix].hash;
								let n = self.pending_htlcs(nodes, &h);
								// settled (claim accepted by the recipient or PaymentSent reported) in an earlier
								// epoch, and a restart in between used a manager that had not processed any fulfil
								let settle_epoch = {
									let p = &self.pays[ix];
									let a = self.claimed_epoch.get(&h).cloned();
									let b = p.sent.iter().min().cloned();
									match (a, b) {
										(Some(x), Some(y)) => Some(x.min(y)),
										(x, y) => x.or(y),
									}
								};
								let stale_settled = match settle_epoch {
									Some(se) if se < ep => ((se + 1)..=ep).any(|k| self.older_than_fulfil(k, &self.pays[ix])),
									_ => false,
								};
								let dusty = self.pays[ix].dusty;
								let claimed = self.recip_claimed.contains(&h);
								if stale_settled {
									self.pays[ix].stale_failed = true;
									self.bad_stale("after a restart from a manager older than the settlement (it had not processed the fulfil; the monitors had), PaymentFailed is reported for a payment whose claim was settled before the restart".to_string());
								} else if self.pays[ix].stale_live {
									if n > 0 || (claimed && !dusty) {
										self.bad_stale("a restart from an older manager failed an HTLC that is live in the newer monitor of its channel (added to the holding cell or sent before, committed after the manager was persisted); PaymentFailed is reported while that HTLC is still pending".to_string());
									}
								} else {
									if n > 0 {
										self.bad(format!(
											"PaymentFailed while {} HTLC(s) of the payment are still pending at the sender (channel, holding cell or monitor)",
											n
										));
									}
									if claimed && !dusty {
										self.bad("PaymentFailed although the recipient claimed the payment".to_string());
									}
								}
								let closed = self.carried_by_closed_channel(nodes, &h);
								let p = &mut self.pays[ix];
								p.failed.push(ep);
								p.failed_at.push((step, ep));
								p.resolutions.push((step, ep, closed));
							}
						},
						_ => {},
					}
				}
				if i == self.recipient {
					match &e {
						Event::PaymentClaimable { payment_hash, .. } => self.claimable.push_back(*payment_hash),
						Event::PaymentClaimed { payment_hash, amount_msat, .. } => {
							self.recip_claimed.insert(*payment_hash);
							self.received.entry(*payment_hash).or_insert(*amount_msat);
							let ep = self.epoch;
							self.claimed_epoch.entry(*payment_hash).or_insert(ep);
							let rolled_back = self.pays.iter().any(|p| p.hash == *payment_hash && self.failures_rolled_back(p).map(|k| ep >= k).unwrap_or(false));
							let failed = !rolled_back && self.pays.iter().any(|p| p.hash == *payment_hash && !p.failed.is_empty() && !p.dusty && !p.stale_failed && !p.stale_live);
							let failed_stale = self.pays.iter().any(|p| p.hash == *payment_hash && !p.failed.is_empty() && !p.dusty && !p.stale_failed && p.stale_live);
							if failed_stale {
								self.bad_stale("a restart from an older manager failed an HTLC that is live in the newer monitor; after PaymentFailed the recipient's claim of it was accepted".to_string());
							}
							if failed {
								self.bad("the recipient's claim was accepted after the sender had reported PaymentFailed".to_string());
							}
						},
						_ => {},
					}
				}
				if let Event::BumpTransaction(ref ev) = e {
					// anchor channels: let the test wallet fund the claim
					nodes[i].bump_tx_handler.handle_event(ev);
				}
			}
			// the monitors' own events: anchor channels ask the wallet to fund their claims
			for e in nodes[i].chain_monitor.chain_monitor.get_and_clear_pending_events() {
				if let Event::BumpTransaction(ref ev) = e {
					nodes[i].bump_tx_handler.handle_event(ev);
					progressed = true;
				}
			}
			nodes[i].chain_monitor.added_monitors.lock().unwrap().clear();
			let txs: Vec<Transaction> = nodes[i].tx_broadcaster.txn_broadcasted.lock().unwrap().split_off(0);
			for tx in txs {
				if self.seen_tx.insert(tx.compute_txid()) {
					self.mempool.push(tx);
					progressed = true;
				}
			}
		}
		// what forwarding and event handling produced
		for i in 0..nodes.len() {
			if i == 0 && self.frozen {
				continue;
			}
			if self.collect_msgs(nodes, i) {
				progressed = true;
			}
		}
		progressed
	}

	fn deliver(&mut self, nodes: &[Node], from: usize, to: usize, ev: MessageSendEvent) {
		let n = &nodes[to].node;
		let f = nodes[from].node.get_our_node_id();
		match ev {
			MessageSendEvent::UpdateHTLCs { updates, .. } => {
				for m in updates.update_add_htlcs.iter() {
					n.handle_update_add_htlc(f, m);
				}
				for m in updates.update_fulfill_htlcs.iter() {
					n.handle_update_fulfill_htlc(f, m.clone());
				}
				for m in updates.update_fail_htlcs.iter() {
					n.handle_update_fail_htlc(f, m);
				}
				for m in updates.update_fail_malformed_htlcs.iter() {
					n.handle_update_fail_malformed_htlc(f, m);
				}
				if let Some(m) = updates.update_fee.as_ref() {
					n.handle_update_fee(f, m);
				}
				n.handle_commitment_signed_batch_test(f, &updates.commitment_signed);
			},
			MessageSendEvent::SendRevokeAndACK { msg, .. } => n.handle_revoke_and_ack(f, &msg),
			MessageSendEvent::SendChannelReestablish { msg, .. } => n.handle_channel_reestablish(f, &msg),
			MessageSendEvent::SendChannelReady { msg, .. } => n.handle_channel_ready(f, &msg),
			MessageSendEvent::SendAnnouncementSignatures { msg, .. } => n.handle_announcement_signatures(f, &msg),
			MessageSendEvent::SendChannelUpdate { msg, .. } => n.handle_channel_update(f, &msg),
			MessageSendEvent::SendShutdown { msg, .. } => n.handle_shutdown(f, &msg),
			MessageSendEvent::HandleError { action, .. } => match action {
				ErrorAction::SendErrorMessage { msg } => n.handle_error(f, &msg),
				ErrorAction::DisconnectPeer { msg: Some(msg) } => n.handle_error(f, &msg),
				_ => {},
			},
			_ => {},
		}
		if to == 0 {
			self.sample_sender(nodes);
		}
	}

	fn deliver_kth(&mut self, nodes: &[Node], k: usize) {
		let keys: Vec<(usize, usize)> = self.queues.iter().filter(|(_, q)| !q.is_empty()).map(|(k, _)| *k).collect();
		if keys.is_empty() {
			return;
		}
		let (from, to) = keys[k % keys.len()];
		let ev = self.queues.get_mut(&(from, to)).unwrap().pop_front().unwrap();
		self.deliver(nodes, from, to, ev);
	}

	fn pump(&mut self, nodes: &[Node]) {
		let mut idle = 0;
		for _ in 0..400 {
			let mut progressed = self.fetch(nodes);
			let keys: Vec<(usize, usize)> = self.queues.iter().filter(|(_, q)| !q.is_empty()).map(|(k, _)| *k).collect();
			for (from, to) in keys {
				if let Some(ev) = self.queues.get_mut(&(from, to)).and_then(|q| q.pop_front()) {
					self.deliver(nodes, from, to, ev);
					progressed = true;
				}
			}
			idle = if progressed { 0 } else { idle + 1 };
			if idle >= 3 {
				break;
			}
		}
	}

	fn complete_updates(&mut self, nodes: &[Node], i: usize) {
		for _ in 0..4 {
			let pending = nodes[i].chain_monitor.chain_monitor.list_pending_monitor_updates();
			let mut any = false;
			for (chan, ids) in pending {
				for id in ids {
					let _ = nodes[i].chain_monitor.chain_monitor.channel_monitor_updated(chan, id);
					any = true;
				}
			}
			if !any {
				break;
			}
		}
	}

	fn set_persist(&mut self, nodes: &[Node], i: usize, inprogress: bool) {
		if inprogress {
			if !self.inprogress[i] {
				let mut q = self.persisters[i].update_rets.lock().unwrap();
				for _ in 0..100_000 {
					q.push_back(ChannelMonitorUpdateStatus::InProgress);
				}
			}
		} else if i == 0 && self.frozen {
			// its manager is not polled, so it cannot learn that the earlier updates completed; a
			// synchronous Completed for the next update would break the Watch contract as the manager
			// sees it (production panic "returned Completed while prior updates are still InProgress"):
			// only complete what is pending, the mode stays
			self.complete_updates(nodes, i);
			return;
		} else {
			// a Watch must not report Completed while earlier updates are still in progress: finish
			// everything pending first (what completing them triggers is still InProgress), then switch
			for _ in 0..12 {
				let pending: usize =
					nodes[i].chain_monitor.chain_monitor.list_pending_monitor_updates().values().map(|v| v.len()).sum();
				if pending == 0 {
					break;
				}
				self.complete_updates(nodes, i);
				// (completion actions run when the node is polled; nothing it reports may be lost)
				let _ = self.fetch(nodes);
			}
			self.persisters[i].update_rets.lock().unwrap().clear();
		}
		self.inprogress[i] = inprogress;
	}

	fn disconnect(&mut self, nodes: &[Node], a: usize, b: usize) {
		if a == b || !self.connected.remove(&key(a, b)) {
			return;
		}
		nodes[a].node.peer_disconnected(nodes[b].node.get_our_node_id());
		nodes[b].node.peer_disconnected(nodes[a].node.get_our_node_id());
		self.queues.remove(&(a, b));
		self.queues.remove(&(b, a));
	}

	fn reconnect(&mut self, nodes: &[Node], a: usize, b: usize) {
		if a == b || self.connected.contains(&key(a, b)) || !self.chans.iter().any(|c| key(c.0, c.1) == key(a, b)) {
			return;
		}
		// drop anything a node queued for the peer while it was away
		let _ = self.fetch(nodes);
		let init_a = Init { features: nodes[a].node.init_features(), networks: None, remote_network_address: None };
		let init_b = Init { features: nodes[b].node.init_features(), networks: None, remote_network_address: None };
		if nodes[a].node.peer_connected(nodes[b].node.get_our_node_id(), &init_b, true).is_ok()
			&& nodes[b].node.peer_connected(nodes[a].node.get_our_node_id(), &init_a, false).is_ok()
		{
			self.connected.insert(key(a, b));
		}
	}

	fn mine(&mut self, nodes: &[Node]) {
		let pool = std::mem::take(&mut self.mempool);
		let pool_ids: HashSet<Txid> = pool.iter().map(|t| t.compute_txid()).collect();
		let mut block: Vec<Transaction> = Vec::new();
		let mut block_ids: HashSet<Txid> = HashSet::new();
		let mut keep = Vec::new();
		let height = nodes[0].best_block_info().1;
		for tx in pool {
			let conflict = tx.input.iter().any(|i| self.spent.contains(&i.previous_output));
			if conflict {
				continue; // can never confirm any more
			}
			let parents_ok = tx.input.iter().all(|i| !pool_ids.contains(&i.previous_output.txid) || block_ids.contains(&i.previous_output.txid));
			let lock_ok = !tx.lock_time.is_block_height() || tx.lock_time.to_consensus_u32() <= height + 1;
			if parents_ok && lock_ok {
				for i in tx.input.iter() {
					self.spent.insert(i.previous_output);
				}
				block_ids.insert(tx.compute_txid());
				block.push(tx);
			} else {
				keep.push(tx);
			}
		}
		self.mempool = keep;
		if block.is_empty() {
			return;
		}
		let refs: Vec<&Transaction> = block.iter().collect();
		for n in nodes.iter() {
			mine_transactions(n, &refs);
		}
	}

	/// `n` more blocks on every node; a broadcast transaction that can confirm does so in the very
	/// next block (the chain is fair: nobody loses a race because the harness withheld a transaction)
	fn advance(&mut self, nodes: &[Node], n: u32) {
		for _ in 0..n {
			let _ = self.fetch(nodes);
			let h = nodes[1].best_block_info().1;
			self.mine(nodes);
			if nodes[1].best_block_info().1 == h {
				for node in nodes.iter() {
					connect_blocks(node, 1);
				}
			}
		}
		let _ = self.fetch(nodes);
	}

	fn new_payment(&mut self, nodes: &[Node], amt: u64) -> (PaymentHash, PaymentPreimage, lightning::types::payment::PaymentSecret, PaymentId) {
		let (preimage, hash, secret) = get_payment_preimage_hash(&nodes[self.recipient], Some(amt), None);
		let id = PaymentId(hash.0);
		let cur_epoch = self.epoch;
		let cur_step = self.step;
		self.pays.push(Pay { id, hash, preimage, amt, accepted: false, sent: vec![], failed: vec![], stale_failed: false, stale_live: false, created_step: cur_step, resolutions: vec![], failed_at: vec![], fee_reported: None, n_path_failed: 0, dusty: amt < 2_000_000, epoch: cur_epoch });
		(hash, preimage, secret, id)
	}

	fn route_params(&self, nodes: &[Node], amt: u64) -> RouteParameters {
		let pp = PaymentParameters::from_node_id(nodes[self.recipient].node.get_our_node_id(), TEST_FINAL_CLTV)
			.with_bolt11_features(nodes[self.recipient].node.bolt11_invoice_features())
			.unwrap();
		let mut rp = RouteParameters::from_payment_params_and_value(pp, amt);
		rp.max_total_routing_fee_msat = None;
		rp
	}

	fn act(&mut self, nodes: &[Node], line: &str) {
		let t: Vec<&str> = line.split_whitespace().collect();
		let num = |i: usize| -> u64 { t.get(i).and_then(|s| s.parse::<u64>().ok()).unwrap_or(0) };
		let n = nodes.len();
		self.sample_sender(nodes);
		match t[0] {
			"send" => {
				let amt = 1_000 * (1 + num(1) % 9_000);
				let (hash, _p, secret, id) = self.new_payment(nodes, amt);
				let onion = RecipientOnionFields::secret_only(secret, amt);
				let rp = self.route_params(nodes, amt);
				let r = nodes[0].node.send_payment(hash, onion, id, rp, Retry::Attempts((num(2) % 3) as u32));
				self.pays.last_mut().unwrap().accepted = r.is_ok();
			},
			"sendmpp" => {
				if n < 4 {
					return;
				}
				let amt = 2_000 * (1 + num(1) % 4_000);
				let (hash, _p, secret, id) = self.new_payment(nodes, amt);
				let onion = RecipientOnionFields::secret_only(secret, amt);
				let mut paths = Vec::new();
				let mut used = HashSet::new();
				for ch in nodes[0].node.list_channels() {
					// one path per first-hop peer, usable or not (an unusable one fails at send time)
					if !used.insert(ch.counterparty.node_id) {
						continue;
					}
					let scorer = lightning::util::test_utils::TestScorer::new();
					let half = self.route_params(nodes, amt / 2);
					if let Ok(route) = lightning::routing::router::find_route(
						&nodes[0].node.get_our_node_id(),
						&half,
						&nodes[0].network_graph,
						Some(&[&ch]),
						nodes[0].logger,
						&scorer,
						&Default::default(),
						&[7u8; 32],
					) {
						paths.extend(route.paths);
					}
				}
				if paths.len() != 2 {
					self.pays.pop();
					return;
				}
				// (each part on its own: too small for an output of its own?)
				self.pays.last_mut().unwrap().dusty = amt / 2 < 2_000_000;
				let route = lightning::routing::router::Route { paths, route_params: self.route_params(nodes, amt) };
				let r = nodes[0].node.send_payment_with_route(route, hash, onion, id);
				self.pays.last_mut().unwrap().accepted = r.is_ok();
			},
			"persist" => {
				let i = (num(1) as usize) % n;
				self.set_persist(nodes, i, num(2) != 0);
			},
			"complete" => {
				let i = (num(1) as usize) % n;
				self.complete_updates(nodes, i);
			},
			"deliver" => self.deliver_kth(nodes, num(1) as usize),
			"deliverto" => {
				// one queued message (bundle) from node a to node b
				let (a, b) = ((num(1) as usize) % n, (num(2) as usize) % n);
				if let Some(ev) = self.queues.get_mut(&(a, b)).and_then(|q| q.pop_front()) {
					self.deliver(nodes, a, b, ev);
				}
			},
			"settle" => {
				// deliver between a and b only, until both directions are quiet
				let (a, b) = ((num(1) as usize) % n, (num(2) as usize) % n);
				let mut idle = 0;
				for _ in 0..60 {
					let mut progressed = self.fetch(nodes);
					for (x, y) in [(a, b), (b, a)] {
						if let Some(ev) = self.queues.get_mut(&(x, y)).and_then(|q| q.pop_front()) {
							self.deliver(nodes, x, y, ev);
							progressed = true;
						}
					}
					idle = if progressed { 0 } else { idle + 1 };
					if idle >= 3 {
						break;
					}
				}
			},
			"pump" => self.pump(nodes),
			"disconnect" => self.disconnect(nodes, (num(1) as usize) % n, (num(2) as usize) % n),
			"reconnect" => self.reconnect(nodes, (num(1) as usize) % n, (num(2) as usize) % n),
			"config" => {
				let i = (num(1) as usize) % n;
				let mine: Vec<(usize, usize, ChannelId)> = self.chans.iter().filter(|c| c.0 == i || c.1 == i).cloned().collect();
				if mine.is_empty() {
					return;
				}
				let c = mine[(num(2) as usize) % mine.len()];
				let cp = nodes[if c.0 == i { c.1 } else { c.0 }].node.get_our_node_id();
				let mut upd = ChannelConfigUpdate::default();
				match num(3) % 3 {
					0 => upd.forwarding_fee_base_msat = Some((num(4) % 5_000) as u32),
					1 => upd.max_dust_htlc_exposure_msat = Some(MaxDustHTLCExposure::FixedLimitMsat(num(4) % 6_000_000)),
					_ => upd.cltv_expiry_delta = Some(48 + (num(4) % 100) as u16),
				}
				let _ = nodes[i].node.update_partial_channel_config(&cp, &[c.2], &upd);
			},
			"claim" | "fail" | "silence" => {
				if let Some(h) = self.claimable.pop_front() {
					let r = self.recipient;
					match t[0] {
						"claim" => {
							if let Some(p) = self.pays.iter().find(|p| p.hash == h) {
								nodes[r].node.claim_funds(p.preimage);
							}
							self.decided.push((h, 0));
						},
						"fail" => {
							nodes[r].node.fail_htlc_backwards(&h);
							self.decided.push((h, 1));
						},
						_ => self.decided.push((h, 2)),
					}
				}
			},
			"fclose" => {
				if !self.legacy || self.chans.is_empty() {
					return;
				}
				let i = (num(1) as usize) % n;
				let mine: Vec<(usize, usize, ChannelId)> = self.chans.iter().filter(|c| c.0 == i || c.1 == i).cloned().collect();
				if mine.is_empty() {
					return;
				}
				let c = mine[(num(2) as usize) % mine.len()];
				let cp = nodes[if c.0 == i { c.1 } else { c.0 }].node.get_our_node_id();
				let _ = nodes[i].node.force_close_broadcasting_latest_txn(&c.2, &cp, "scheduled".to_string());
			},
			"snapcommit" => {
				if !self.legacy {
					return;
				}
				let i = (num(1) as usize) % n;
				let mine: Vec<(usize, usize, ChannelId)> = self.chans.iter().filter(|c| c.0 == i || c.1 == i).cloned().collect();
				if mine.is_empty() {
					return;
				}
				let c = mine[(num(2) as usize) % mine.len()];
				if nodes[i].chain_monitor.chain_monitor.get_monitor(c.2).is_ok() {
					let txs = get_local_commitment_txn!(nodes[i], c.2);
					if let Some(tx) = txs.into_iter().next() {
						self.commit_snaps.push(tx);
					}
				}
			},
			"minesnap" => {
				if !self.commit_snaps.is_empty() {
					let tx = self.commit_snaps[(num(1) as usize) % self.commit_snaps.len()].clone();
					if self.seen_tx.insert(tx.compute_txid()) {
						self.mempool.push(tx);
					}
				}
			},
			"mine" => self.mine(nodes),
			"blocks" => {
				let k = 1 + (num(1) % 30) as u32;
				self.advance(nodes, k);
			},
			"tick" => nodes[(num(1) as usize) % n].node.timer_tick_occurred(),
			"snapshot" => self.take_snapshot(nodes),
			"halfpoll" => {
				// the sender's messages are fetched (its manager thereby takes the MonitorEvents out of
				// the monitors), its events are not handled: the point where a crash loses MonitorEvents
				let _ = self.collect_msgs(nodes, 0);
			},
			"freeze" => self.frozen = true,
			"unfreeze" => self.frozen = false,
			_ => {},
		}
		let _ = self.fetch(nodes);
		// every step boundary is a state the sender may have persisted
		if self.autosnap && self.snapshots.len() < 40 && self.step % 3 == 0 {
			self.take_snapshot(nodes);
		}
	}

	/// Drive everything to rest: persistence completes, peers reconnect, the recipient acts on what it
	/// was shown, every pending transaction confirms and every HTLC expiry passes.
	fn finish(&mut self, nodes: &[Node]) {
		self.frozen = false;
		for i in 0..nodes.len() {
			self.set_persist(nodes, i, false);
		}
		self.pump(nodes);
		let pairs: Vec<(usize, usize)> = self.chans.iter().map(|c| key(c.0, c.1)).collect();
		for (a, b) in pairs {
			self.reconnect(nodes, a, b);
		}
		self.pump(nodes);
		while let Some(h) = self.claimable.pop_front() {
			// whatever was shown but not decided is claimed
			if let Some(p) = self.pays.iter().find(|p| p.hash == h) {
				nodes[self.recipient].node.claim_funds(p.preimage);
			}
			self.decided.push((h, 0));
			self.pump(nodes);
		}
		for round in 0..34 {
			for _ in 0..4 {
				self.advance(nodes, 3);
				self.pump(nodes);
			}
			while let Some(h) = self.claimable.pop_front() {
				if let Some(p) = self.pays.iter().find(|p| p.hash == h) {
					nodes[self.recipient].node.claim_funds(p.preimage);
				}
				self.pump(nodes);
			}
			if round % 4 == 3 {
				for node in nodes.iter() {
					node.node.timer_tick_occurred();
				}
				self.pump(nodes);
			}
		}
	}

	fn judge_final(&mut self, nodes: &[Node]) {
		let recent = nodes[0].node.list_recent_payments();
		let mut out = Vec::new();
		let mut stale_out = Vec::new();
		let mut lost_out = Vec::new();
		let mut held_out = Vec::new();
		for p in self.pays.iter() {
			if !p.accepted {
				continue;
			}
			let listed_pending = recent.iter().any(|r| match r {
				RecentPaymentDetails::Pending { payment_id, .. } | RecentPaymentDetails::Abandoned { payment_id, .. } => *payment_id == p.id,
				_ => false,
			});
			let pending = self.pending_htlcs(nodes, &p.hash);
			let claimed = self.recip_claimed.contains(&p.hash);
			let tag = hex8(&p.hash.0);
			if p.stale_failed {
				continue;
			}
			// a restart used a manager older than the handling of a resolution of this payment (or of
			// one of its parts): the monitor was told the resolution is complete and never repeats it
			let lost_resolution = (1..=self.epoch).any(|k| {
				let (snap_step, _, _) = &self.reloads[k - 1];
				p.resolutions.iter().any(|(st, ep, closed)| *closed && *ep < k && *st > *snap_step)
			});
			let mut mine = Vec::new();
			// (a PaymentFailed that a restart rolled back - the manager used was persisted before it - followed
			// by a settlement AFTER that restart is the truthful outcome of the restored state)
			let undone = self.failures_rolled_back(p).map(|k| {
				p.sent.iter().all(|e| *e >= k) && self.claimed_epoch.get(&p.hash).map(|e| *e >= k).unwrap_or(true)
			}).unwrap_or(false);
			if !p.sent.is_empty() && !p.failed.is_empty() && !undone {
				mine.push(format!("payment {}: both PaymentSent and PaymentFailed were reported", tag));
			}
			// (after a restart events may be replayed: their handling has to be idempotent)
			for ep in p.epoch..=p.epoch {
				if p.sent.iter().filter(|e| **e == ep).count() > 1 || p.failed.iter().filter(|e| **e == ep).count() > 1 {
					mine.push(format!("payment {}: a terminal event was reported twice without a restart in between", tag));
				}
			}
			if claimed && p.sent.is_empty() && !p.dusty {
				mine.push(format!("payment {}: the recipient's claim was settled but PaymentSent was never reported", tag));
			}
			if !claimed && !p.sent.is_empty() {
				mine.push(format!("payment {}: PaymentSent although the recipient never claimed", tag));
			}
			// PaymentSent.fee_paid_msat against what the sender really committed: with no failed path at all,
			// every HTLC it ever had pending for the payment was settled, and their amounts exceed the
			// payment's amount by exactly the fees paid (its balance falls by amount + that)
			if let (Some(Some(fee)), Some(set), Some(recv)) = (p.fee_reported, self.sent_htlcs.get(&p.hash), self.received.get(&p.hash)) {
				if p.n_path_failed == 0 && !set.is_empty() {
					let committed: u64 = set.iter().map(|(_, _, a)| *a).sum();
					if committed >= *recv && fee != committed - *recv {
						mine.push(format!(
							"payment {}: PaymentSent reports fee_paid_msat {}, but the HTLCs the sender committed for it carry {} msat and the recipient received {} msat: {} msat were paid in fees",
							tag, fee, committed, recv, committed - *recv
						));
					}
				}
			}
			if p.stale_live {
				// consequences of the startup failure of a live HTLC
				for m in mine {
					stale_out.push(format!("{} (a restart from an older manager had failed an HTLC of it that is live in the newer monitor)", m));
				}
				continue;
			}
			out.extend(mine);
			if p.sent.is_empty() && p.failed.is_empty() {
				if listed_pending && pending == 0 {
					let held = self.closed_with_held_fails.iter().any(|c| self.chan_hashes.get(c).map(|hs| hs.contains(&p.hash)).unwrap_or(false));
					if held {
						held_out.push(format!("payment {}: the peer's failure of its HTLC was irrevocably committed while a monitor update of the channel was in progress, so the channel held the failure back; the channel was closed before the update completed and the held-back failure was dropped: after quiescence the payment is still listed as pending although no HTLC of it exists anywhere, it never gets a terminal event and its id is refused forever", tag));
					} else if lost_resolution {
						lost_out.push(format!("payment {}: the failure of one of its parts was handled before a restart from a manager older than that; afterwards the restored manager waits for that part for ever: the payment stays pending without any HTLC and never gets a terminal event", tag));
					} else {
						out.push(format!(
							"payment {}: after quiescence it is still listed as pending although no HTLC of it exists anywhere: it never gets a terminal event and its id is refused forever",
							tag
						));
					}
				} else if listed_pending {
					out.push(format!("payment {}: after quiescence it is still pending with {} HTLC(s)", tag, pending));
				} else if self.epoch == 0 {
					out.push(format!("payment {}: its id was freed without any terminal event", tag));
				} else if pending > 0 {
					out.push(format!("payment {}: forgotten across a restart while an HTLC of it is still pending", tag));
				}
			} else if listed_pending {
				if lost_resolution {
					lost_out.push(format!("payment {}: its terminal event was handled before a restart from a manager older than that; afterwards it stays listed as pending for ever (the monitor was told the resolution is complete, the restored manager never hears of it again)", tag));
				} else {
					out.push(format!("payment {}: a terminal event was reported but the payment is still listed as pending", tag));
				}
			}
		}
		for o in out {
			self.bad(o);
		}
		for o in stale_out {
			self.bad_stale(o);
		}
		for o in lost_out {
			let st = self.step;
			self.violations.push((st, "lost", o));
		}
		for o in held_out {
			let st = self.step;
			self.violations.push((st, "heldfail", o));
		}
	}
}

fn hex8(b: &[u8]) -> String {
	b[..4].iter().map(|x| format!("{:02x}", x)).collect()
}

fn report(w: &World, panic_msg: Option<String>) {
	let first = w.violations.iter().find(|v| v.1 == "c03").or(w.violations.first());
	let (ok, cat, why, step) = match (&panic_msg, first) {
		(_, Some((s, c, v))) => (false, *c, v.clone(), *s as i64),
		(Some(m), None) => (false, "panic", format!("harness or library assertion: {}", m), w.step as i64),
		_ => (true, "", String::new(), -1),
	};
	let pays: Vec<String> = w
		.pays
		.iter()
		.filter(|p| p.accepted)
		.map(|p| format!("[\"{}\",{},{},{}]", hex8(&p.hash.0), p.amt, p.sent.len(), p.failed.len()))
		.collect();
	println!(
		"{{\"c03s\":1,\"ok\":{},\"cat\":\"{}\",\"panic\":{},\"why\":\"{}\",\"step\":{},\"n_violations\":{},\"restarts\":{},\"payments\":[{}]}}",
		if ok { "true" } else { "false" },
		cat,
		if panic_msg.is_some() { "true" } else { "false" },
		why.replace('"', "'").replace('\n', " "),
		step,
		w.violations.len(),
		w.epoch,
		pays.join(",")
	);
}

fn run_phase(nodes: &[Node], w: &mut World, lines: &[String]) -> Option<String> {
	for l in lines {
		w.step += 1;
		let r = panic::catch_unwind(AssertUnwindSafe(|| w.act(nodes, l)));
		if let Err(e) = r {
			let msg = if let Some(s) = e.downcast_ref::<String>() {
				s.clone()
			} else if let Some(s) = e.downcast_ref::<&str>() {
				s.to_string()
			} else {
				"panic".to_string()
			};
			return Some(format!("at step {} ({}): {}", w.step, l, msg));
		}
	}
	None
}

fn monitors_of(node: &Node) -> Vec<Vec<u8>> {
	let mut v = Vec::new();
	for id in node.chain_monitor.chain_monitor.list_monitors() {
		if let Ok(m) = node.chain_monitor.chain_monitor.get_monitor(id) {
			v.push(m.encode());
		}
	}
	v
}

fn main() {
	panic::set_hook(Box::new(|info| {
		let msg = format!("{}", info).replace('"', "'").replace('\n', " ");
		println!("{{\"c03s_panic\":\"{}\"}}", msg);
	}));
	let stdin = io::stdin();
	let lines: Vec<String> = stdin.lock().lines().map(|l| l.unwrap().trim().to_string()).filter(|l| !l.is_empty() && !l.starts_with('#')).collect();
	let cfg: Vec<u64> = lines[0].split_whitespace().skip(1).map(|t| t.parse().unwrap_or(0)).collect();
	let (topo, legacy, second, style) = (cfg[0] % 3, cfg[1] != 0, cfg[2] != 0, cfg[3]);
	let autosnap = cfg.get(4).map(|v| *v != 0).unwrap_or(true);
	let n = [2usize, 3, 4][topo as usize];
	// phases separated by (at most two) restarts of the sender
	let mut phases: Vec<Vec<String>> = vec![Vec::new()];
	let mut reload_args: Vec<usize> = Vec::new();
	for l in lines[1..].iter() {
		if l.starts_with("reload") && reload_args.len() < 2 {
			reload_args.push(l.split_whitespace().nth(1).and_then(|s| s.parse().ok()).unwrap_or(0));
			phases.push(Vec::new());
		} else if !l.starts_with("reload") {
			phases.last_mut().unwrap().push(l.clone());
		}
	}

	let chanmon_cfgs = create_chanmon_cfgs(n);
	let node_cfgs = create_node_cfgs(n, &chanmon_cfgs);
	let persister_a;
	let persister_b;
	let chain_mon_a;
	let chain_mon_b;
	let ucfg = if legacy { test_legacy_channel_config() } else { test_default_channel_config() };
	let cfgs: Vec<Option<lightning::util::config::UserConfig>> = (0..n).map(|_| Some(ucfg.clone())).collect();
	let node_chanmgrs = create_node_chanmgrs(n, &node_cfgs, &cfgs);
	let mgr_a;
	let mgr_b;
	let mut nodes = create_network(n, &node_cfgs, &node_chanmgrs);
	let cs = match style % 3 {
		0 => ConnectStyle::BestBlockFirst,
		1 => ConnectStyle::FullBlockViaListen,
		_ => ConnectStyle::TransactionsFirst,
	};
	for node in nodes.iter() {
		*node.connect_style.borrow_mut() = cs;
	}
	let pairs: Vec<(usize, usize)> = match n {
		2 => vec![(0, 1)],
		3 => vec![(0, 1), (1, 2)],
		_ => vec![(0, 1), (0, 2), (1, 3), (2, 3)],
	};
	if !legacy {
		// anchor channels: every node needs confirmed funds to bump its claims
		provide_utxo_reserves(&nodes, 12, bitcoin::Amount::ONE_BTC);
	}
	let mut chans = Vec::new();
	for (a, b) in pairs.iter() {
		let c = create_announced_chan_between_nodes(&nodes, *a, *b);
		chans.push((*a, *b, c.2));
		if second {
			let c2 = create_announced_chan_between_nodes(&nodes, *a, *b);
			chans.push((*a, *b, c2.2));
		}
	}
	let mut w = World {
		queues: BTreeMap::new(),
		connected: pairs.iter().map(|(a, b)| key(*a, *b)).collect(),
		chans,
		persisters: chanmon_cfgs.iter().map(|c| &c.persister).collect(),
		inprogress: vec![false; n],
		mempool: Vec::new(),
		seen_tx: HashSet::new(),
		spent: HashSet::new(),
		pays: Vec::new(),
		claimable: VecDeque::new(),
		decided: Vec::new(),
		recip_claimed: HashSet::new(),
		snapshots: Vec::new(),
		snap_info: Vec::new(),
		reloads: Vec::new(),
		scids: std::collections::HashMap::new(),
		held_fails: std::collections::HashMap::new(),
		closed_with_held_fails: HashSet::new(),
		chan_hashes: std::collections::HashMap::new(),
		sent_htlcs: std::collections::HashMap::new(),
		received: std::collections::HashMap::new(),
		commit_snaps: Vec::new(),
		epoch: 0,
		step: 0,
		violations: Vec::new(),
		claimed_epoch: std::collections::HashMap::new(),
		legacy,
		autosnap,
		frozen: false,
		first_after_reload: false,
		recipient: n - 1,
	};
	for ch in nodes[0].node.list_channels() {
		for scid in [ch.short_channel_id, ch.outbound_scid_alias, ch.inbound_scid_alias].iter().flatten() {
			w.scids.insert(*scid, ch.channel_id);
		}
	}
	// every node on the same height
	let top = nodes.iter().map(|nd| nd.best_block_info().1).max().unwrap();
	for nd in nodes.iter() {
		let h = nd.best_block_info().1;
		if h < top {
			connect_blocks(nd, top - h);
		}
	}
	// the channel-opening traffic
	let _ = panic::catch_unwind(AssertUnwindSafe(|| w.pump(&nodes)));
	for node in nodes.iter() {
		node.tx_broadcaster.txn_broadcasted.lock().unwrap().clear();
	}
	w.mempool.clear();
	w.take_snapshot(&nodes);

	let mut panic_msg = run_phase(&nodes, &mut w, &phases[0]);

	macro_rules! restart {
		($k: expr, $persister: ident, $chain_mon: ident, $mgr: ident) => {
			if panic_msg.is_none() && phases.len() > $k {
				let r = panic::catch_unwind(AssertUnwindSafe(|| {
					// the sender goes down: monitors as they are now, the manager as persisted at an earlier step
					let peers: Vec<usize> = (1..n).collect();
					for p in peers {
						w.disconnect(&nodes, 0, p);
					}
					// k >= 1000: counted back from the latest snapshot
					let arg = reload_args[$k - 1];
					let which = if arg >= 1000 { w.snapshots.len() - 1 - ((arg - 1000) % w.snapshots.len()) } else { arg % w.snapshots.len() };
					let snap = w.snapshots[which].clone();
					let (snap_step, snap_pending) = w.snap_info[which].clone();
					let now = w.step;
					w.reloads.push((snap_step, snap_pending, now));
					let mons = monitors_of(&nodes[0]);
					(snap, mons)
				}));
				match r {
					Err(_) => panic_msg = Some("panic while taking the sender down".to_string()),
					Ok((snap, mons)) => {
						let mon_refs: Vec<&[u8]> = mons.iter().map(|m| &m[..]).collect();
						let ucfg2 = ucfg.clone();
						// (a panic in here ends the process; the panic hook has printed the message)
						reload_node!(nodes[0], ucfg2, &snap, &mon_refs[..], $persister, $chain_mon, $mgr);
						match Ok::<(), ()>(()) {
							Err(()) => {},
							Ok(()) => {
								// "sync to the current best chain tip before using the manager": a manager restored
								// from an older snapshot is told about the blocks it has not seen
								{
									use lightning::chain::Confirm;
									let mgr_h = nodes[0].node.current_best_block().height;
									let blocks = nodes[0].blocks.lock().unwrap().clone();
									for (block, h) in blocks.iter() {
										if *h > mgr_h {
											let txdata: Vec<(usize, &Transaction)> = block.txdata.iter().enumerate().collect();
											nodes[0].node.transactions_confirmed(&block.header, &txdata, *h);
											nodes[0].node.best_block_updated(&block.header, *h);
										}
									}
								}
								w.frozen = false;
								w.persisters[0] = &$persister;
								w.inprogress[0] = false;
								w.epoch += 1;
								w.snapshots.clear();
								w.snap_info.clear();
								w.step += 1;
								w.take_snapshot(&nodes);
								w.first_after_reload = true;
								let r2 = panic::catch_unwind(AssertUnwindSafe(|| {
									let _ = w.fetch(&nodes);
								}));
								w.first_after_reload = false;
								if r2.is_err() {
									panic_msg = Some("panic right after the reload".to_string());
								}
								if panic_msg.is_none() {
									panic_msg = run_phase(&nodes, &mut w, &phases[$k]);
								}
							},
						}
					},
				}
			}
		};
	}
	restart!(1, persister_a, chain_mon_a, mgr_a);
	restart!(2, persister_b, chain_mon_b, mgr_b);

	if panic_msg.is_none() {
		let r = panic::catch_unwind(AssertUnwindSafe(|| {
			w.step += 1;
			w.finish(&nodes);
			w.step += 1;
			w.judge_final(&nodes);
		}));
		if let Err(e) = r {
			let msg = e.downcast_ref::<String>().cloned().or_else(|| e.downcast_ref::<&str>().map(|s| s.to_string())).unwrap_or("panic".to_string());
			panic_msg = Some(format!("while driving to quiescence: {}", msg));
		}
	}
	report(&w, panic_msg);
	std::mem::forget(nodes);
}
