//! C02 functional correspondence: forward-admission arithmetic.
//! Case lines (one result line each):
//!   a2f <inbound_amt> <base> <prop>                                   amt_to_forward_msat
//!   blind <in_amt> <in_cltv> <base> <prop> <delta> <htlc_min> <max_cltv>   check_blinded_forward
//!   upd <prop> <base> <delta>       ChannelManager::update_channel_config on the live channel
//!   tick                            ChannelManager::timer_tick_occurred
//!   chk <in_amt> <in_cltv> <out_amt> <out_cltv>    FundedChannel::htlc_satisfies_config (live channel)
//!   show                            current (current, previous) forwarding parameters
//! Every result line is prefixed with `R ` (the test logger also writes to stdout).
//! `upd`/`tick`/`chk` act on ONE real channel between two real nodes for the whole run, so the
//! current/previous-config state machine of the channel is what answers `chk`. After every
//! `upd`/`tick` the line shows the channel's (current, previous) forwarding parameters.
use lightning::ln::functional_test_utils::*;
use lightning::ln::msgs::BaseMessageHandler;
use lightning::ln::onion_payment::verif_hooks_fwdadm as vb;
use std::io::{self, BufRead, Write};
use std::panic::{self, AssertUnwindSafe};

fn show_cfgs(c: Option<((u32, u32, u16), Option<(u32, u32, u16)>)>) -> String {
	match c {
		None => "NOCHAN".to_string(),
		Some((cur, prev)) => format!(
			"cur {} {} {} prev {}",
			cur.0,
			cur.1,
			cur.2,
			match prev {
				None => "none".to_string(),
				Some(p) => format!("{} {} {}", p.0, p.1, p.2),
			}
		),
	}
}

fn main() {
	let chanmon_cfgs = create_chanmon_cfgs(2);
	let node_cfgs = create_node_cfgs(2, &chanmon_cfgs);
	let node_chanmgrs = create_node_chanmgrs(2, &node_cfgs, &[None, None]);
	let nodes = create_network(2, &node_cfgs, &node_chanmgrs);
	*nodes[0].connect_style.borrow_mut() = ConnectStyle::BestBlockFirst;
	*nodes[1].connect_style.borrow_mut() = ConnectStyle::BestBlockFirst;
	let chan = create_announced_chan_between_nodes(&nodes, 0, 1);
	let chan_id = chan.2;
	let peer = nodes[1].node.get_our_node_id();
	let f = |l: &str| -> String {
		let mut it = l.split_whitespace();
		let cmd = it.next().unwrap();
		let a: Vec<u64> = it.map(|t| t.parse::<u64>().unwrap()).collect();
		match cmd {
			"a2f" => match vb::verif_amt_to_forward_msat(a[0], a[1] as u32, a[2] as u32) {
				Some(v) => format!("Some {}", v),
				None => "None".to_string(),
			},
			"blind" => match vb::verif_check_blinded_forward(
				a[0], a[1] as u32, a[2] as u32, a[3] as u32, a[4] as u16, a[5], a[6] as u32,
			) {
				Ok((amt, cltv)) => format!("Ok {} {}", amt, cltv),
				Err(()) => "Err".to_string(),
			},
			"upd" => {
				let mut cfg = nodes[0].node.list_channels()[0].config.unwrap();
				cfg.forwarding_fee_proportional_millionths = a[0] as u32;
				cfg.forwarding_fee_base_msat = a[1] as u32;
				cfg.cltv_expiry_delta = a[2] as u16;
				let r = nodes[0].node.update_channel_config(&peer, &[chan_id], &cfg);
				// drop the channel_update broadcasts this generates
				let _ = nodes[0].node.get_and_clear_pending_msg_events();
				format!(
					"{} {}",
					if r.is_ok() { "Ok" } else { "Rejected" },
					show_cfgs(nodes[0].node.verif_forwarding_configs(&peer, &chan_id))
				)
			},
			"tick" => {
				nodes[0].node.timer_tick_occurred();
				let _ = nodes[0].node.get_and_clear_pending_msg_events();
				format!("Ok {}", show_cfgs(nodes[0].node.verif_forwarding_configs(&peer, &chan_id)))
			},
			"show" => format!("Ok {}", show_cfgs(nodes[0].node.verif_forwarding_configs(&peer, &chan_id))),
			"chk" => match nodes[0].node.verif_htlc_satisfies_config(
				&peer, &chan_id, a[0], a[1] as u32, a[2], a[3] as u32,
			) {
				None => "NOCHAN".to_string(),
				Some(Ok(())) => "Ok".to_string(),
				Some(Err(e)) => format!("Err {}", e),
			},
			_ => "BADCMD".to_string(),
		}
	};
	panic::set_hook(Box::new(|_| {}));
	let stdin = io::stdin();
	let mut results = Vec::new();
	for line in stdin.lock().lines() {
		let line = line.unwrap();
		let l = line.trim();
		if l.is_empty() || l.starts_with('#') {
			continue;
		}
		match panic::catch_unwind(AssertUnwindSafe(|| f(l))) {
			Ok(s) => results.push(format!("R {}", s)),
			Err(_) => results.push("R PANIC".to_string()),
		}
	}
	let stdout = io::stdout();
	let mut out = io::BufWriter::new(stdout.lock());
	for r in results {
		writeln!(out, "{}", r).unwrap();
	}
	out.flush().unwrap();
	// the nodes' Drop impl asserts a quiescent test network; this binary leaves messages undelivered
	std::mem::forget(nodes);
}
