//! C19: the real `MonitorUpdatingPersister` with REAL `ChannelMonitor`s / `ChannelMonitorUpdate`s produced
//! by a two-node scenario, over a recording in-memory `KVStoreSync`; crash-recovery at every store
//! operation boundary; and the open hypothesis H1 (asynchronous persister, out-of-order durability).
//!
//! usage: h_mup sync <seed> <maximum_pending_updates> <n_payments> <max_crash_points> [<n_fault_scripts> [<finale 0|1>]]
//!        (finale: funding spend seen by the ChainMonitor only, an update the monitor REFUSES, post-close preimage
//!         updates; `R mark`, `R final` lines; env H_MUP_DUMP=<dir> dumps the two monitors of the final comparison)
//!        h_mup h1 <seed>
//! All result lines start with "R " (the test logger floods stdout).
//!   R calls <abstract persister calls>        N:<id>  U:<update_id|->:<monitor_id>  C:<lazy 0|1>
//!   R ops <store operations>                  W:M  W:U:<id>  R:U:<id>:<lazy>  W:A  R:M:<lazy>   ('|' between calls)
//!   R crash k=<ops applied> lazy=<mode> rec=<id|none|PANIC|ERR> want=<ids> eq=<1|0|tip>
//!   R summary ...
use std::collections::HashMap;
use std::future::Future;
use std::panic::{self, AssertUnwindSafe};
use std::pin::Pin;
use std::sync::{Arc, Mutex};
use std::task::{Context, Poll, RawWaker, RawWakerVTable, Waker};

use lightning::chain::chainmonitor::{ChainMonitor, Persist};
use lightning::chain::channelmonitor::{ChannelMonitor, ChannelMonitorUpdate, MonitorEvent};
use lightning::chain::{BlockLocator, ChannelMonitorUpdateStatus, Watch};
use lightning::io;
use lightning::ln::functional_test_utils::*;
use lightning::sign::NodeSigner;
use lightning::util::native_async::FutureSpawner;
use lightning::util::persist::{
	KVStore, KVStoreSync, MonitorName, MonitorUpdatingPersister, MonitorUpdatingPersisterAsync,
	CHANNEL_MONITOR_PERSISTENCE_PRIMARY_NAMESPACE, CHANNEL_MONITOR_UPDATE_PERSISTENCE_PRIMARY_NAMESPACE,
};
use lightning::util::ser::{ReadableArgs, Writeable};
use lightning::util::test_channel_signer::TestChannelSigner;
use lightning::util::test_utils;
use verif_harness::Rng;

type Key = (String, String, String);

#[derive(Clone, Debug)]
enum Entry {
	Write(Key, Vec<u8>),
	Remove(Key, bool),
	CallBegin(String, Option<Vec<u8>>),
	CallEnd { mon_id: u64, mon_bytes: Vec<u8>, ok: bool },
	Mark(String),
}

#[derive(Default)]
struct Rec {
	log: Mutex<Vec<Entry>>,
}

/// In-memory KVStoreSync; records every mutation. Lazy removes are applied immediately in the live
/// run; the crash simulation decides which of them had taken effect.
struct RecStore {
	map: Mutex<HashMap<Key, Vec<u8>>>,
	rec: Option<Arc<Rec>>,
}
impl RecStore {
	fn new(rec: Option<Arc<Rec>>) -> Self {
		RecStore { map: Mutex::new(HashMap::new()), rec }
	}
}
fn key(p: &str, s: &str, k: &str) -> Key {
	(p.to_string(), s.to_string(), k.to_string())
}
impl KVStoreSync for RecStore {
	fn read(&self, p: &str, s: &str, k: &str) -> Result<Vec<u8>, io::Error> {
		match self.map.lock().unwrap().get(&key(p, s, k)) {
			Some(v) => Ok(v.clone()),
			None => Err(io::Error::new(io::ErrorKind::NotFound, "not found")),
		}
	}
	fn write(&self, p: &str, s: &str, k: &str, buf: Vec<u8>) -> Result<(), io::Error> {
		if let Some(r) = &self.rec {
			r.log.lock().unwrap().push(Entry::Write(key(p, s, k), buf.clone()));
		}
		self.map.lock().unwrap().insert(key(p, s, k), buf);
		Ok(())
	}
	fn remove(&self, p: &str, s: &str, k: &str, lazy: bool) -> Result<(), io::Error> {
		if let Some(r) = &self.rec {
			r.log.lock().unwrap().push(Entry::Remove(key(p, s, k), lazy));
		}
		self.map.lock().unwrap().remove(&key(p, s, k));
		Ok(())
	}
	fn list(&self, p: &str, s: &str) -> Result<Vec<String>, io::Error> {
		let m = self.map.lock().unwrap();
		Ok(m.keys().filter(|(a, b, _)| a == p && b == s).map(|(_, _, c)| c.clone()).collect())
	}
}

type Mup<'a> = MonitorUpdatingPersister<
	&'a RecStore,
	&'a test_utils::TestLogger,
	&'a test_utils::TestKeysInterface,
	&'a test_utils::TestKeysInterface,
	&'a test_utils::TestBroadcaster,
	&'a test_utils::TestFeeEstimator,
>;

/// Wraps the real persister and logs call boundaries together with the in-memory monitor.
struct RecPersist<'a> {
	inner: Mup<'a>,
	rec: Arc<Rec>,
}
impl<'a> Persist<TestChannelSigner> for RecPersist<'a> {
	fn persist_new_channel(
		&self, name: MonitorName, monitor: &ChannelMonitor<TestChannelSigner>,
	) -> ChannelMonitorUpdateStatus {
		self.rec.log.lock().unwrap().push(Entry::CallBegin(format!("N:{}", monitor.get_latest_update_id()), None));
		let r = self.inner.persist_new_channel(name, monitor);
		self.rec.log.lock().unwrap().push(Entry::CallEnd {
			mon_id: monitor.get_latest_update_id(),
			mon_bytes: monitor.encode(),
			ok: r == ChannelMonitorUpdateStatus::Completed,
		});
		r
	}
	fn update_persisted_channel(
		&self, name: MonitorName, update: Option<&ChannelMonitorUpdate>,
		monitor: &ChannelMonitor<TestChannelSigner>,
	) -> ChannelMonitorUpdateStatus {
		let u = match update {
			Some(u) => format!("{}", u.update_id),
			None => "-".to_string(),
		};
		self.rec.log.lock().unwrap().push(Entry::CallBegin(format!("U:{}:{}", u, monitor.get_latest_update_id()), update.map(|x| x.encode())));
		let r = self.inner.update_persisted_channel(name, update, monitor);
		self.rec.log.lock().unwrap().push(Entry::CallEnd {
			mon_id: monitor.get_latest_update_id(),
			mon_bytes: monitor.encode(),
			ok: r == ChannelMonitorUpdateStatus::Completed,
		});
		r
	}
	fn archive_persisted_channel(&self, name: MonitorName) {
		self.rec.log.lock().unwrap().push(Entry::CallBegin("A".to_string(), None));
		<Mup<'a> as Persist<TestChannelSigner>>::archive_persisted_channel(&self.inner, name);
		self.rec.log.lock().unwrap().push(Entry::CallEnd { mon_id: 0, mon_bytes: Vec::new(), ok: true });
	}
}

fn op_str(e: &Entry, mon_key: &str) -> Option<String> {
	let cls = |k: &Key| -> String {
		if k.0 == CHANNEL_MONITOR_PERSISTENCE_PRIMARY_NAMESPACE && k.1.is_empty() {
			if k.2 == mon_key { "M".to_string() } else { format!("M?{}", k.2) }
		} else if k.0 == CHANNEL_MONITOR_UPDATE_PERSISTENCE_PRIMARY_NAMESPACE {
			if k.1 == mon_key { format!("U:{}", k.2) } else { format!("U?{}:{}", k.1, k.2) }
		} else if k.0 == "archived_monitors" {
			"A".to_string()
		} else {
			format!("X:{}/{}/{}", k.0, k.1, k.2)
		}
	};
	match e {
		Entry::Write(k, _) => Some(format!("W:{}", cls(k))),
		Entry::Remove(k, lazy) => Some(format!("R:{}:{}", cls(k), if *lazy { 1 } else { 0 })),
		_ => None,
	}
}

fn read_monitor(
	bytes: &[u8], keys: &test_utils::TestKeysInterface,
) -> Option<(BlockLocator, ChannelMonitor<TestChannelSigner>)> {
	<Option<(BlockLocator, ChannelMonitor<TestChannelSigner>)>>::read(&mut io::Cursor::new(bytes), (keys, keys))
		.ok()
		.flatten()
}

fn panic_msg(e: Box<dyn std::any::Any + Send>) -> String {
	if let Some(s) = e.downcast_ref::<String>() {
		s.clone()
	} else if let Some(s) = e.downcast_ref::<&str>() {
		s.to_string()
	} else {
		"?".to_string()
	}
}

fn run_sync(seed: u64, mp: u64, n_pay: usize, max_crash: usize, n_faults: usize, finale: bool) {
	let mut rng = Rng(seed ^ (mp.wrapping_mul(0x9E37)));
	let rec = Arc::new(Rec::default());
	let chanmon_cfgs = create_chanmon_cfgs(2);
	let store = RecStore::new(Some(rec.clone()));
	let persister = RecPersist {
		inner: MonitorUpdatingPersister::new(
			&store,
			&chanmon_cfgs[0].logger,
			mp,
			&chanmon_cfgs[0].keys_manager,
			&chanmon_cfgs[0].keys_manager,
			&chanmon_cfgs[0].tx_broadcaster,
			&chanmon_cfgs[0].fee_estimator,
		),
		rec: rec.clone(),
	};
	let mon_key;
	{
		let mut node_cfgs = create_node_cfgs(2, &chanmon_cfgs);
		let chain_mon_0 = test_utils::TestChainMonitor::new(
			Some(&chanmon_cfgs[0].chain_source),
			&chanmon_cfgs[0].tx_broadcaster,
			&chanmon_cfgs[0].logger,
			&chanmon_cfgs[0].fee_estimator,
			&persister,
			&chanmon_cfgs[0].keys_manager,
		);
		node_cfgs[0].chain_monitor = chain_mon_0;
		let legacy_cfg = test_legacy_channel_config();
		let node_chanmgrs = create_node_chanmgrs(2, &node_cfgs, &[Some(legacy_cfg.clone()), Some(legacy_cfg)]);
		let nodes = create_network(2, &node_cfgs, &node_chanmgrs);
		*nodes[0].connect_style.borrow_mut() = ConnectStyle::BestBlockFirst;
		*nodes[1].connect_style.borrow_mut() = ConnectStyle::BestBlockFirst;
		let (_, _, chan_id, _) = create_announced_chan_between_nodes(&nodes, 0, 1);
		mon_key = nodes[0].chain_monitor.chain_monitor.get_monitor(chan_id).unwrap().persistence_key().to_string();
		let mut a2b = 0;
		for _ in 0..n_pay {
			let mut r = rng.below(13);
			if (4..=6).contains(&r) && a2b < 3 {
				r = 0;
			}
			if r >= 10 {
				r = if r == 10 { 8 } else { 9 };
			}
			match r {
				0..=3 => {
					send_payment(&nodes[0], &[&nodes[1]], 1_000_000 + rng.below(500_000));
					a2b += 1;
				},
				4..=6 => {
					send_payment(&nodes[1], &[&nodes[0]], 300_000 + rng.below(100_000));
				},
				7 => {
					let (_, hash, ..) = route_payment(&nodes[0], &[&nodes[1]], 900_000);
					fail_payment(&nodes[0], &[&nodes[1]], hash);
				},
				8 => {
					let lazy = rng.below(2) == 0;
					persister.rec.log.lock().unwrap().push(Entry::CallBegin(format!("C:{}", if lazy { 1 } else { 0 }), None));
					persister.inner.cleanup_stale_updates(lazy).unwrap();
					persister.rec.log.lock().unwrap().push(Entry::CallEnd { mon_id: u64::MAX, mon_bytes: Vec::new(), ok: true });
				},
				_ => {
					if rng.below(2) == 0 {
						connect_blocks(&nodes[0], 1);
						connect_blocks(&nodes[1], 1);
					} else {
						// a full re-persist of the current in-memory monitor, as ChainMonitor does on chain sync
						let mon = nodes[0].chain_monitor.chain_monitor.get_monitor(chan_id).unwrap();
						let name = mon.persistence_key();
						let _ = Persist::update_persisted_channel(&persister, name, None, &*mon);
					}
				},
			}
		}
		// ---- finale: the monitor learns of the funding spend BEFORE the ChannelManager does, the
		// ChainMonitor re-persists it, then the peer's next commitment update is REFUSED by
		// `update_monitor` (state still changes) and must be persisted as a full monitor; afterwards a
		// post-close preimage update. Everything goes through the real ChainMonitor.
		if finale {
			use lightning::chain::Confirm;
			use lightning::ln::channelmanager::PaymentId;
			use lightning::ln::msgs::{BaseMessageHandler, ChannelMessageHandler};
			use lightning::ln::outbound_payment::RecipientOnionFields;
			while a2b < 4 {
				send_payment(&nodes[0], &[&nodes[1]], 1_200_000);
				a2b += 1;
			}
			let node_b_id = nodes[1].node.get_our_node_id();
			// payment 1: B -> A, routed but not yet claimed
			let (preimage_1, _hash_1, ..) = route_payment(&nodes[1], &[&nodes[0]], 300_000);
			rec.log.lock().unwrap().push(Entry::Mark("funding-spend-seen-by-monitor-only".to_string()));
			let bs_commitment_tx = lightning::get_local_commitment_txn!(nodes[1], chan_id);
			let (block_hash, height) = nodes[0].best_block_info();
			let block = create_dummy_block(block_hash, height + 1, vec![bs_commitment_tx[0].clone()]);
			let txdata: Vec<_> = block.txdata.iter().enumerate().collect();
			nodes[0].chain_monitor.chain_monitor.transactions_confirmed(&block.header, &txdata, height + 1);
			nodes[0].chain_monitor.chain_monitor.best_block_updated(&block.header, height + 1);
			let mut prev_hash = block.header.block_hash();
			nodes[0].blocks.lock().unwrap().push((block, height + 1));
			for new_height in height + 2..=height + 6 {
				let block = create_dummy_block(prev_hash, new_height, Vec::new());
				prev_hash = block.header.block_hash();
				nodes[0].chain_monitor.chain_monitor.best_block_updated(&block.header, new_height);
				nodes[0].blocks.lock().unwrap().push((block, new_height));
			}
			// payment 2: B -> A; A's monitor applies but refuses the resulting update
			let (route, hash_2, _, secret_2) = lightning::get_route_and_payment_hash!(&nodes[1], nodes[0], 300_000);
			nodes[1]
				.node
				.send_payment_with_route(route, hash_2, RecipientOnionFields::secret_only(secret_2, 300_000), PaymentId(hash_2.0))
				.unwrap();
			check_added_monitors(&nodes[1], 1);
			let mut events = nodes[1].node.get_and_clear_pending_msg_events();
			let payment_event = SendEvent::from_event(events.remove(0));
			rec.log.lock().unwrap().push(Entry::Mark("refused-update".to_string()));
			nodes[0].node.handle_update_add_htlc(node_b_id, &payment_event.msgs[0]);
			nodes[0].node.handle_commitment_signed(node_b_id, &payment_event.commitment_msg[0]);
			nodes[0].chain_monitor.added_monitors.lock().unwrap().clear();
			// post-close preimage update
			rec.log.lock().unwrap().push(Entry::Mark("post-close-preimage".to_string()));
			nodes[0].node.claim_funds(preimage_1);
			nodes[0].chain_monitor.added_monitors.lock().unwrap().clear();
			let _ = nodes[0].node.get_and_clear_pending_events();
			nodes[0].chain_monitor.added_monitors.lock().unwrap().clear();
			let _ = nodes[0].node.get_and_clear_pending_msg_events();
			let _ = nodes[0].node.get_and_clear_pending_events();
		}
		// the ChainMonitor's own copy at the end, for the final comparison
		{
			let mon = nodes[0].chain_monitor.chain_monitor.get_monitor(chan_id).unwrap();
			rec.log.lock().unwrap().push(Entry::CallBegin("E".to_string(), None));
			rec.log.lock().unwrap().push(Entry::CallEnd { mon_id: mon.get_latest_update_id(), mon_bytes: mon.encode(), ok: true });
		}
		// Node::drop asserts on pending state; nothing of that matters here.
		std::mem::forget(nodes);
	}
	let log: Vec<Entry> = rec.log.lock().unwrap().clone();
	// ---- transcript for the model correspondence
	let mut calls = Vec::new();
	let mut ops_by_call: Vec<Vec<String>> = Vec::new();
	let mut stray = 0;
	let mut in_call = false;
	for e in log.iter() {
		match e {
			Entry::CallBegin(s, _) => {
				calls.push(s.clone());
				ops_by_call.push(Vec::new());
				in_call = true;
			},
			Entry::CallEnd { .. } => in_call = false,
			Entry::Mark(_) => {},
			_ => {
				if in_call {
					ops_by_call.last_mut().unwrap().push(op_str(e, &mon_key).unwrap());
				} else {
					stray += 1;
				}
			},
		}
	}
	println!("R calls {} {}", mp, calls.join(" "));
	println!("R ops {} {}", mp, ops_by_call.iter().map(|v| v.join(" ")).collect::<Vec<_>>().join(" | "));
	// ---- crash simulation
	let keys = &chanmon_cfgs[0].keys_manager;
	// store operations with the index of the call they belong to and, per call, the in-memory monitor
	let mut ops: Vec<(usize, Entry)> = Vec::new();
	let mut call_end: Vec<(u64, Vec<u8>, String)> = Vec::new();
	let mut cur_call = 0usize;
	let mut names: Vec<String> = Vec::new();
	let mut upd_bytes: Vec<Option<Vec<u8>>> = Vec::new();
	for e in log.iter() {
		match e {
			Entry::CallBegin(s, u) => {
				names.push(s.clone());
				upd_bytes.push(u.clone());
			},
			Entry::CallEnd { mon_id, mon_bytes, .. } => {
				call_end.push((*mon_id, mon_bytes.clone(), names[cur_call].clone()));
				cur_call += 1;
			},
			Entry::Mark(m) => println!("R mark {} at_op={} at_call={}", m, ops.len(), cur_call),
			_ => ops.push((cur_call, e.clone())),
		}
	}
	let n = ops.len();
	let mut points: Vec<usize> = (0..=n).collect();
	if points.len() > max_crash {
		let mut keep = vec![0, 1, n, n - 1];
		while keep.len() < max_crash {
			keep.push(rng.below((n + 1) as u64) as usize);
		}
		keep.sort();
		keep.dedup();
		points = keep;
	}
	let (mut n_ok, mut n_tip, mut n_viol, mut n_none) = (0, 0, 0, 0);
	for &k in points.iter() {
		for mode in 0..4 {
			// which lazy removes (among the first k operations) had taken effect
			let mut lrng = Rng(seed ^ ((k as u64) << 8) ^ mode);
			let st = RecStore::new(None);
			{
				let mut m = st.map.lock().unwrap();
				for (_, e) in ops[..k].iter() {
					match e {
						Entry::Write(key, v) => {
							m.insert(key.clone(), v.clone());
						},
						Entry::Remove(key, lazy) => {
							let applied = !*lazy || match mode { 0 => true, 1 => false, _ => lrng.below(2) == 0 };
							if applied {
								m.remove(key);
							}
						},
						_ => {},
					}
				}
			}
			// in-memory monitors the recovered one may equal: the last completed call's, or the one of the
			// call in progress (operations of call c are ops with call index c)
			let in_progress = if k > 0 { Some(ops[k - 1].0) } else { None };
			let completed_before = if k < n { ops[k].0 } else { call_end.len() }; // calls fully done before op k
			let mut want: Vec<usize> = Vec::new();
			// last completed persist call (not a cleanup) among calls [0, completed_before)
			let mut lc = None;
			for c in 0..completed_before.min(call_end.len()) {
				if !call_end[c].2.starts_with('C') && !call_end[c].2.starts_with('A') && !call_end[c].2.starts_with('E') {
					lc = Some(c);
				}
			}
			// but a call is only complete if all its ops are within the prefix
			if let Some(c) = lc {
				want.push(c);
			}
			if let Some(c) = in_progress {
				if c < call_end.len() && !call_end[c].2.starts_with('C') && !want.contains(&c) {
					want.push(c);
				}
			}
			let p2 = MonitorUpdatingPersister::new(
				&st,
				&chanmon_cfgs[0].logger,
				mp,
				keys,
				keys,
				&chanmon_cfgs[0].tx_broadcaster,
				&chanmon_cfgs[0].fee_estimator,
			);
			let res = panic::catch_unwind(AssertUnwindSafe(|| p2.read_all_channel_monitors_with_updates()));
			let want_ids: Vec<String> = want.iter().map(|c| format!("{}", call_end[*c].0)).collect();
			let (rec_s, eq_s) = match res {
				Err(e) => (format!("PANIC:{}", panic_msg(e).replace(' ', "_")), "0".to_string()),
				Ok(Err(e)) => (format!("ERR:{}", format!("{}", e).replace(' ', "_")), "0".to_string()),
				Ok(Ok(v)) => {
					if v.is_empty() {
						("none".to_string(), if want.is_empty() { "1".to_string() } else { "0".to_string() })
					} else if v.len() > 1 {
						(format!("many{}", v.len()), "0".to_string())
					} else {
						let (bb, mon) = &v[0];
						let ev_r = mon.get_and_clear_pending_monitor_events();
						let id = mon.get_latest_update_id();
						let mut eq = "0".to_string();
						// every recorded in-memory monitor with this update id (any call)
						let mut same_id = false;
						let mut same_tip = false;
						for (cid, bytes, nm) in call_end.iter() {
							if *cid != id || nm.starts_with('C') || bytes.is_empty() {
								continue;
							}
							same_id = true;
							if let Some((bb2, m2)) = read_monitor(bytes, keys) {
								if bb2 == *bb {
									same_tip = true;
									if mon_eq(mon, &ev_r, &m2) {
										eq = "1".to_string();
										break;
									}
								}
							}
						}
						let id_ok = want.iter().any(|c| call_end[*c].0 == id)
							&& want.first().map(|c| id >= call_end[*c].0).unwrap_or(true);
						if !id_ok {
							eq = "0id".to_string();
						} else if eq != "1" && same_id && !same_tip {
							eq = "tip".to_string();
						}
						(format!("{}", id), eq)
					}
				},
			};
			match eq_s.as_str() {
				"1" => {
					if rec_s == "none" { n_none += 1 } else { n_ok += 1 }
				},
				"tip" => n_tip += 1,
				_ => {
					n_viol += 1;
					println!("R crash mp={} k={} lazy={} rec={} want={} eq={} lastop={}", mp, k, mode, rec_s, want_ids.join(","), eq_s,
						if k > 0 { op_str(&ops[k - 1].1, &mon_key).unwrap_or_default() } else { "-".to_string() });
				},
			}
		}
	}
	// ---- the end state against the ChainMonitor's own copy ("E")
	if let Some((e_id, e_bytes, _)) = call_end.iter().find(|(_, _, nm)| nm.starts_with('E')) {
		for mode in 0..2 {
			let st = RecStore::new(None);
			{
				let mut m = st.map.lock().unwrap();
				for (_, e) in ops.iter() {
					match e {
						Entry::Write(key, v) => {
							m.insert(key.clone(), v.clone());
						},
						Entry::Remove(key, lazy) => {
							if !*lazy || mode == 0 {
								m.remove(key);
							}
						},
						_ => {},
					}
				}
			}
			let p2 = MonitorUpdatingPersister::new(&st, &chanmon_cfgs[0].logger, mp, keys, keys, &chanmon_cfgs[0].tx_broadcaster, &chanmon_cfgs[0].fee_estimator);
			let res = panic::catch_unwind(AssertUnwindSafe(|| p2.read_all_channel_monitors_with_updates()));
			let (rec_s, eq_s) = match res {
				Err(e) => (format!("PANIC:{}", panic_msg(e).replace(' ', "_")), "0"),
				Ok(Err(e)) => (format!("ERR:{}", format!("{}", e).replace(' ', "_")), "0"),
				Ok(Ok(v)) if v.len() != 1 => (format!("many{}", v.len()), "0"),
				Ok(Ok(v)) => {
					let (bb, mon) = &v[0];
					let ev_r = mon.get_and_clear_pending_monitor_events();
					let eq = match read_monitor(e_bytes, keys) {
						Some((bb2, m2)) => {
							if let Ok(d) = std::env::var("H_MUP_DUMP") {
								let _ = std::fs::write(format!("{}/rec-{}.bin", d, mode), mon.encode());
								let _ = std::fs::write(format!("{}/mem-{}.bin", d, mode), m2.encode());
							}
							if mon.get_latest_update_id() != *e_id {
								"0"
							} else if mon_eq(mon, &ev_r, &m2) {
								"1"
							} else if bb2 != *bb {
								"tip"
							} else {
								"0"
							}
						},
						None => "0",
					};
					(format!("{}", mon.get_latest_update_id()), eq)
				},
			};
			println!("R final mp={} lazy={} rec={} chainmonitor_id={} eq={}", mp, mode, rec_s, e_id, eq_s);
		}
	}
	println!(
		"R summary mp={} calls={} ops={} stray_ops={} crash_points={} recovered_equal={} recovered_other_tip={} before_first_persist={} violations={}",
		mp, calls.len(), n, stray, points.len(), n_ok, n_tip, n_none, n_viol
	);
	if n_faults > 0 {
		replay_faults(seed, mp, n_faults, &call_end, &upd_bytes, &mon_key, &chanmon_cfgs[0]);
	}
}

/// Recovered monitor against an in-memory monitor. `pending_monitor_events` are delivered at least once
/// by design: events the ChannelManager already took from the in-memory monitor stay in the stored full
/// monitor until the next full persist, so the recovered monitor may hold MORE pending events, never
/// fewer. Everything else must be equal.
fn mon_eq(rec: &ChannelMonitor<TestChannelSigner>, ev_r: &Vec<MonitorEvent>, mem: &ChannelMonitor<TestChannelSigner>) -> bool {
	// `rec` has had its events taken into `ev_r` already (it is compared with several candidates)
	let ev_m = mem.get_and_clear_pending_monitor_events();
	ev_m.iter().all(|e| ev_r.contains(e)) && *rec == *mem
}

/// Store whose operations fail at scripted indices (every read/list/write/remove counts).
struct FaultStore {
	map: Mutex<HashMap<Key, Vec<u8>>>,
	n: Mutex<usize>,
	fail: std::collections::HashSet<usize>,
	attempts: Mutex<Vec<(usize, String, bool)>>, // (op index, description, ok) ; only of the current call
	applied: Mutex<Vec<Entry>>,
	stored_id: Mutex<Option<u64>>,
	needed_removed: Mutex<Vec<String>>,
	mon_key: String,
	keys: *const test_utils::TestKeysInterface,
}
unsafe impl Sync for FaultStore {}
impl FaultStore {
	fn tick(&self, d: String) -> (usize, bool) {
		let mut n = self.n.lock().unwrap();
		let i = *n;
		*n += 1;
		let ok = !self.fail.contains(&i);
		self.attempts.lock().unwrap().push((i, d, ok));
		(i, ok)
	}
}
impl KVStoreSync for FaultStore {
	fn read(&self, p: &str, s: &str, k: &str) -> Result<Vec<u8>, io::Error> {
		let (_, ok) = self.tick("G".to_string());
		if !ok {
			return Err(io::Error::new(io::ErrorKind::Other, "scripted failure"));
		}
		match self.map.lock().unwrap().get(&key(p, s, k)) {
			Some(v) => Ok(v.clone()),
			None => Err(io::Error::new(io::ErrorKind::NotFound, "not found")),
		}
	}
	fn write(&self, p: &str, s: &str, k: &str, buf: Vec<u8>) -> Result<(), io::Error> {
		let e = Entry::Write(key(p, s, k), buf.clone());
		let (_, ok) = self.tick(op_str(&e, &self.mon_key).unwrap());
		if !ok {
			return Err(io::Error::new(io::ErrorKind::Other, "scripted failure"));
		}
		if p == CHANNEL_MONITOR_PERSISTENCE_PRIMARY_NAMESPACE && k == self.mon_key {
			let keys = unsafe { &*self.keys };
			*self.stored_id.lock().unwrap() = read_monitor_sentinel(&buf, keys).map(|(_, m)| m.get_latest_update_id());
		}
		self.applied.lock().unwrap().push(e);
		self.map.lock().unwrap().insert(key(p, s, k), buf);
		Ok(())
	}
	fn remove(&self, p: &str, s: &str, k: &str, lazy: bool) -> Result<(), io::Error> {
		let e = Entry::Remove(key(p, s, k), lazy);
		let (_, ok) = self.tick(op_str(&e, &self.mon_key).unwrap());
		if !ok {
			return Err(io::Error::new(io::ErrorKind::Other, "scripted failure"));
		}
		if p == CHANNEL_MONITOR_UPDATE_PERSISTENCE_PRIMARY_NAMESPACE && s == self.mon_key {
			if let Ok(id) = k.parse::<u64>() {
				let present = self.map.lock().unwrap().contains_key(&key(p, s, k));
				let stored = self.stored_id.lock().unwrap().unwrap_or(0);
				if present && id > stored {
					self.needed_removed.lock().unwrap().push(format!("U{}>M{}", id, stored));
				}
			}
		}
		self.applied.lock().unwrap().push(e);
		self.map.lock().unwrap().remove(&key(p, s, k));
		Ok(())
	}
	fn list(&self, p: &str, s: &str) -> Result<Vec<String>, io::Error> {
		let (_, ok) = self.tick("L".to_string());
		if !ok {
			return Err(io::Error::new(io::ErrorKind::Other, "scripted failure"));
		}
		let m = self.map.lock().unwrap();
		Ok(m.keys().filter(|(a, b, _)| a == p && b == s).map(|(_, _, c)| c.clone()).collect())
	}
}

/// Replays the recorded persister calls (real monitors and updates) on a fresh real
/// `MonitorUpdatingPersister` over a store that fails at scripted operation indices. A call that does
/// not return `Completed` ends the history (the node halts on `UnrecoverableError`); then recovery must
/// return a monitor at least as recent as the last update reported persisted.
fn replay_faults(
	seed: u64, mp: u64, n_scripts: usize, call_end: &Vec<(u64, Vec<u8>, String)>, upd_bytes: &Vec<Option<Vec<u8>>>,
	mon_key: &str, cfg: &TestChanMonCfg,
) {
	use lightning::util::ser::Readable;
	let keys = &cfg.keys_manager;
	let mut rng = Rng(seed ^ 0xfa17 ^ mp);
	// fault-free pass to learn the operation indices
	let mut scripts: Vec<Vec<usize>> = vec![vec![]];
	let mut first = true;
	let mut si = 0usize;
	while si < scripts.len() {
		let script = scripts[si].clone();
		let st = FaultStore {
			map: Mutex::new(HashMap::new()),
			n: Mutex::new(0),
			fail: script.iter().cloned().collect(),
			attempts: Mutex::new(Vec::new()),
			applied: Mutex::new(Vec::new()),
			stored_id: Mutex::new(None),
			needed_removed: Mutex::new(Vec::new()),
			mon_key: mon_key.to_string(),
			keys: keys as *const _,
		};
		let p = MonitorUpdatingPersister::new(&st, &cfg.logger, mp, keys, keys, &cfg.tx_broadcaster, &cfg.fee_estimator);
		let mut per_call: Vec<String> = Vec::new();
		let mut all_attempts: Vec<(usize, String)> = Vec::new();
		let mut reported: Option<u64> = None;
		let mut stop: Option<usize> = None;
		let mut applied_lazy_marks: Vec<bool> = Vec::new();
		for (ci, (mon_id, mon_b, name)) in call_end.iter().enumerate() {
			st.attempts.lock().unwrap().clear();
			let status_ok;
			if name.starts_with('C') {
				let lazy = name.ends_with('1');
				status_ok = p.cleanup_stale_updates(lazy).is_ok();
			} else if name.starts_with('A') || name.starts_with('E') {
				continue;
			} else {
				let (_, mon) = match read_monitor(mon_b, keys) {
					Some(x) => x,
					None => {
						println!("R fault mp={} sid={} cannot-deserialize-monitor call={}", mp, si, ci);
						return;
					},
				};
				let mname = mon.persistence_key();
				let status = if name.starts_with('N') {
					Persist::<TestChannelSigner>::persist_new_channel(&p, mname, &mon)
				} else {
					let upd = upd_bytes[ci].as_ref().map(|b| ChannelMonitorUpdate::read(&mut &b[..]).unwrap());
					Persist::<TestChannelSigner>::update_persisted_channel(&p, mname, upd.as_ref(), &mon)
				};
				status_ok = status == ChannelMonitorUpdateStatus::Completed;
				if status_ok {
					reported = Some(*mon_id);
				}
			}
			let at = st.attempts.lock().unwrap().clone();
			per_call.push(at.iter().map(|(_, d, ok)| format!("{}{}", d, if *ok { "+" } else { "-" })).collect::<Vec<_>>().join(" "));
			for (i, d, _) in at.iter() {
				all_attempts.push((*i, d.clone()));
			}
			let _ = &mut applied_lazy_marks;
			if !status_ok && !name.starts_with('C') {
				stop = Some(ci);
				break;
			}
		}
		if first {
			first = false;
			// scripts: every monitor/update write, a sample of removes, every list/read, some multi-faults
			let writes: Vec<usize> = all_attempts.iter().filter(|(_, d)| d.starts_with("W:")).map(|(i, _)| *i).collect();
			let removes: Vec<usize> = all_attempts.iter().filter(|(_, d)| d.starts_with("R:")).map(|(i, _)| *i).collect();
			let reads: Vec<usize> = all_attempts.iter().filter(|(_, d)| d == "G" || d == "L").map(|(i, _)| *i).collect();
			let mut cand: Vec<Vec<usize>> = writes.iter().map(|i| vec![*i]).collect();
			for i in reads.iter() {
				cand.push(vec![*i]);
			}
			for _ in 0..6 {
				if !removes.is_empty() {
					let mut v = Vec::new();
					for r in removes.iter() {
						if rng.below(3) == 0 {
							v.push(*r);
						}
					}
					cand.push(v);
				}
			}
			for _ in 0..6 {
				let mut v = Vec::new();
				for _ in 0..(2 + rng.below(3)) {
					if !all_attempts.is_empty() {
						v.push(all_attempts[rng.below(all_attempts.len() as u64) as usize].0);
					}
				}
				// removes fail together with one write: the seeded pattern "write fails, removes succeed" is the single-write script
				cand.push(v);
			}
			while cand.len() > n_scripts {
				let j = rng.below(cand.len() as u64) as usize;
				cand.swap_remove(j);
			}
			scripts.extend(cand);
		}
		// recovery from the durable state; and from the state in which no lazy removal took effect
		let mut recs = Vec::new();
		let mut ok_all = true;
		for mode in 0..2 {
			let st2 = RecStore::new(None);
			if mode == 0 {
				*st2.map.lock().unwrap() = st.map.lock().unwrap().clone();
			} else {
				let mut m = st2.map.lock().unwrap();
				for e in st.applied.lock().unwrap().iter() {
					match e {
						Entry::Write(k, v) => {
							m.insert(k.clone(), v.clone());
						},
						Entry::Remove(k, lazy) => {
							if !*lazy {
								m.remove(k);
							}
						},
						_ => {},
					}
				}
			}
			let p2 = MonitorUpdatingPersister::new(&st2, &cfg.logger, mp, keys, keys, &cfg.tx_broadcaster, &cfg.fee_estimator);
			let res = panic::catch_unwind(AssertUnwindSafe(|| p2.read_all_channel_monitors_with_updates()));
			let r = match res {
				Err(e) => format!("PANIC:{}", panic_msg(e).replace(' ', "_")),
				Ok(Err(e)) => format!("ERR:{}", format!("{}", e).replace(' ', "_")),
				Ok(Ok(v)) => {
					if v.is_empty() {
						if reported.is_some() { ok_all = false; }
						"none".to_string()
					} else if v.len() > 1 {
						ok_all = false;
						format!("many{}", v.len())
					} else {
						let id = v[0].1.get_latest_update_id();
						let ev_r = v[0].1.get_and_clear_pending_monitor_events();
						let mut eq = false;
						let mut same_tip = false;
						for (cid, bytes, nm) in call_end.iter() {
							if *cid == id && !nm.starts_with('C') && !bytes.is_empty() {
								if let Some((bb2, m2)) = read_monitor(bytes, keys) {
									if bb2 == v[0].0 {
										same_tip = true;
										if mon_eq(&v[0].1, &ev_r, &m2) { eq = true; break; }
									}
								}
							}
						}
						if reported.map(|r| id < r).unwrap_or(false) || (same_tip && !eq) {
							ok_all = false;
						}
						format!("{}{}", id, if eq { "=" } else if same_tip { "!" } else { "~" })
					}
				},
			};
			if r.starts_with("PANIC") || r.starts_with("ERR") {
				ok_all = false;
			}
			recs.push(r);
		}
		let nr = st.needed_removed.lock().unwrap().clone();
		if !nr.is_empty() {
			ok_all = false;
		}
		println!(
			"R fault mp={} sid={} fails={} stop={} reported={} rec={} needed_removed=[{}] ok={}",
			mp, si, script.iter().map(|x| x.to_string()).collect::<Vec<_>>().join(","),
			stop.map(|x| x.to_string()).unwrap_or("-".to_string()),
			reported.map(|x| x.to_string()).unwrap_or("-".to_string()),
			recs.join("/"), nr.join(","), if ok_all { 1 } else { 0 }
		);
		println!("R fattempts mp={} sid={} {}", mp, si, per_call.join(" | "));
		si += 1;
	}
}

// ---------------------------------------------------------------- H1: asynchronous persister
struct OneShot(Arc<Mutex<(Option<Result<(), io::Error>>, Option<Waker>)>>);
impl Future for OneShot {
	type Output = Result<(), io::Error>;
	fn poll(self: Pin<&mut Self>, cx: &mut Context<'_>) -> Poll<Self::Output> {
		let mut s = self.0.lock().unwrap();
		match s.0.take() {
			Some(r) => Poll::Ready(r),
			None => {
				s.1 = Some(cx.waker().clone());
				Poll::Pending
			},
		}
	}
}

/// Asynchronous store: a write is ISSUED by `write()` and becomes durable only when the harness
/// completes it; writes to one key complete in issue order, writes to different keys in any order.
#[derive(Default)]
struct AsyncStore {
	durable: Mutex<HashMap<Key, Vec<u8>>>,
	pending: Mutex<Vec<(Key, Vec<u8>, Arc<Mutex<(Option<Result<(), io::Error>>, Option<Waker>)>>)>>,
}
impl AsyncStore {
	/// completes the oldest pending write on `k` (per-key order respected)
	fn complete(&self, k: &Key) -> bool {
		let mut p = self.pending.lock().unwrap();
		if let Some(pos) = p.iter().position(|(kk, _, _)| kk == k) {
			let (kk, v, fut) = p.remove(pos);
			self.durable.lock().unwrap().insert(kk, v);
			let mut f = fut.lock().unwrap();
			f.0 = Some(Ok(()));
			if let Some(w) = f.1.take() {
				w.wake();
			}
			true
		} else {
			false
		}
	}
	fn pending_keys(&self) -> Vec<Key> {
		self.pending.lock().unwrap().iter().map(|(k, _, _)| k.clone()).collect()
	}
}
impl KVStore for AsyncStore {
	fn read(&self, p: &str, s: &str, k: &str) -> impl Future<Output = Result<Vec<u8>, io::Error>> + 'static + Send {
		let r = match self.durable.lock().unwrap().get(&key(p, s, k)) {
			Some(v) => Ok(v.clone()),
			None => Err(io::Error::new(io::ErrorKind::NotFound, "not found")),
		};
		async move { r }
	}
	fn write(&self, p: &str, s: &str, k: &str, buf: Vec<u8>) -> impl Future<Output = Result<(), io::Error>> + 'static + Send {
		let st = Arc::new(Mutex::new((None, None)));
		self.pending.lock().unwrap().push((key(p, s, k), buf, st.clone()));
		OneShot(st)
	}
	fn remove(&self, p: &str, s: &str, k: &str, _lazy: bool) -> impl Future<Output = Result<(), io::Error>> + 'static + Send {
		self.durable.lock().unwrap().remove(&key(p, s, k));
		async move { Ok(()) }
	}
	fn list(&self, p: &str, s: &str) -> impl Future<Output = Result<Vec<String>, io::Error>> + 'static + Send {
		let m = self.durable.lock().unwrap();
		let r: Vec<String> = m.keys().filter(|(a, b, _)| a == p && b == s).map(|(_, _, c)| c.clone()).collect();
		async move { Ok(r) }
	}
}

#[derive(Default)]
struct Spawner {
	q: Mutex<Vec<Pin<Box<dyn Future<Output = ()> + Send>>>>,
}
struct Completion<O>(Arc<Mutex<Option<O>>>);
impl<O> Future for Completion<O> {
	type Output = Result<O, ()>;
	fn poll(self: Pin<&mut Self>, _: &mut Context<'_>) -> Poll<Result<O, ()>> {
		match self.0.lock().unwrap().take() {
			Some(o) => Poll::Ready(Ok(o)),
			None => Poll::Pending,
		}
	}
}
impl<O> Unpin for Completion<O> {}
fn rw_clone(_: *const ()) -> RawWaker {
	RawWaker::new(core::ptr::null(), &VT)
}
fn rw_nop(_: *const ()) {}
static VT: RawWakerVTable = RawWakerVTable::new(rw_clone, rw_nop, rw_nop, rw_nop);
impl Spawner {
	fn poll_all(&self) {
		let waker = unsafe { Waker::from_raw(RawWaker::new(core::ptr::null(), &VT)) };
		let mut cx = Context::from_waker(&waker);
		let mut q = self.q.lock().unwrap();
		q.retain_mut(|f| f.as_mut().poll(&mut cx).is_pending());
	}
}
struct SpawnerRef(Arc<Spawner>);
impl FutureSpawner for SpawnerRef {
	type E = ();
	type SpawnedFutureResult<O> = Completion<O>;
	fn spawn<O: Send + 'static, T: Future<Output = O> + Send + 'static>(&self, future: T) -> Completion<O> {
		let slot = Arc::new(Mutex::new(None));
		let s2 = slot.clone();
		self.0.q.lock().unwrap().push(Box::pin(async move {
			let o = future.await;
			*s2.lock().unwrap() = Some(o);
		}));
		Completion(slot)
	}
}

fn run_h1(_seed: u64) {
	let (monitor, updates, chan_id);
	let mut chanmon_cfgs = create_chanmon_cfgs(2);
	{
		let node_cfgs = create_node_cfgs(2, &chanmon_cfgs);
		let node_chanmgrs = create_node_chanmgrs(2, &node_cfgs, &[None, None]);
		let nodes = create_network(2, &node_cfgs, &node_chanmgrs);
		*nodes[0].connect_style.borrow_mut() = ConnectStyle::BestBlockFirst;
		*nodes[1].connect_style.borrow_mut() = ConnectStyle::BestBlockFirst;
		let (_, _, cid, _) = create_announced_chan_between_nodes(&nodes, 0, 1);
		chan_id = cid;
		monitor = nodes[0].chain_monitor.chain_monitor.get_monitor(chan_id).unwrap().clone();
		send_payment(&nodes[0], &[&nodes[1]], 1_000_000);
		updates = nodes[0].chain_monitor.monitor_updates.lock().unwrap().remove(&chan_id).unwrap();
		std::mem::forget(nodes);
	}
	let base_id = monitor.get_latest_update_id();
	let mon_key = monitor.persistence_key().to_string();
	println!("R h1 setup monitor_id={} updates={:?}", base_id, updates.iter().map(|u| u.update_id).collect::<Vec<_>>());
	let u0 = chanmon_cfgs.remove(0);
	let (logger, keys_manager, tx_broadcaster, fee_estimator) =
		(Arc::new(u0.logger), Arc::new(u0.keys_manager), Arc::new(u0.tx_broadcaster), Arc::new(u0.fee_estimator));
	// in-memory monitors as of each update id
	let mut mems: Vec<ChannelMonitor<TestChannelSigner>> = vec![monitor.clone()];
	for u in updates.iter().take(4) {
		let m2 = mems.last().unwrap().clone();
		m2.update_monitor(u, &&*tx_broadcaster, &&*fee_estimator, &&*logger).unwrap();
		mems.push(m2);
	}
	for maxp in [42u64, 2u64] {
		// issue the monitor and four updates; then complete an arbitrary subset of the pending writes
		// (same-key writes in issue order, different keys freely), crash, recover
		let npend_probe = 4usize;
		for mask in 0u32..(1 << npend_probe) {
			let kv = Arc::new(AsyncStore::default());
			let spawner = Arc::new(Spawner::default());
			let persister = MonitorUpdatingPersisterAsync::new(
				Arc::clone(&kv),
				SpawnerRef(Arc::clone(&spawner)),
				Arc::clone(&logger),
				maxp,
				Arc::clone(&keys_manager),
				Arc::clone(&keys_manager),
				Arc::clone(&tx_broadcaster),
				Arc::clone(&fee_estimator),
			);
			let chain_source = test_utils::TestChainSource::new(bitcoin::Network::Testnet);
			let cm = ChainMonitor::new_async_beta(
				Some(&chain_source),
				Arc::clone(&tx_broadcaster),
				Arc::clone(&logger),
				Arc::clone(&fee_estimator),
				persister,
				Arc::clone(&keys_manager),
				keys_manager.get_peer_storage_key(),
				false,
			);
			let _ = cm.watch_channel(chan_id, monitor.clone()).unwrap();
			let mkey = key(CHANNEL_MONITOR_PERSISTENCE_PRIMARY_NAMESPACE, "", &mon_key);
			kv.complete(&mkey);
			spawner.poll_all();
			let _ = cm.release_pending_monitor_events();
			for u in updates.iter().take(4) {
				let _ = cm.update_channel(chan_id, u);
			}
			spawner.poll_all();
			let pend = kv.pending_keys();
			// choose which pending writes complete; a same-key write completes only after its predecessors
			let mut chosen: Vec<Key> = Vec::new();
			let mut blocked: Vec<Key> = Vec::new();
			let mut desc = Vec::new();
			for (pi, k) in pend.iter().enumerate() {
				let want = (mask >> pi) & 1 == 1;
				if want && !blocked.contains(k) {
					chosen.push(k.clone());
					desc.push(if k.0 == CHANNEL_MONITOR_PERSISTENCE_PRIMARY_NAMESPACE { "M".to_string() } else { format!("U{}", k.2) });
				} else {
					blocked.push(k.clone());
				}
			}
			for k in chosen.iter() {
				kv.complete(k);
			}
			spawner.poll_all();
			spawner.poll_all();
			let mut reported: Vec<u64> = Vec::new();
			for e in cm.release_pending_monitor_events().iter() {
				for x in e.2.iter() {
					if let lightning::chain::channelmonitor::MonitorEvent::Completed { monitor_update_id, .. } = x {
						reported.push(*monitor_update_id);
					}
				}
			}
			let snap = RecStore::new(None);
			*snap.map.lock().unwrap() = kv.durable.lock().unwrap().clone();
			// expectation: the stored monitor, then the consecutive run of durable updates
			let stored_id = {
				let m = snap.map.lock().unwrap();
				read_monitor_sentinel(m.get(&mkey).unwrap(), &keys_manager).map(|(_, mm)| mm.get_latest_update_id()).unwrap_or(u64::MAX)
			};
			let mut expect = stored_id;
			loop {
				let k = key(CHANNEL_MONITOR_UPDATE_PERSISTENCE_PRIMARY_NAMESPACE, &mon_key, &format!("{}", expect + 1));
				if snap.map.lock().unwrap().contains_key(&k) {
					expect += 1;
				} else {
					break;
				}
			}
			let p2 = MonitorUpdatingPersister::new(&snap, &*logger, maxp, &*keys_manager, &*keys_manager, &*tx_broadcaster, &*fee_estimator);
			let res = panic::catch_unwind(AssertUnwindSafe(|| p2.read_all_channel_monitors_with_updates()));
			let (out, eq) = match res {
				Err(e) => (format!("PANIC:{}", panic_msg(e).replace(' ', "_")), 0),
				Ok(Err(e)) => (format!("ERR:{}", format!("{}", e).replace(' ', "_")), 0),
				Ok(Ok(v)) => {
					if v.len() != 1 {
						(format!("COUNT:{}", v.len()), 0)
					} else {
						let id = v[0].1.get_latest_update_id();
						let idx = (id - base_id) as usize;
						let eq = if idx < mems.len() && mems[idx] == v[0].1 { 1 } else { 0 };
						(format!("OK:{}", id), eq)
					}
				},
			};
			println!(
				"R h1 maxp={} mask={} pending={} completed=[{}] reported={:?} stored_id={} expect_id={} recovery={} eq={}",
				maxp, mask, pend.len(), desc.join(","), reported, stored_id, expect, out, eq
			);
			std::mem::forget(cm);
		}
	}
}

fn read_monitor_sentinel(
	bytes: &[u8], keys: &test_utils::TestKeysInterface,
) -> Option<(BlockLocator, ChannelMonitor<TestChannelSigner>)> {
	let b = if bytes.starts_with(&[0xFF, 0xFF]) { &bytes[2..] } else { bytes };
	read_monitor(b, keys)
}

fn main() {
	let args: Vec<String> = std::env::args().collect();
	let seed: u64 = args.get(2).and_then(|s| s.parse().ok()).unwrap_or(1);
	panic::set_hook(Box::new(|_| {}));
	match args.get(1).map(|s| s.as_str()) {
		Some("sync") => {
			let mp: u64 = args[3].parse().unwrap();
			let n_pay: usize = args[4].parse().unwrap();
			let max_crash: usize = args[5].parse().unwrap();
			let n_faults: usize = args.get(6).and_then(|s| s.parse().ok()).unwrap_or(0);
			let finale = args.get(7).map(|s| s == "1").unwrap_or(false);
			let r = panic::catch_unwind(|| run_sync(seed, mp, n_pay, max_crash, n_faults, finale));
			if let Err(e) = r {
				println!("R harness-panic mp={} {}", mp, panic_msg(e).replace('\n', " "));
			}
		},
		Some("h1") => {
			let r = panic::catch_unwind(|| run_h1(seed));
			if let Err(e) = r {
				println!("R harness-panic h1 {}", panic_msg(e).replace('\n', " "));
			}
		},
		_ => println!("R usage"),
	}
}
