//! C17 functional correspondence: drives the real `NetworkGraph` / `P2PGossipSync` with really
//! signed gossip messages and prints, after every operation, the result class, the signature
//! oracle (computed here with real secp256k1) and a canonical dump of the graph.
//!
//! Usage:  h_gossip keys <n_valid> <n_bad>      print the key pool (hex) and exit
//!         h_gossip                              read op lines on stdin, one output line per op
//!
//! Op lines (whitespace separated; `k` = key index into the pool: 0.. valid keys, 1000.. byte
//! strings that are not curve points):
//!   S <t0>                                   new session (fresh graph); t0 = wall clock the script assumes
//!   A <via> <signed> <mid> <scid> <k1> <k2> <kb1> <kb2> <chain> <feat> <excess> <s1> <s2> <s3> <s4> <utxo>
//!        s_i: key index that signs signature i, -1: signature over a different digest
//!        utxo: n | o<sats> | w<sats> (wrong script) | c (unknown chain) | t (unknown tx)
//!   P <scid> <cap|-1> <ts> <feat> <k1> <k2>  add_channel_from_partial_announcement
//!   U <via> <signed> <mid> <scid> <ts> <mflags> <cflags> <cltv> <hmin> <hmax> <base> <prop> <excess> <chain> <signer> <only_verify>
//!   N <via> <signed> <mid> <ts> <k> <content> <excess> <excess_addr> <signer>
//!   FC <scid> <permanent> <via_network_update>
//!   FN <k> <permanent> <via_network_update>
//!   PR <now>
//!   RT                                       write, read back, compare (graph unchanged)
//!   RL                                       write, read back, continue with the re-read graph
//!   AA <via> <signed> <mid> <scid> <k1> <k2> <kb1> <kb2> <chain> <feat> <excess> <s1> <s2> <s3> <s4> <fid> <pre>
//!        as A, but the UTXO lookup answers UtxoResult::Async(future <fid>); pre: `-` or a result
//!        (o<sats> | w<sats> | c | t) the future already holds when it is handed over
//!   AR <fid> <result>                        UtxoFuture::resolve
//!   PL                                       get_and_clear_pending_msg_events (check_resolved_futures)
//!   G <ver> <ts> <time|-1> <nn> (<k> <flag>)* <na> (<feat> <scid> <i1> <i2> <funding|-1>)*
//!     <dc> <dm> <db> <dp> <dx> <nu> (<scid> <flags> <cltv> <hmin> <base> <prop> <hmax>)*
//!        a rapid-gossip-sync snapshot, serialized here and applied with the real
//!        RapidGossipSync::update_network_graph_no_std (absent update fields are given as -1)
use std::collections::HashMap;
use std::sync::Arc;
use std::time::{SystemTime, UNIX_EPOCH};

use bitcoin::amount::Amount;
use bitcoin::blockdata::opcodes;
use bitcoin::blockdata::script::{Builder, ScriptBuf};
use bitcoin::constants::ChainHash;
use bitcoin::hashes::sha256::Hash as Sha256;
use bitcoin::hashes::sha256d::Hash as Sha256d;
use bitcoin::hashes::Hash;
use bitcoin::network::Network;
use bitcoin::secp256k1::ecdsa::Signature;
use bitcoin::secp256k1::{All, Message, PublicKey, Secp256k1, SecretKey};
use bitcoin::TxOut;

use lightning::ln::msgs::{
	ChannelAnnouncement, ChannelUpdate, ErrorAction, LightningError, NodeAnnouncement,
	RoutingMessageHandler, SocketAddress, UnsignedChannelAnnouncement, UnsignedChannelUpdate,
	UnsignedNodeAnnouncement,
};
use lightning::routing::gossip::verif_hooks_gossip as vh;
use lightning::routing::gossip::{
	ChannelUpdateInfo, NetworkGraph, NetworkUpdate, NodeAlias, NodeAnnouncementInfo, NodeId,
	P2PGossipSync,
};
use lightning::ln::msgs::{BaseMessageHandler, MessageSendEvent};
use lightning::routing::utxo::{UtxoFuture, UtxoLookup, UtxoLookupError, UtxoResult};
use lightning::util::ser::BigSize;
use lightning_rapid_gossip_sync::{GraphSyncError, RapidGossipSync};
use lightning::types::features::{ChannelFeatures, NodeFeatures};
use lightning::util::logger::{Logger, Record};
use lightning::util::ser::{ReadableArgs, Writeable};
use lightning::util::wakers::Notifier;
use verif_harness::*;

struct NullLogger;
impl Logger for NullLogger {
	fn log(&self, _record: Record) {}
}
type Graph = NetworkGraph<Arc<NullLogger>>;

struct FixedLookup(Result<TxOut, UtxoLookupError>);
impl UtxoLookup for FixedLookup {
	fn get_utxo(&self, _chain_hash: &ChainHash, _scid: u64, _n: Arc<Notifier>) -> UtxoResult {
		UtxoResult::Sync(self.0.clone())
	}
}

/// A lookup answering with a future (kept in `slot` so that the harness can resolve it later).
struct AsyncLookup {
	existing: Option<UtxoFuture>,
	pre: Option<Result<TxOut, UtxoLookupError>>,
	slot: std::sync::Mutex<Option<UtxoFuture>>,
}
impl UtxoLookup for AsyncLookup {
	fn get_utxo(&self, _chain_hash: &ChainHash, _scid: u64, n: Arc<Notifier>) -> UtxoResult {
		let fut = match &self.existing {
			Some(f) => f.clone(),
			None => UtxoFuture::new(n),
		};
		if let Some(r) = &self.pre {
			fut.resolve(r.clone());
		}
		*self.slot.lock().unwrap() = Some(fut.clone());
		UtxoResult::Async(fut)
	}
}

struct Pool {
	secp: Secp256k1<All>,
	sks: Vec<SecretKey>,
	pks: Vec<NodeId>,
	bad: Vec<NodeId>,
	by_id: HashMap<NodeId, i64>,
}

fn tagged(tag: &str, i: u32, ctr: u32) -> [u8; 32] {
	let mut v = tag.as_bytes().to_vec();
	v.extend_from_slice(&i.to_be_bytes());
	v.extend_from_slice(&ctr.to_be_bytes());
	Sha256::hash(&v).to_byte_array()
}

impl Pool {
	fn new(n_valid: usize, n_bad: usize) -> Pool {
		let secp = Secp256k1::new();
		let mut sks = Vec::new();
		let mut pks = Vec::new();
		let mut by_id = HashMap::new();
		for i in 0..n_valid {
			let mut ctr = 0;
			let sk = loop {
				if let Ok(sk) = SecretKey::from_slice(&tagged("verif-gossip-key", i as u32, ctr)) {
					break sk;
				}
				ctr += 1;
			};
			let id = NodeId::from_pubkey(&PublicKey::from_secret_key(&secp, &sk));
			by_id.insert(id, i as i64);
			sks.push(sk);
			pks.push(id);
		}
		let mut bad = Vec::new();
		for i in 0..n_bad {
			let mut ctr = 0;
			let id = loop {
				let mut b = [0u8; 33];
				b[0] = 2 + (i as u8 & 1);
				b[1..].copy_from_slice(&tagged("verif-gossip-badkey", i as u32, ctr));
				if PublicKey::from_slice(&b).is_err() {
					break NodeId::from_slice(&b).unwrap();
				}
				ctr += 1;
			};
			by_id.insert(id, 1000 + i as i64);
			bad.push(id);
		}
		Pool { secp, sks, pks, bad, by_id }
	}
	fn id(&self, k: i64) -> NodeId {
		if k >= 1000 {
			self.bad[(k - 1000) as usize]
		} else {
			self.pks[k as usize]
		}
	}
	fn name(&self, id: &NodeId) -> String {
		match self.by_id.get(id) {
			Some(k) => format!("{}", k),
			None => format!("?{}", hex(id.as_slice())),
		}
	}
	/// Signs `digest` with pool key `k`; `k < 0`: a signature (by key 0) over another digest.
	fn sign(&self, digest: &[u8; 32], k: i64) -> Signature {
		if k < 0 || k >= 1000 {
			let mut d = *digest;
			d[0] ^= 0x55;
			self.secp.sign_ecdsa(&Message::from_digest(d), &self.sks[0])
		} else {
			self.secp.sign_ecdsa(&Message::from_digest(*digest), &self.sks[k as usize])
		}
	}
	/// (key parses, signature verifies under it)
	fn verifies(&self, digest: &[u8; 32], sig: &Signature, id: &NodeId) -> (bool, bool) {
		match PublicKey::from_slice(id.as_slice()) {
			Ok(pk) => (true, self.secp.verify_ecdsa(&Message::from_digest(*digest), sig, &pk).is_ok()),
			Err(_) => (false, false),
		}
	}
	/// The pool key under which `sig` verifies, or -1 (-2 if more than one).
	fn signer_of(&self, digest: &[u8; 32], sig: &Signature) -> i64 {
		let mut found = -1;
		for (i, id) in self.pks.iter().enumerate() {
			if self.verifies(digest, sig, id).1 {
				found = if found == -1 { i as i64 } else { -2 };
			}
		}
		found
	}
}

fn digest_of<M: Writeable>(m: &M) -> [u8; 32] {
	Sha256d::hash(&m.encode()[..]).to_byte_array()
}

fn chain(c: i64) -> ChainHash {
	ChainHash::using_genesis_block(if c == 0 { Network::Testnet } else { Network::Bitcoin })
}

fn feat_bytes(f: i64) -> Vec<u8> {
	// odd (optional) bits only
	match f {
		0 => vec![],
		1 => vec![0x02],
		2 => vec![0x08],
		_ => vec![0x0a],
	}
}

fn funding_script(a: &NodeId, b: &NodeId) -> ScriptBuf {
	let (x, y) = if a.as_slice() < b.as_slice() { (a, b) } else { (b, a) };
	let kx: [u8; 33] = *x.as_array();
	let ky: [u8; 33] = *y.as_array();
	Builder::new()
		.push_opcode(opcodes::all::OP_PUSHNUM_2)
		.push_slice(&kx)
		.push_slice(&ky)
		.push_opcode(opcodes::all::OP_PUSHNUM_2)
		.push_opcode(opcodes::all::OP_CHECKMULTISIG)
		.into_script()
		.to_p2wsh()
}

/// Node announcement content number `c` -> (features, rgb, alias, addresses)
fn node_content(c: i64) -> (NodeFeatures, [u8; 3], NodeAlias, Vec<SocketAddress>) {
	let c8 = c as u8;
	let mut alias = [0u8; 32];
	alias[0] = b'n';
	alias[1] = c8;
	let mut addrs = Vec::new();
	for j in 0..(c % 3) {
		addrs.push(SocketAddress::TcpIpV4 { addr: [10, 0, c8, j as u8], port: 9735 });
	}
	(NodeFeatures::from_le_bytes(feat_bytes(c % 4)), [c8, c8.wrapping_add(1), 7], NodeAlias(alias), addrs)
}

fn content_key(f: &NodeFeatures, rgb: &[u8; 3], alias: &NodeAlias, addrs: &[SocketAddress]) -> String {
	format!("{}/{}/{}/{:?}", hex(f.le_flags()), hex(rgb), hex(&alias.0), addrs)
}

fn res_err(e: &LightningError) -> String {
	let action = match &e.action {
		ErrorAction::IgnoreError => "IgnoreError".to_string(),
		ErrorAction::IgnoreAndLog(l) => format!("IgnoreAndLog({:?})", l),
		ErrorAction::IgnoreDuplicateGossip => "IgnoreDuplicateGossip".to_string(),
		ErrorAction::SendWarningMessage { msg, .. } => {
			if msg.data != e.err {
				"SendWarningMessage(text differs)".to_string()
			} else {
				"SendWarningMessage".to_string()
			}
		},
		ErrorAction::DisconnectPeer { .. } => "DisconnectPeer".to_string(),
		ErrorAction::DisconnectPeerWithWarning { .. } => "DisconnectPeerWithWarning".to_string(),
		ErrorAction::SendErrorMessage { .. } => "SendErrorMessage".to_string(),
	};
	format!("err:{}:{}", action, e.err)
}

struct Session {
	graph: Graph,
	msgs: HashMap<Vec<u8>, i64>,
	contents: HashMap<String, i64>,
	/// futures handed out, with the right / wrong funding script of their announcement
	futures: HashMap<i64, (UtxoFuture, ScriptBuf, ScriptBuf)>,
}

impl Session {
	fn new() -> Session {
		let mut contents = HashMap::new();
		for c in 0..64 {
			let (f, rgb, alias, addrs) = node_content(c);
			contents.insert(content_key(&f, &rgb, &alias, &addrs), c);
		}
		// what a rapid-gossip-sync reminder announces for a node without announcement
		contents.insert(content_key(&NodeFeatures::empty(), &[0, 0, 0], &NodeAlias([0u8; 32]), &[]), 64);
		Session {
			graph: NetworkGraph::new(Network::Testnet, Arc::new(NullLogger)),
			msgs: HashMap::new(),
			contents,
			futures: HashMap::new(),
		}
	}

	fn mid<M: Writeable>(&self, m: &Option<M>) -> String {
		match m {
			None => "-1".to_string(),
			Some(m) => match self.msgs.get(&m.encode()) {
				Some(i) => format!("{}", i),
				None => "?".to_string(),
			},
		}
	}

	fn dir(&self, d: &Option<ChannelUpdateInfo>) -> String {
		match d {
			None => "0".to_string(),
			Some(u) => format!(
				"1,{},{},{},{},{},{},{},{}",
				u.last_update,
				u.enabled as u8,
				u.cltv_expiry_delta,
				u.htlc_minimum_msat,
				u.htlc_maximum_msat,
				u.fees.base_msat,
				u.fees.proportional_millionths,
				self.mid(&u.last_update_message)
			),
		}
	}

	fn dump_of(&self, pool: &Pool, g: &Graph, with_removed: bool) -> String {
		let ro = g.read_only();
		let mut chans: Vec<_> = ro.channels().unordered_iter().collect();
		chans.sort_by_key(|(k, _)| **k);
		let mut cs = Vec::new();
		for (scid, c) in chans {
			let feat = match hex(c.features.le_flags()).as_str() {
				"" => "0".to_string(),
				"02" => "1".to_string(),
				"08" => "2".to_string(),
				"0a" => "3".to_string(),
				o => format!("?{}", o),
			};
			cs.push(format!(
				"{},{},{},{},{},{},{},{},{}",
				scid,
				feat,
				pool.name(&c.node_one),
				pool.name(&c.node_two),
				c.capacity_sats.map(|v| v as i128).unwrap_or(-1),
				self.mid(&c.announcement_message),
				vh::announcement_received_time(c),
				self.dir(&c.one_to_two),
				self.dir(&c.two_to_one)
			));
		}
		let mut nodes: Vec<_> = ro.nodes().unordered_iter().collect();
		nodes.sort_by_key(|(k, _)| **k);
		let mut ns = Vec::new();
		for (id, n) in nodes {
			let ann = match &n.announcement_info {
				None => "0".to_string(),
				Some(info) => {
					let key = content_key(info.features(), &info.rgb(), info.alias(), info.addresses());
					let content = match self.contents.get(&key) {
						Some(c) => format!("{}", c),
						None => format!("?{}", key),
					};
					let m = match info {
						NodeAnnouncementInfo::Relayed(m) => self.mid(&Some(m.clone())),
						NodeAnnouncementInfo::Local(_) => "-1".to_string(),
					};
					format!("1,{},{},{}", info.last_update(), content, m)
				},
			};
			let ch: Vec<String> = n.channels.iter().map(|s| s.to_string()).collect();
			ns.push(format!("{},{},{}", pool.name(id), ann, ch.join(",")));
		}
		let mut out = format!("C {} | N {}", cs.join(";"), ns.join(";"));
		if with_removed {
			let rc: Vec<String> = vh::removed_channels(g)
				.iter()
				.map(|(k, t)| format!("{}:{}", k, t.map(|v| v as i128).unwrap_or(-1)))
				.collect();
			let rn: Vec<String> = vh::removed_nodes(g)
				.iter()
				.map(|(k, t)| format!("{}:{}", pool.name(k), t.map(|v| v as i128).unwrap_or(-1)))
				.collect();
			out.push_str(&format!(" | RC {} | RN {}", rc.join(";"), rn.join(";")));
		}
		out
	}

	fn dump(&self, pool: &Pool) -> String {
		self.dump_of(pool, &self.graph, true)
	}

	/// Number of stored full messages whose signatures do NOT verify (real secp256k1) under the keys
	/// the graph attributes them to, or whose contents differ from the stored fields.
	fn stored_bad(&self, pool: &Pool) -> usize {
		let ro = self.graph.read_only();
		let mut bad = 0;
		for (scid, c) in ro.channels().unordered_iter() {
			if let Some(m) = &c.announcement_message {
				let d = digest_of(&m.contents);
				let ok = m.contents.short_channel_id == *scid
					&& m.contents.node_id_1 == c.node_one
					&& m.contents.node_id_2 == c.node_two
					&& pool.verifies(&d, &m.node_signature_1, &m.contents.node_id_1).1
					&& pool.verifies(&d, &m.node_signature_2, &m.contents.node_id_2).1
					&& pool.verifies(&d, &m.bitcoin_signature_1, &m.contents.bitcoin_key_1).1
					&& pool.verifies(&d, &m.bitcoin_signature_2, &m.contents.bitcoin_key_2).1;
				if !ok {
					bad += 1;
				}
			}
			for (dir, node, bit) in [(&c.one_to_two, &c.node_one, 0u8), (&c.two_to_one, &c.node_two, 1u8)] {
				if let Some(u) = dir {
					if let Some(m) = &u.last_update_message {
						let d = digest_of(&m.contents);
						let ok = m.contents.short_channel_id == *scid
							&& m.contents.channel_flags & 1 == bit
							&& m.contents.timestamp == u.last_update
							&& m.contents.htlc_maximum_msat == u.htlc_maximum_msat
							&& m.contents.htlc_minimum_msat == u.htlc_minimum_msat
							&& m.contents.fee_base_msat == u.fees.base_msat
							&& m.contents.fee_proportional_millionths == u.fees.proportional_millionths
							&& m.contents.cltv_expiry_delta == u.cltv_expiry_delta
							&& pool.verifies(&d, &m.signature, node).1;
						if !ok {
							bad += 1;
						}
					}
				}
			}
		}
		for (id, n) in ro.nodes().unordered_iter() {
			if let Some(NodeAnnouncementInfo::Relayed(m)) = &n.announcement_info {
				let d = digest_of(&m.contents);
				if m.contents.node_id != *id || !pool.verifies(&d, &m.signature, id).1 {
					bad += 1;
				}
			}
		}
		bad
	}
}

fn now_secs() -> u64 {
	SystemTime::now().duration_since(UNIX_EPOCH).unwrap().as_secs()
}

fn main() {
	let args: Vec<String> = std::env::args().collect();
	if args.len() >= 4 && args[1] == "keys" {
		let pool = Pool::new(args[2].parse().unwrap(), args[3].parse().unwrap());
		for (i, id) in pool.pks.iter().enumerate() {
			println!("{} {}", i, hex(id.as_slice()));
		}
		for (i, id) in pool.bad.iter().enumerate() {
			println!("{} {}", 1000 + i, hex(id.as_slice()));
		}
		return;
	}
	let pool = Pool::new(24, 4);
	let mut s = Session::new();
	for_each_case(|l| {
		let t: Vec<&str> = l.split_whitespace().collect();
		let n = |i: usize| -> i64 { t[i].parse::<i128>().unwrap() as i64 };
		let (res, oracle) = match t[0] {
			"S" => {
				s = Session::new();
				let t0 = n(1);
				let skew = now_secs() as i64 - t0;
				(format!("session skew_ok={}", (skew.abs() < 600) as u8), String::new())
			},
			"A" | "AA" => {
				let (via, signed, mid, scid) = (n(1) != 0, n(2) != 0, n(3), n(4) as u64);
				let contents = UnsignedChannelAnnouncement {
					features: ChannelFeatures::from_le_bytes(feat_bytes(n(10))),
					chain_hash: chain(n(9)),
					short_channel_id: scid,
					node_id_1: pool.id(n(5)),
					node_id_2: pool.id(n(6)),
					bitcoin_key_1: pool.id(n(7)),
					bitcoin_key_2: pool.id(n(8)),
					excess_data: vec![0x5a; n(11) as usize],
				};
				let d = digest_of(&contents);
				let msg = ChannelAnnouncement {
					node_signature_1: pool.sign(&d, n(12)),
					node_signature_2: pool.sign(&d, n(13)),
					bitcoin_signature_1: pool.sign(&d, n(14)),
					bitcoin_signature_2: pool.sign(&d, n(15)),
					contents: contents.clone(),
				};
				let mid = *s.msgs.entry(msg.encode()).or_insert(mid);
				let mut return_pair: Option<(String, String)> = None;
				let right = funding_script(&contents.bitcoin_key_1, &contents.bitcoin_key_2);
				let wrong = funding_script(&contents.node_id_1, &contents.bitcoin_key_2);
				let parse_res = |u: &str| -> Result<TxOut, UtxoLookupError> {
					match &u[..1] {
						"o" => Ok(TxOut { value: Amount::from_sat(u[1..].parse().unwrap()), script_pubkey: right.clone() }),
						"w" => Ok(TxOut { value: Amount::from_sat(u[1..].parse().unwrap()), script_pubkey: wrong.clone() }),
						"c" => Err(UtxoLookupError::UnknownChain),
						_ => Err(UtxoLookupError::UnknownTx),
					}
				};
				let sig_bits = {
					let keys = [
						(&msg.node_signature_1, &contents.node_id_1),
						(&msg.node_signature_2, &contents.node_id_2),
						(&msg.bitcoin_signature_1, &contents.bitcoin_key_1),
						(&msg.bitcoin_signature_2, &contents.bitcoin_key_2),
					];
					let mut bits = String::new();
					for (sig, id) in keys.iter() {
						let (k, v) = pool.verifies(&d, sig, id);
						bits.push_str(&format!("{}{}", k as u8, v as u8));
					}
					bits
				};
				if t[0] == "AA" {
					let fid = n(16);
					let pre = if t[17] == "-" { None } else { Some(parse_res(t[17])) };
					let pre_ok = match &pre {
						Some(Ok(o)) => (o.script_pubkey == right) as i8,
						_ => -1,
					};
					let lookup = Some(AsyncLookup {
						existing: s.futures.get(&fid).map(|f| f.0.clone()),
						pre,
						slot: std::sync::Mutex::new(None),
					});
					let r = if !signed {
						s.graph.update_channel_from_unsigned_announcement(&contents, &lookup).map(|_| "ok".to_string())
					} else if via {
						P2PGossipSync::new(&s.graph, Some(lookup.as_ref().unwrap()), Arc::new(NullLogger))
							.handle_channel_announcement(None, &msg)
							.map(|b| format!("ok:{}", b))
					} else {
						s.graph.update_channel_from_announcement(&msg, &lookup).map(|_| "ok".to_string())
					};
					if let Some(f) = lookup.as_ref().unwrap().slot.lock().unwrap().take() {
						s.futures.entry(fid).or_insert((f, right.clone(), wrong.clone()));
					}
					return_pair = Some((
						r.unwrap_or_else(|e| res_err(&e)),
						format!("sigs={} script_ok={} mid={}", sig_bits, pre_ok, mid),
					));
				}
				let u = if t[0] == "AA" { "n" } else { t[16] };
				let lookup: Option<FixedLookup> = match &u[..1] {
					"n" => None,
					"o" => Some(FixedLookup(Ok(TxOut {
						value: Amount::from_sat(u[1..].parse().unwrap()),
						script_pubkey: right.clone(),
					}))),
					"w" => Some(FixedLookup(Ok(TxOut {
						value: Amount::from_sat(u[1..].parse().unwrap()),
						script_pubkey: wrong.clone(),
					}))),
					"c" => Some(FixedLookup(Err(UtxoLookupError::UnknownChain))),
					_ => Some(FixedLookup(Err(UtxoLookupError::UnknownTx))),
				};
				let script_ok = match &lookup {
					Some(FixedLookup(Ok(o))) => (o.script_pubkey == right) as i8,
					_ => -1,
				};
				let bits = sig_bits.clone();
				if let Some(p) = return_pair {
					p
				} else {
					let r = if !signed {
						s.graph.update_channel_from_unsigned_announcement(&contents, &lookup).map(|_| "ok".to_string())
					} else if via {
						P2PGossipSync::new(&s.graph, lookup, Arc::new(NullLogger))
							.handle_channel_announcement(None, &msg)
							.map(|b| format!("ok:{}", b))
					} else {
						s.graph.update_channel_from_announcement(&msg, &lookup).map(|_| "ok".to_string())
					};
					(r.unwrap_or_else(|e| res_err(&e)), format!("sigs={} script_ok={} mid={}", bits, script_ok, mid))
				}
			},
			"AR" => {
				let fid = n(1);
				match s.futures.get(&fid) {
					Some((f, right, wrong)) => {
						let u = t[2];
						let res = match &u[..1] {
							"o" => Ok(TxOut { value: Amount::from_sat(u[1..].parse().unwrap()), script_pubkey: right.clone() }),
							"w" => Ok(TxOut { value: Amount::from_sat(u[1..].parse().unwrap()), script_pubkey: wrong.clone() }),
							"c" => Err(UtxoLookupError::UnknownChain),
							_ => Err(UtxoLookupError::UnknownTx),
						};
						f.resolve(res);
						("ok".to_string(), format!("script_ok={}", (&u[..1] == "o") as u8))
					},
					None => ("ok".to_string(), "nofuture=1".to_string()),
				}
			},
			"PL" => {
				let evs = P2PGossipSync::new(&s.graph, None::<FixedLookup>, Arc::new(NullLogger)).get_and_clear_pending_msg_events();
				let mut ids = Vec::new();
				for e in evs {
					ids.push(match e {
						MessageSendEvent::BroadcastChannelAnnouncement { msg, .. } => s.mid(&Some(msg)),
						MessageSendEvent::BroadcastChannelUpdate { msg, .. } => s.mid(&Some(msg)),
						MessageSendEvent::BroadcastNodeAnnouncement { msg } => s.mid(&Some(msg)),
						_ => "?".to_string(),
					});
				}
				(format!("ok:bcast({})", ids.join(",")), String::new())
			},
			"G" => {
				let (ver, ts, time) = (n(1) as u8, n(2) as u32, n(3));
				let mut b: Vec<u8> = vec![76, 68, 75, ver];
				chain(0).write(&mut b).unwrap();
				ts.write(&mut b).unwrap();
				if ver == 2 {
					0u8.write(&mut b).unwrap();
				}
				let mut i = 4;
				let nn = n(i) as usize;
				i += 1;
				(nn as u32).write(&mut b).unwrap();
				for _ in 0..nn {
					let mut kb = *pool.id(n(i)).as_array();
					if ver == 2 {
						kb[0] |= n(i + 1) as u8;
					}
					b.extend_from_slice(&kb);
					i += 2;
				}
				let na = n(i) as usize;
				i += 1;
				(na as u32).write(&mut b).unwrap();
				let mut prev: u64 = 0;
				for _ in 0..na {
					ChannelFeatures::from_le_bytes(feat_bytes(n(i))).write(&mut b).unwrap();
					let scid = n(i + 1) as u64;
					BigSize(scid - prev).write(&mut b).unwrap();
					prev = scid;
					BigSize(n(i + 2) as u64).write(&mut b).unwrap();
					let funding = n(i + 4);
					if ver == 2 && funding >= 0 {
						BigSize(n(i + 3) as u64 | (1 << 63)).write(&mut b).unwrap();
						let mut extra = Vec::new();
						BigSize(funding as u64).write(&mut extra).unwrap();
						extra.write(&mut b).unwrap();
					} else {
						BigSize(n(i + 3) as u64).write(&mut b).unwrap();
					}
					i += 5;
				}
				let (dc, dm, db, dp, dx) = (n(i), n(i + 1), n(i + 2), n(i + 3), n(i + 4));
				i += 5;
				let nu = n(i) as usize;
				i += 1;
				(nu as u32).write(&mut b).unwrap();
				if nu > 0 {
					(dc as u16).write(&mut b).unwrap();
					(dm as u64).write(&mut b).unwrap();
					(db as u32).write(&mut b).unwrap();
					(dp as u32).write(&mut b).unwrap();
					(dx as u64).write(&mut b).unwrap();
				}
				prev = 0;
				for _ in 0..nu {
					let scid = n(i) as u64;
					BigSize(scid - prev).write(&mut b).unwrap();
					prev = scid;
					let flags = n(i + 1) as u8;
					flags.write(&mut b).unwrap();
					if flags & 0x40 != 0 {
						(n(i + 2) as u16).write(&mut b).unwrap();
					}
					if flags & 0x20 != 0 {
						(n(i + 3) as u64).write(&mut b).unwrap();
					}
					if flags & 0x10 != 0 {
						(n(i + 4) as u32).write(&mut b).unwrap();
					}
					if flags & 0x08 != 0 {
						(n(i + 5) as u32).write(&mut b).unwrap();
					}
					if flags & 0x04 != 0 {
						(n(i + 6) as u64).write(&mut b).unwrap();
					}
					i += 7;
				}
				let rgs = RapidGossipSync::new(&s.graph, Arc::new(NullLogger));
				let r = rgs.update_network_graph_no_std(&b, if time < 0 { None } else { Some(time as u64) });
				(
					match r {
						Ok(v) => format!("ok:rgs({})", v),
						Err(GraphSyncError::LightningError(e)) => res_err(&e),
						Err(GraphSyncError::DecodeError(e)) => format!("err:decode:{:?}", e),
					},
					String::new(),
				)
			},
			"P" => {
				let cap = if n(2) < 0 { None } else { Some(n(2) as u64) };
				let r = s.graph.add_channel_from_partial_announcement(
					n(1) as u64,
					cap,
					n(3) as u64,
					ChannelFeatures::from_le_bytes(feat_bytes(n(4))),
					pool.id(n(5)),
					pool.id(n(6)),
				);
				(r.map(|_| "ok".to_string()).unwrap_or_else(|e| res_err(&e)), String::new())
			},
			"U" => {
				let (via, signed, mid) = (n(1) != 0, n(2) != 0, n(3));
				let contents = UnsignedChannelUpdate {
					chain_hash: chain(n(14)),
					short_channel_id: n(4) as u64,
					timestamp: n(5) as u32,
					message_flags: n(6) as u8,
					channel_flags: n(7) as u8,
					cltv_expiry_delta: n(8) as u16,
					htlc_minimum_msat: n(9) as u64,
					htlc_maximum_msat: n(10) as u64,
					fee_base_msat: n(11) as u32,
					fee_proportional_millionths: n(12) as u32,
					excess_data: vec![0x5a; n(13) as usize],
				};
				let d = digest_of(&contents);
				let msg = ChannelUpdate { signature: pool.sign(&d, n(15)), contents: contents.clone() };
				let mid = *s.msgs.entry(msg.encode()).or_insert(mid);
				let signer = pool.signer_of(&d, &msg.signature);
				let only_verify = n(16) != 0;
				let fmt_nodes = |o: Option<(NodeId, NodeId)>| match o {
					Some((a, b)) => format!("ok:some({},{})", pool.name(&a), pool.name(&b)),
					None => "ok:none".to_string(),
				};
				let r = if !signed {
					s.graph.update_channel_unsigned(&contents).map(fmt_nodes)
				} else if only_verify {
					s.graph.verify_channel_update(&msg).map(|_| "ok:none".to_string())
				} else if via {
					P2PGossipSync::new(&s.graph, None::<FixedLookup>, Arc::new(NullLogger))
						.handle_channel_update(None, &msg)
						.map(fmt_nodes)
				} else {
					s.graph.update_channel(&msg).map(fmt_nodes)
				};
				(r.unwrap_or_else(|e| res_err(&e)), format!("signer={} mid={}", signer, mid))
			},
			"N" => {
				let (via, signed, mid) = (n(1) != 0, n(2) != 0, n(3));
				let (features, rgb, alias, addresses) = node_content(n(6));
				let contents = UnsignedNodeAnnouncement {
					features,
					timestamp: n(4) as u32,
					node_id: pool.id(n(5)),
					rgb,
					alias,
					addresses,
					excess_address_data: vec![0x5a; n(8) as usize],
					excess_data: vec![0x5a; n(7) as usize],
				};
				let d = digest_of(&contents);
				let msg = NodeAnnouncement { signature: pool.sign(&d, n(9)), contents: contents.clone() };
				let mid = *s.msgs.entry(msg.encode()).or_insert(mid);
				let (k, v) = pool.verifies(&d, &msg.signature, &contents.node_id);
				let r = if !signed {
					s.graph.update_node_from_unsigned_announcement(&contents).map(|_| "ok".to_string())
				} else if via {
					P2PGossipSync::new(&s.graph, None::<FixedLookup>, Arc::new(NullLogger))
						.handle_node_announcement(None, &msg)
						.map(|b| format!("ok:{}", b))
				} else {
					s.graph.update_node_from_announcement(&msg).map(|_| "ok".to_string())
				};
				(r.unwrap_or_else(|e| res_err(&e)), format!("sigs={}{} mid={}", k as u8, v as u8, mid))
			},
			"FC" => {
				let (scid, perm, via) = (n(1) as u64, n(2) != 0, n(3) != 0);
				if via || !perm {
					s.graph.handle_network_update(&NetworkUpdate::ChannelFailure {
						short_channel_id: scid,
						is_permanent: perm,
					});
				} else {
					s.graph.channel_failed_permanent(scid);
				}
				("ok".to_string(), String::new())
			},
			"FN" => {
				let (k, perm, via) = (n(1), n(2) != 0, n(3) != 0);
				let pk = PublicKey::from_slice(pool.id(k).as_slice()).unwrap();
				if via || !perm {
					s.graph.handle_network_update(&NetworkUpdate::NodeFailure { node_id: pk, is_permanent: perm });
				} else {
					s.graph.node_failed_permanent(&pk);
				}
				("ok".to_string(), String::new())
			},
			"PR" => {
				s.graph.remove_stale_channels_and_tracking_with_time(n(1) as u64);
				("ok".to_string(), String::new())
			},
			"RT" | "RL" => {
				let bytes = s.graph.encode();
				match Graph::read(&mut &bytes[..], Arc::new(NullLogger)) {
					Ok(g2) => {
						let d1 = s.dump_of(&pool, &s.graph, false);
						let d2 = s.dump_of(&pool, &g2, false);
						let eq = g2 == s.graph;
						// a second generation must encode to a graph that reads back equal again
						let g3 = Graph::read(&mut &g2.encode()[..], Arc::new(NullLogger));
						let eq3 = g3.map(|g3| g3 == g2 && s.dump_of(&pool, &g3, false) == d2).unwrap_or(false);
						let r = format!("rt dump_eq={} partial_eq={} second_eq={}", (d1 == d2) as u8, eq as u8, eq3 as u8);
						if t[0] == "RL" {
							s.graph = g2;
						}
						(r, String::new())
					},
					Err(e) => (format!("rt READERR {:?}", e), String::new()),
				}
			},
			_ => ("BADCMD".to_string(), String::new()),
		};
		format!("{} # {} stored_bad={} # {}", res, oracle, s.stored_bad(&pool), s.dump(&pool))
	});
}
