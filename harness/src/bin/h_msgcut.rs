//! C12 behavioural lock-step at WIRE-MESSAGE granularity: a crash/reload point between every pair of
//! consecutive peer messages.
//!
//! usage: h_msgcut <n_scenarios> <seed> [max_cuts_per_scenario]      one line `R {json}` per scenario
//!
//! A scenario (seed) is a script of user actions on three nodes (channels 0-1, 1-2): payments in all
//! directions (direct and forwarded), claims and fails, interleaved by a seeded scheduler with the
//! delivery of INDIVIDUAL wire messages: every update_add / update_fulfill / update_fail / update_fee
//! is delivered on its own, before its commitment_signed; commitment_signed and revoke_and_ack are
//! separate deliveries; several updates batch up whenever a holding cell is released.
//! A first run counts the deliveries T. Then for every cut k in 1..=T (or a sample):
//!   twin A: after the k-th delivery everything in flight is lost, all peers are disconnected and
//!           reconnected;
//!   run  B: the same, and node x (alternately the receiver / the sender of the k-th message) is
//!           serialized (manager + monitors) and reloaded from those bytes before the reconnect.
//! Both then exchange channel_reestablish, retransmit, run the REMAINING script to completion, claim
//! whatever is claimable and settle. Oracle: in B no channel is closed, no error message is sent, no
//! transaction is broadcast; and the final observable state of B (balances, pending HTLC sets, recent
//! payments, monitor balances, the set of terminal payment events) equals that of twin A.
use std::collections::{BTreeMap, VecDeque};
use std::panic::{self, AssertUnwindSafe};

use bitcoin::secp256k1::PublicKey;
use lightning::events::Event;
use lightning::ln::channelmanager::PaymentId;
use lightning::ln::functional_test_utils::*;
use lightning::ln::msgs::{self, BaseMessageHandler, ChannelMessageHandler, ErrorAction, Init, MessageSendEvent};
use lightning::ln::outbound_payment::{RecipientOnionFields, Retry};
use lightning::reload_node;
use lightning::routing::router::{PaymentParameters, RouteParameters};
use lightning::types::payment::{PaymentHash, PaymentPreimage};
use lightning::util::ser::Writeable;
use verif_harness::{hex, Rng};

fn idx_of(nodes: &[Node], pk: &PublicKey) -> Option<usize> {
	nodes.iter().position(|n| n.node.get_our_node_id() == *pk)
}

fn h8(b: &[u8]) -> String {
	hex(&b[..4])
}

fn ev_line(i: usize, e: &Event) -> String {
	match e {
		Event::PaymentClaimable { payment_hash, amount_msat, .. } => format!("ev{} PaymentClaimable {} {}", i, h8(&payment_hash.0), amount_msat),
		Event::PaymentClaimed { payment_hash, amount_msat, .. } => format!("ev{} PaymentClaimed {} {}", i, h8(&payment_hash.0), amount_msat),
		Event::PaymentSent { payment_hash, fee_paid_msat, .. } => format!("ev{} PaymentSent {} fee={:?}", i, h8(&payment_hash.0), fee_paid_msat),
		Event::PaymentFailed { payment_hash, reason, .. } => format!("ev{} PaymentFailed {:?} {:?}", i, payment_hash.map(|h| h8(&h.0)), reason),
		Event::PaymentPathFailed { payment_hash, payment_failed_permanently, short_channel_id, .. } => {
			format!("ev{} PaymentPathFailed {} perm={} scid={:?}", i, h8(&payment_hash.0), payment_failed_permanently, short_channel_id)
		},
		Event::PaymentPathSuccessful { payment_hash, .. } => format!("ev{} PaymentPathSuccessful {:?}", i, payment_hash.map(|h| h8(&h.0))),
		Event::PaymentForwarded { total_fee_earned_msat, claim_from_onchain_tx, outbound_amount_forwarded_msat, .. } => {
			format!("ev{} PaymentForwarded fee={:?} onchain={} out={:?}", i, total_fee_earned_msat, claim_from_onchain_tx, outbound_amount_forwarded_msat)
		},
		Event::HTLCHandlingFailed { failure_type, .. } => {
			let s = format!("{:?}", failure_type);
			format!("ev{} HTLCHandlingFailed {}", i, s.split(|c| c == ' ' || c == '{' || c == '(').next().unwrap_or(""))
		},
		Event::ChannelClosed { reason, channel_id, .. } => {
			let s = format!("{:?}", reason);
			format!("ev{} ChannelClosed {} {}", i, h8(&channel_id.0), s.split(|c| c == ' ' || c == '{' || c == '(').next().unwrap_or(""))
		},
		Event::SpendableOutputs { outputs, .. } => format!("ev{} SpendableOutputs {}", i, outputs.len()),
		other => {
			let s = format!("{:?}", other);
			format!("ev{} {}", i, s.split(|c| c == ' ' || c == '{' || c == '(').next().unwrap_or(""))
		},
	}
}

fn disconnect(nodes: &[Node], a: usize, b: usize) {
	nodes[a].node.peer_disconnected(nodes[b].node.get_our_node_id());
	nodes[b].node.peer_disconnected(nodes[a].node.get_our_node_id());
}

fn reconnect(nodes: &[Node], a: usize, b: usize) {
	let init_a = Init { features: nodes[a].node.init_features(), networks: None, remote_network_address: None };
	let init_b = Init { features: nodes[b].node.init_features(), networks: None, remote_network_address: None };
	nodes[a].node.peer_connected(nodes[b].node.get_our_node_id(), &init_b, true).unwrap();
	nodes[b].node.peer_connected(nodes[a].node.get_our_node_id(), &init_a, false).unwrap();
}


fn state_lines(nodes: &[Node], log: &mut Vec<String>) {
	for (i, n) in nodes.iter().enumerate() {
		let mut ch: Vec<String> = n
			.node
			.list_channels()
			.iter()
			.map(|c| {
				format!(
					"chan{} {} val={} out={} in={} next_out={} ready={} usable={} pending_in={} pending_out={}",
					i, h8(&c.channel_id.0), c.channel_value_satoshis, c.outbound_capacity_msat, c.inbound_capacity_msat, c.next_outbound_htlc_limit_msat,
					c.is_channel_ready, c.is_usable, c.pending_inbound_htlcs.len(), c.pending_outbound_htlcs.len()
				)
			})
			.collect();
		ch.sort();
		log.extend(ch);
		let mut rp: Vec<String> = n.node.list_recent_payments().iter().map(|p| format!("recent{} {:?}", i, p)).collect();
		rp.sort();
		log.extend(rp);
		let mut bal: Vec<String> = Vec::new();
		for cid in n.chain_monitor.chain_monitor.list_monitors() {
			if let Ok(m) = n.chain_monitor.chain_monitor.get_monitor(cid) {
				for b in m.get_claimable_balances() {
					bal.push(format!("bal{} {} {:?}", i, h8(&cid.0), b));
				}
			}
		}
		bal.sort();
		log.extend(bal);
	}
}

#[derive(Clone)]
enum Wire {
	Add(msgs::UpdateAddHTLC),
	Fulfill(msgs::UpdateFulfillHTLC),
	Fail(msgs::UpdateFailHTLC),
	Malformed(msgs::UpdateFailMalformedHTLC),
	Fee(msgs::UpdateFee),
	CS(Vec<msgs::CommitmentSigned>),
	RAA(msgs::RevokeAndACK),
	Reest(msgs::ChannelReestablish),
	Ready(msgs::ChannelReady),
	ChanUpd(msgs::ChannelUpdate),
	AnnSigs(msgs::AnnouncementSignatures),
}
impl Wire {
	fn name(&self) -> &'static str {
		match self {
			Wire::Add(_) => "update_add_htlc",
			Wire::Fulfill(_) => "update_fulfill_htlc",
			Wire::Fail(_) => "update_fail_htlc",
			Wire::Malformed(_) => "update_fail_malformed_htlc",
			Wire::Fee(_) => "update_fee",
			Wire::CS(_) => "commitment_signed",
			Wire::RAA(_) => "revoke_and_ack",
			Wire::Reest(_) => "channel_reestablish",
			Wire::Ready(_) => "channel_ready",
			Wire::ChanUpd(_) => "channel_update",
			Wire::AnnSigs(_) => "announcement_signatures",
		}
	}
}

#[derive(Clone, Debug)]
enum Act {
	Send { from: usize, to: usize, amt: u64 },
	Claim { node: usize },
	Fail { node: usize },
}

struct World {
	queues: BTreeMap<(usize, usize), VecDeque<Wire>>,
	bad: Vec<String>,
	terminal: Vec<String>,
	claimable: Vec<Vec<PaymentHash>>,
	preimages: BTreeMap<[u8; 32], (PaymentPreimage, usize)>,
	delivered: usize,
	last: Option<(usize, usize, &'static str)>,
	kinds: BTreeMap<&'static str, usize>,
}

fn collect(nodes: &[Node], w: &mut World) {
	for _ in 0..3 {
		for i in 0..nodes.len() {
			for ev in nodes[i].node.get_and_clear_pending_msg_events() {
				let to_pk = match &ev {
					MessageSendEvent::UpdateHTLCs { node_id, .. }
					| MessageSendEvent::SendRevokeAndACK { node_id, .. }
					| MessageSendEvent::SendChannelReestablish { node_id, .. }
					| MessageSendEvent::SendChannelReady { node_id, .. }
					| MessageSendEvent::SendAnnouncementSignatures { node_id, .. }
					| MessageSendEvent::SendChannelUpdate { node_id, .. }
					| MessageSendEvent::HandleError { node_id, .. } => Some(*node_id),
					_ => None,
				};
				let to = match to_pk.and_then(|pk| idx_of(nodes, &pk)) {
					Some(t) => t,
					None => continue,
				};
				let q = w.queues.entry((i, to)).or_insert_with(VecDeque::new);
				match ev {
					MessageSendEvent::UpdateHTLCs { updates, .. } => {
						for m in updates.update_add_htlcs {
							q.push_back(Wire::Add(m));
						}
						for m in updates.update_fulfill_htlcs {
							q.push_back(Wire::Fulfill(m));
						}
						for m in updates.update_fail_htlcs {
							q.push_back(Wire::Fail(m));
						}
						for m in updates.update_fail_malformed_htlcs {
							q.push_back(Wire::Malformed(m));
						}
						if let Some(m) = updates.update_fee {
							q.push_back(Wire::Fee(m));
						}
						q.push_back(Wire::CS(updates.commitment_signed));
					},
					MessageSendEvent::SendRevokeAndACK { msg, .. } => q.push_back(Wire::RAA(msg)),
					MessageSendEvent::SendChannelReestablish { msg, .. } => q.push_back(Wire::Reest(msg)),
					MessageSendEvent::SendChannelReady { msg, .. } => q.push_back(Wire::Ready(msg)),
					MessageSendEvent::SendAnnouncementSignatures { msg, .. } => q.push_back(Wire::AnnSigs(msg)),
					MessageSendEvent::SendChannelUpdate { msg, .. } => q.push_back(Wire::ChanUpd(msg)),
					MessageSendEvent::HandleError { action, .. } => match action {
						ErrorAction::SendErrorMessage { msg } => w.bad.push(format!("node {} sends an ERROR to node {}: {}", i, to, msg.data.chars().take(100).collect::<String>())),
						ErrorAction::DisconnectPeer { msg } => w.bad.push(format!("node {} disconnects node {}: {:?}", i, to, msg.map(|m| m.data.chars().take(100).collect::<String>()))),
						ErrorAction::DisconnectPeerWithWarning { msg } => w.bad.push(format!("node {} disconnects node {} with a warning: {}", i, to, msg.data.chars().take(100).collect::<String>())),
						ErrorAction::SendWarningMessage { msg, .. } => w.bad.push(format!("node {} sends a WARNING to node {}: {}", i, to, msg.data.chars().take(100).collect::<String>())),
						_ => {},
					},
					_ => {},
				}
			}
		}
		for i in 0..nodes.len() {
			nodes[i].node.process_pending_htlc_forwards();
			for e in nodes[i].node.get_and_clear_pending_events() {
				match &e {
					Event::PaymentClaimable { payment_hash, .. } => {
						if !w.claimable[i].contains(payment_hash) {
							w.claimable[i].push(*payment_hash);
						}
					},
					Event::ChannelClosed { reason, .. } => w.bad.push(format!("node {} closed a channel: {:?}", i, reason).chars().take(200).collect()),
					Event::PaymentSent { .. } | Event::PaymentFailed { .. } | Event::PaymentClaimed { .. } => w.terminal.push(ev_line(i, &e)),
					_ => {},
				}
			}
			nodes[i].chain_monitor.added_monitors.lock().unwrap().clear();
			let txn = nodes[i].tx_broadcaster.txn_broadcasted.lock().unwrap().split_off(0);
			if !txn.is_empty() {
				w.bad.push(format!("node {} broadcast {} transaction(s)", i, txn.len()));
			}
		}
	}
}

fn deliver(nodes: &[Node], from: usize, to: usize, m: &Wire) {
	let f = nodes[from].node.get_our_node_id();
	let n = &nodes[to].node;
	match m {
		Wire::Add(x) => n.handle_update_add_htlc(f, x),
		Wire::Fulfill(x) => n.handle_update_fulfill_htlc(f, x.clone()),
		Wire::Fail(x) => n.handle_update_fail_htlc(f, x),
		Wire::Malformed(x) => n.handle_update_fail_malformed_htlc(f, x),
		Wire::Fee(x) => n.handle_update_fee(f, x),
		Wire::CS(x) => n.handle_commitment_signed_batch_test(f, x),
		Wire::RAA(x) => n.handle_revoke_and_ack(f, x),
		Wire::Reest(x) => n.handle_channel_reestablish(f, x),
		Wire::Ready(x) => n.handle_channel_ready(f, x),
		Wire::ChanUpd(x) => n.handle_channel_update(f, x),
		Wire::AnnSigs(x) => n.handle_announcement_signatures(f, x),
	}
}

fn do_act(nodes: &[Node], w: &mut World, a: &Act) {
	match a {
		Act::Send { from, to, amt } => {
			let (pre, hash, secret) = get_payment_preimage_hash(&nodes[*to], Some(*amt), None);
			w.preimages.insert(hash.0, (pre, *to));
			let onion = RecipientOnionFields::secret_only(secret, *amt);
			let mut pp = PaymentParameters::from_node_id(nodes[*to].node.get_our_node_id(), TEST_FINAL_CLTV).with_bolt11_features(nodes[*to].node.bolt11_invoice_features()).unwrap();
			pp.max_path_count = 1;
			let rp = RouteParameters::from_payment_params_and_value(pp, *amt);
			let _ = nodes[*from].node.send_payment(hash, onion, PaymentId(hash.0), rp, Retry::Attempts(0));
		},
		Act::Claim { node } => {
			if !w.claimable[*node].is_empty() {
				let h = w.claimable[*node].remove(0);
				if let Some((pre, _)) = w.preimages.get(&h.0) {
					nodes[*node].node.claim_funds(*pre);
				}
			}
		},
		Act::Fail { node } => {
			if !w.claimable[*node].is_empty() {
				let h = w.claimable[*node].remove(0);
				nodes[*node].node.fail_htlc_backwards(&h);
			}
		},
	}
}

/// runs script + deliveries; stops right after the `cut`-th delivery if given. Returns true if stopped at the cut.
fn advance(nodes: &[Node], w: &mut World, rng: &mut Rng, acts: &mut VecDeque<Act>, cut: Option<usize>) -> bool {
	for _ in 0..5000 {
		collect(nodes, w);
		let pairs: Vec<(usize, usize)> = w.queues.iter().filter(|(_, q)| !q.is_empty()).map(|(k, _)| *k).collect();
		if pairs.is_empty() && acts.is_empty() {
			return false;
		}
		if !acts.is_empty() && (pairs.is_empty() || rng.below(3) == 0) {
			let a = acts.pop_front().unwrap();
			do_act(nodes, w, &a);
			continue;
		}
		let (from, to) = pairs[rng.below(pairs.len() as u64) as usize];
		let m = w.queues.get_mut(&(from, to)).unwrap().pop_front().unwrap();
		deliver(nodes, from, to, &m);
		w.delivered += 1;
		*w.kinds.entry(m.name()).or_insert(0) += 1;
		w.last = Some((from, to, m.name()));
		if Some(w.delivered) == cut {
			collect(nodes, w);
			return true;
		}
	}
	w.bad.push("harness: the schedule did not terminate".to_string());
	false
}

/// stage 0 is the script; stages 1..=6 claim whatever is claimable and deliver everything.
/// Returns the stage in which the cut was hit.
fn run_stages(nodes: &[Node], w: &mut World, rng: &mut Rng, acts: &mut VecDeque<Act>, start: usize, cut: Option<usize>) -> Option<usize> {
	for stage in start..=6 {
		if stage > 0 {
			for i in 0..3 {
				for _ in 0..w.claimable[i].len() {
					acts.push_back(Act::Claim { node: i });
				}
			}
		}
		if advance(nodes, w, rng, acts, cut) {
			return Some(stage);
		}
	}
	None
}

struct Out {
	log: Vec<String>,
	bad: Vec<String>,
	delivered: usize,
	cut_desc: String,
	kinds: BTreeMap<&'static str, usize>,
}

fn run(seed: u64, cut: Option<usize>, reload: Option<bool>) -> Out {
	let mut rng = Rng(seed);
	let chanmon_cfgs = create_chanmon_cfgs(3);
	let node_cfgs = create_node_cfgs(3, &chanmon_cfgs);
	let persister;
	let new_chain_monitor;
	let legacy = test_legacy_channel_config();
	let node_chanmgrs = create_node_chanmgrs(3, &node_cfgs, &[Some(legacy.clone()), Some(legacy.clone()), Some(legacy)]);
	let node_reloaded;
	let mut nodes = create_network(3, &node_cfgs, &node_chanmgrs);
	for n in nodes.iter() {
		*n.connect_style.borrow_mut() = ConnectStyle::BestBlockFirst;
	}
	create_announced_chan_between_nodes_with_value(&nodes, 0, 1, 1_000_000, 400_000_000);
	create_announced_chan_between_nodes_with_value(&nodes, 1, 2, 1_000_000, 400_000_000);
	for n in nodes.iter() {
		n.tx_broadcaster.txn_broadcasted.lock().unwrap().clear();
	}
	// the script
	let mut acts: VecDeque<Act> = VecDeque::new();
	let nacts = 7 + rng.below(6);
	for _ in 0..nacts {
		let a = match rng.below(10) {
			0..=5 => {
				let from = rng.below(3) as usize;
				let mut to = rng.below(3) as usize;
				if to == from {
					to = (from + 1) % 3;
				}
				Act::Send { from, to, amt: 1_000_000 + rng.below(4_000_000) }
			},
			6..=8 => Act::Claim { node: rng.below(3) as usize },
			_ => Act::Fail { node: rng.below(3) as usize },
		};
		acts.push_back(a);
	}
	let mut w = World {
		queues: BTreeMap::new(), bad: Vec::new(), terminal: Vec::new(), claimable: vec![Vec::new(); 3], preimages: BTreeMap::new(), delivered: 0, last: None, kinds: BTreeMap::new(),
	};
	let mut cut_desc = String::new();
	if let Some(stage) = run_stages(&nodes, &mut w, &mut rng, &mut acts, 0, cut) {
		// ---- the cut: everything in flight is lost, every peer is gone
		let (from, to, what) = w.last.unwrap();
		// reload == Some(true): the RECEIVER of the last message is reloaded; Some(false): its sender
		let x = if reload == Some(false) { from } else { to };
		cut_desc = format!("after delivery {} ({} {}->{}), reload node {}", cut.unwrap(), what, from, to, x);
		w.queues.clear();
		// the persisted state is the one written while the peers were still CONNECTED (a crash, not a clean
		// shutdown): the snapshot is taken before anybody is told about the disconnection
		let snapshot: Option<(Vec<u8>, Vec<Vec<u8>>)> = if reload.is_some() {
			let mgr_bytes = nodes[x].node.encode();
			let mut mons: Vec<Vec<u8>> = Vec::new();
			for cid in nodes[x].chain_monitor.chain_monitor.list_monitors() {
				mons.push(nodes[x].chain_monitor.chain_monitor.get_monitor(cid).unwrap().encode());
			}
			Some((mgr_bytes, mons))
		} else {
			None
		};
		for (a, b) in [(0usize, 1usize), (0, 2), (1, 2)] {
			disconnect(&nodes, a, b);
		}
		for n in nodes.iter() {
			n.node.get_and_clear_pending_msg_events();
		}
		if let Some((mgr_bytes, mons)) = snapshot {
			let refs: Vec<&[u8]> = mons.iter().map(|m| &m[..]).collect();
			reload_node!(nodes[x], &mgr_bytes, &refs, persister, new_chain_monitor, node_reloaded);
		}
		for (a, b) in [(0usize, 1usize), (0, 2), (1, 2)] {
			reconnect(&nodes, a, b);
		}
		run_stages(&nodes, &mut w, &mut rng, &mut acts, stage, None);
	}
	let main_deliveries = w.delivered;
	let mut log: Vec<String> = Vec::new();
	state_lines(&nodes, &mut log);
	let mut t = w.terminal.clone();
	t.sort();
	t.dedup(); // events are delivered at least once
	log.extend(t);
	for n in nodes.iter() {
		n.node.get_and_clear_pending_events();
		n.node.get_and_clear_pending_msg_events();
		n.chain_monitor.added_monitors.lock().unwrap().clear();
	}
	std::mem::forget(nodes);
	Out { log, bad: w.bad, delivered: main_deliveries, cut_desc, kinds: w.kinds }
}

static LAST_PANIC: std::sync::Mutex<String> = std::sync::Mutex::new(String::new());

fn main() {
	let args: Vec<String> = std::env::args().collect();
	let n: u64 = args.get(1).and_then(|s| s.parse().ok()).unwrap_or(2);
	let seed: u64 = args.get(2).and_then(|s| s.parse().ok()).unwrap_or(1);
	let max_cuts: usize = args.get(3).and_then(|s| s.parse().ok()).unwrap_or(1000);
	panic::set_hook(Box::new(|info| {
		let loc = info.location().map(|l| format!("{}:{}", l.file(), l.line())).unwrap_or_default();
		let msg = if let Some(s) = info.payload().downcast_ref::<&str>() { s.to_string() } else if let Some(s) = info.payload().downcast_ref::<String>() { s.clone() } else { String::new() };
		let mut g = LAST_PANIC.lock().unwrap();
		if g.is_empty() {
			*g = format!("{} at {}", msg.chars().take(160).collect::<String>(), loc);
		}
	}));
	let esc = |s: &str| s.replace('\\', "/").replace('"', "'").replace('\n', " ");
	let mut rng = Rng(seed ^ 0x6d73_6763);
	for i in 0..n {
		let s = rng.next();
		let base = panic::catch_unwind(AssertUnwindSafe(|| run(s, None, None)));
		let _ = std::mem::take(&mut *LAST_PANIC.lock().unwrap());
		let base = match base {
			Ok(b) => b,
			Err(_) => {
				println!("R {{\"kind\": \"msgcut\", \"scenario\": {}, \"seed\": {}, \"ok\": false, \"cuts\": 0, \"deliveries\": 0, \"fails\": [\"the uninterrupted run panicked\"]}}", i, s);
				continue;
			},
		};
		let t = base.delivered;
		let mut fails: Vec<String> = Vec::new();
		if !base.bad.is_empty() {
			fails.push(format!("the uninterrupted run misbehaved: {}", base.bad[0]));
		}
		let ks: Vec<usize> = if t <= max_cuts { (1..=t).collect() } else { (0..max_cuts).map(|j| 1 + j * t / max_cuts).collect() };
		let mut cuts = 0;
		let mut cut_kinds: BTreeMap<String, usize> = BTreeMap::new();
		for k in ks {
			let a = panic::catch_unwind(AssertUnwindSafe(|| run(s, Some(k), None)));
			let pa = std::mem::take(&mut *LAST_PANIC.lock().unwrap());
			for recv in [true, false] {
				let b = panic::catch_unwind(AssertUnwindSafe(|| run(s, Some(k), Some(recv))));
				let pb = std::mem::take(&mut *LAST_PANIC.lock().unwrap());
				cuts += 1;
				match (&a, b) {
					(Ok(a), Ok(b)) => {
						let kind = b.cut_desc.split('(').nth(1).map(|x| x.split(' ').next().unwrap_or("").to_string()).unwrap_or_default();
						*cut_kinds.entry(format!("{}:{}", kind, if recv { "receiver" } else { "sender" })).or_insert(0) += 1;
						if !b.bad.is_empty() && a.bad.is_empty() {
							fails.push(format!("cut {}: after the reload: {}", b.cut_desc, b.bad[0]));
						} else if !a.bad.is_empty() {
							fails.push(format!("cut {}: the twin run WITHOUT reload misbehaved: {}", a.cut_desc, a.bad[0]));
						} else if a.log != b.log {
							let d = a.log.iter().zip(b.log.iter()).find(|(x, y)| x != y).map(|(x, y)| format!("without reload `{}` / with reload `{}`", x, y)).unwrap_or(format!("{} vs {} lines", a.log.len(), b.log.len()));
							fails.push(format!("cut {}: final state differs: {}", b.cut_desc, d));
						}
					},
					(ra, rb) => {
						let which = if rb.is_err() && ra.is_ok() { "the run WITH reload" } else if ra.is_err() && rb.is_ok() { "the twin run without reload" } else { "both runs" };
						fails.push(format!("cut after delivery {}: {} panicked: {} {}", k, which, pa, pb));
					},
				}
			}
			if fails.len() >= 4 {
				break;
			}
		}
		let kinds: Vec<String> = base.kinds.iter().map(|(k, v)| format!("\"{}\": {}", k, v)).collect();
		let ck: Vec<String> = cut_kinds.iter().map(|(k, v)| format!("\"{}\": {}", k, v)).collect();
		println!(
			"R {{\"kind\": \"msgcut\", \"scenario\": {}, \"seed\": {}, \"ok\": {}, \"cuts\": {}, \"deliveries\": {}, \"delivered_kinds\": {{{}}}, \"cut_after_kinds\": {{{}}}, \"fails\": [{}]}}",
			i, s, if fails.is_empty() { "true" } else { "false" }, cuts, t, kinds.join(", "), ck.join(", "),
			fails.iter().map(|f| format!("\"{}\"", esc(f))).collect::<Vec<_>>().join(", ")
		);
	}
}
