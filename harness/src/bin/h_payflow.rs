//! C03 end-to-end tier: whole payments on real ChannelManagers (lightning::ln::functional_test_utils),
//! messages delivered by a generic pump, the sender's REAL event stream judged by the property's
//! statement:
//!   * exactly one terminal event (PaymentSent | PaymentFailed) per payment without restart,
//!   * PaymentSent: the preimage hashes to the payment hash, the recipient reported PaymentClaimed,
//!     amount + fee equals what left the sender's channels,
//!   * PaymentFailed: nothing left the sender's channels, the recipient never claimed,
//!   * a second send with the id of a pending payment is refused,
//!   * PaymentPathFailed names the channel at which the failure occurred,
//!   * after a reload the terminal event may be repeated but is never contradicted.
//!
//! usage: h_payflow <quick|thorough> <seed>     one line `{"c03":1,...}` per scenario
//!        h_payflow replay <scenario> <a> <b>
use std::panic::{self, AssertUnwindSafe};

use bitcoin::hashes::sha256::Hash as Sha256;
use bitcoin::hashes::Hash;
use bitcoin::secp256k1::PublicKey;

use lightning::chain::channelmonitor::ChannelMonitor;
use lightning::events::{Event, PathFailure, PaymentFailureReason};
use lightning::ln::channelmanager::{PaymentId, RecentPaymentDetails};
use lightning::ln::functional_test_utils::*;
use lightning::ln::msgs::{BaseMessageHandler, ChannelMessageHandler, Init, MessageSendEvent};
use lightning::ln::outbound_payment::{RecipientOnionFields, Retry, RetryableSendFailure};
use lightning::ln::types::ChannelId;
use lightning::reload_node;
use lightning::routing::router::{PaymentParameters, RouteParameters};
use lightning::types::payment::{PaymentHash, PaymentPreimage};
use lightning::util::ser::Writeable;
use verif_harness::Rng;

fn jbool(b: bool) -> &'static str {
	if b {
		"true"
	} else {
		"false"
	}
}

struct Out {
	scenario: String,
	params: String,
	obs: Vec<(String, String)>,
	ok: bool,
	why: String,
}
impl Out {
	fn new(s: &str, p: String) -> Out {
		Out { scenario: s.to_string(), params: p, obs: Vec::new(), ok: true, why: String::new() }
	}
	fn obs<T: std::fmt::Display>(&mut self, k: &str, v: T) {
		self.obs.push((k.to_string(), format!("{}", v)));
	}
	fn fail(&mut self, why: &str) {
		if self.ok {
			self.ok = false;
			self.why = why.to_string();
		}
	}
	fn print(&self) {
		let obs: Vec<String> = self.obs.iter().map(|(k, v)| format!("\"{}\": \"{}\"", k, v)).collect();
		println!(
			"{{\"c03\":1,\"scenario\": \"{}\", \"params\": \"{}\", \"ok\": {}, \"why\": \"{}\", \"obs\": {{{}}}}}",
			self.scenario,
			self.params,
			jbool(self.ok),
			self.why.replace('"', "'"),
			obs.join(", ")
		);
	}
}

fn idx_of(nodes: &[Node], pk: &PublicKey) -> Option<usize> {
	nodes.iter().position(|n| n.node.get_our_node_id() == *pk)
}

/// What the pump saw.
#[derive(Default)]
struct Seen {
	/// events of every node, in the order they were fetched
	events: Vec<Vec<Event>>,
	/// payment hash of every HTLC offered to a node: (node, channel, htlc id)
	htlc_hash: std::collections::HashMap<(usize, ChannelId, u64), PaymentHash>,
}

/// update_fulfill_htlc messages whose preimage does not hash to the payment hash of the HTLC they
/// fulfil (any node, any scenario); checked after every scenario
static BAD_FULFILLS: std::sync::atomic::AtomicUsize = std::sync::atomic::AtomicUsize::new(0);

/// Delivers every pending peer message until nothing is pending any more. `drop(from, to, ev)`
/// decides whether a message event is lost. Events of all nodes are fetched (= handled by the
/// user) every round and recorded.
fn pump(nodes: &[Node], seen: &mut Seen, drop_msg: &dyn Fn(usize, usize, &MessageSendEvent) -> bool) {
	while seen.events.len() < nodes.len() {
		seen.events.push(Vec::new());
	}
	let mut idle = 0;
	for _round in 0..200 {
		let mut progressed = false;
		for i in 0..nodes.len() {
			let msgs = nodes[i].node.get_and_clear_pending_msg_events();
			let from = nodes[i].node.get_our_node_id();
			for ev in msgs {
				let to_pk = match &ev {
					MessageSendEvent::UpdateHTLCs { node_id, .. }
					| MessageSendEvent::SendRevokeAndACK { node_id, .. }
					| MessageSendEvent::SendChannelReestablish { node_id, .. }
					| MessageSendEvent::SendChannelReady { node_id, .. }
					| MessageSendEvent::SendAnnouncementSignatures { node_id, .. }
					| MessageSendEvent::SendChannelUpdate { node_id, .. }
					| MessageSendEvent::HandleError { node_id, .. } => Some(*node_id),
					_ => None,
				};
				let to = match to_pk.and_then(|pk| idx_of(nodes, &pk)) {
					Some(t) => t,
					None => continue,
				};
				if drop_msg(i, to, &ev) {
					continue;
				}
				progressed = true;
				let n = &nodes[to].node;
				match ev {
					MessageSendEvent::UpdateHTLCs { updates, .. } => {
						for m in updates.update_add_htlcs.iter() {
							seen.htlc_hash.insert((to, m.channel_id, m.htlc_id), m.payment_hash);
							n.handle_update_add_htlc(from, m);
						}
						for m in updates.update_fulfill_htlcs.iter() {
							let got = Sha256::hash(&m.payment_preimage.0).to_byte_array();
							if seen.htlc_hash.get(&(i, m.channel_id, m.htlc_id)).map(|h| h.0 != got).unwrap_or(true) {
								BAD_FULFILLS.fetch_add(1, std::sync::atomic::Ordering::SeqCst);
							}
							n.handle_update_fulfill_htlc(from, m.clone());
						}
						for m in updates.update_fail_htlcs.iter() {
							n.handle_update_fail_htlc(from, m);
						}
						for m in updates.update_fail_malformed_htlcs.iter() {
							n.handle_update_fail_malformed_htlc(from, m);
						}
						if let Some(m) = updates.update_fee.as_ref() {
							n.handle_update_fee(from, m);
						}
						n.handle_commitment_signed_batch_test(from, &updates.commitment_signed);
					},
					MessageSendEvent::SendRevokeAndACK { msg, .. } => n.handle_revoke_and_ack(from, &msg),
					MessageSendEvent::SendChannelReestablish { msg, .. } => n.handle_channel_reestablish(from, &msg),
					MessageSendEvent::SendChannelReady { msg, .. } => n.handle_channel_ready(from, &msg),
					MessageSendEvent::SendAnnouncementSignatures { msg, .. } => {
						n.handle_announcement_signatures(from, &msg)
					},
					MessageSendEvent::SendChannelUpdate { msg, .. } => n.handle_channel_update(from, &msg),
					MessageSendEvent::HandleError { .. } => {},
					_ => {},
				}
			}
		}
		for i in 0..nodes.len() {
			nodes[i].node.process_pending_htlc_forwards();
			let evs = nodes[i].node.get_and_clear_pending_events();
			if !evs.is_empty() {
				progressed = true;
			}
			seen.events[i].extend(evs);
			nodes[i].chain_monitor.added_monitors.lock().unwrap().clear();
		}
		// a failure queued by process_pending_htlc_forwards is only sent by the next call
		idle = if progressed { 0 } else { idle + 1 };
		if idle >= 3 {
			break;
		}
	}
}

fn no_drop(_: usize, _: usize, _: &MessageSendEvent) -> bool {
	false
}

fn outbound_msat(node: &Node) -> u64 {
	node.node.list_channels().iter().map(|c| c.outbound_capacity_msat).sum()
}

fn disconnect(nodes: &[Node], a: usize, b: usize) {
	nodes[a].node.peer_disconnected(nodes[b].node.get_our_node_id());
	nodes[b].node.peer_disconnected(nodes[a].node.get_our_node_id());
}

fn reconnect(nodes: &[Node], a: usize, b: usize) {
	let init_a = Init { features: nodes[a].node.init_features(), networks: None, remote_network_address: None };
	let init_b = Init { features: nodes[b].node.init_features(), networks: None, remote_network_address: None };
	nodes[a].node.peer_connected(nodes[b].node.get_our_node_id(), &init_b, true).unwrap();
	nodes[b].node.peer_connected(nodes[a].node.get_our_node_id(), &init_a, false).unwrap();
}

struct Terminal {
	sent: Vec<(Option<PaymentId>, PaymentPreimage, PaymentHash, Option<u64>, Option<u64>)>,
	failed: Vec<(PaymentId, Option<PaymentFailureReason>)>,
	path_failed_scids: Vec<Option<u64>>,
	path_ok: usize,
}

fn terminals(evs: &[Event], id: PaymentId) -> Terminal {
	let mut t = Terminal { sent: vec![], failed: vec![], path_failed_scids: vec![], path_ok: 0 };
	for e in evs {
		match e {
			Event::PaymentSent { payment_id, payment_preimage, payment_hash, amount_msat, fee_paid_msat, .. } => {
				if *payment_id == Some(id) {
					t.sent.push((*payment_id, *payment_preimage, *payment_hash, *amount_msat, *fee_paid_msat));
				}
			},
			Event::PaymentFailed { payment_id, reason, .. } => {
				if *payment_id == id {
					t.failed.push((*payment_id, *reason));
				}
			},
			Event::PaymentPathFailed { payment_id, short_channel_id, failure, .. } => {
				if *payment_id == Some(id) {
					if let PathFailure::OnPath { .. } = failure {
						t.path_failed_scids.push(*short_channel_id);
					} else {
						t.path_failed_scids.push(*short_channel_id);
					}
				}
			},
			Event::PaymentPathSuccessful { payment_id, .. } => {
				if *payment_id == id {
					t.path_ok += 1;
				}
			},
			_ => {},
		}
	}
	t
}

fn claimed_at(evs: &[Event], hash: PaymentHash) -> usize {
	evs.iter().filter(|e| matches!(e, Event::PaymentClaimed { payment_hash, .. } if *payment_hash == hash)).count()
}
fn claimable_at(evs: &[Event], hash: PaymentHash) -> usize {
	evs.iter().filter(|e| matches!(e, Event::PaymentClaimable { payment_hash, .. } if *payment_hash == hash)).count()
}

/// The property's statement on the sender's event stream.
fn judge(
	o: &mut Out, sender_evs: &[Event], recipient_evs: &[Event], id: PaymentId, hash: PaymentHash, amt: u64,
	spent_msat: i64, expect_sent: Option<bool>,
) {
	let t = terminals(sender_evs, id);
	o.obs("n_sent", t.sent.len());
	o.obs("n_failed", t.failed.len());
	o.obs("n_path_failed", t.path_failed_scids.len());
	o.obs("n_path_ok", t.path_ok);
	o.obs("spent_msat", spent_msat);
	let claimed = claimed_at(recipient_evs, hash);
	o.obs("recipient_claimed", claimed);
	if t.sent.len() + t.failed.len() != 1 {
		o.fail("not exactly one terminal event (PaymentSent|PaymentFailed) for the payment");
		return;
	}
	if let Some(exp) = expect_sent {
		if exp != (t.sent.len() == 1) {
			o.fail("terminal event is not the one the scenario's outcome calls for");
		}
	}
	if let Some((_, pre, h, a, f)) = t.sent.first() {
		if Sha256::hash(&pre.0).to_byte_array() != h.0 || *h != hash {
			o.fail("PaymentSent: preimage does not hash to the payment hash");
		}
		if claimed == 0 {
			o.fail("PaymentSent although the recipient never claimed");
		}
		if *a != Some(amt) {
			o.fail("PaymentSent: amount_msat is not the amount sent");
		}
		match f {
			Some(fee) => {
				o.obs("fee_paid_msat", fee);
				if spent_msat != (amt + fee) as i64 {
					o.fail("PaymentSent: sender's balance did not fall by exactly amount + fee_paid_msat");
				}
			},
			None => o.fail("PaymentSent without fee_paid_msat"),
		}
	} else {
		if claimed != 0 {
			o.fail("PaymentFailed although the recipient claimed");
		}
		if spent_msat != 0 {
			o.fail("PaymentFailed but the sender's balance changed");
		}
	}
}

macro_rules! network {
	($n: expr, $nodes: ident, $a: ident, $b: ident, $c: ident, $style: expr) => {
		let $a = create_chanmon_cfgs($n);
		let $b = create_node_cfgs($n, &$a);
		let cfgs: Vec<Option<lightning::util::config::UserConfig>> = (0..$n).map(|_| None).collect();
		let $c = create_node_chanmgrs($n, &$b, &cfgs);
		#[allow(unused_mut)]
		let mut $nodes = create_network($n, &$b, &$c);
		for n in $nodes.iter() {
			*n.connect_style.borrow_mut() = $style;
		}
	};
}

fn style_of(k: u64) -> ConnectStyle {
	match k % 3 {
		0 => ConnectStyle::BestBlockFirst,
		1 => ConnectStyle::FullBlockViaListen,
		_ => ConnectStyle::TransactionsFirst,
	}
}

fn route_params(nodes: &[Node], to: usize, amt: u64) -> RouteParameters {
	let pp = PaymentParameters::from_node_id(nodes[to].node.get_our_node_id(), TEST_FINAL_CLTV)
		.with_bolt11_features(nodes[to].node.bolt11_invoice_features())
		.unwrap();
	RouteParameters::from_payment_params_and_value(pp, amt)
}

/// 0 -> 1 -> 2, outcome chosen by the recipient / the middle node.
/// kind: 0 claim, 1 recipient fails, 2 middle node cannot forward (peer offline), 3 duplicate id while pending
fn scen_line(kind: u64, amt: u64, style: u64, retries: u32) -> Out {
	let names = ["line_claim", "line_fail", "line_midfail", "line_dup_id"];
	let mut o = Out::new(names[kind as usize], format!("{} {} {} {}", kind, amt, style, retries));
	network!(3, nodes, c1, c2, c3, style_of(style));
	create_announced_chan_between_nodes(&nodes, 0, 1);
	let chan12 = create_announced_chan_between_nodes(&nodes, 1, 2);
	let scid12 = chan12.0.contents.short_channel_id;
	let mut seen = Seen::default();
	pump(&nodes, &mut seen, &no_drop);
	let before = outbound_msat(&nodes[0]);
	let (preimage, hash, secret) = get_payment_preimage_hash(&nodes[2], Some(amt), None);
	let id = PaymentId(hash.0);
	if kind == 2 {
		disconnect(&nodes, 1, 2);
	}
	let onion = RecipientOnionFields::secret_only(secret, amt);
	let rp = route_params(&nodes, 2, amt);
	let r = nodes[0].node.send_payment(hash, onion.clone(), id, rp.clone(), Retry::Attempts(retries));
	if r.is_err() {
		o.fail("harness: initial send_payment failed");
		std::mem::forget(nodes);
		return o;
	}
	if kind == 3 {
		// while pending (HTLC not even delivered yet): same id again
		let r2 = nodes[0].node.send_payment(hash, onion.clone(), id, rp.clone(), Retry::Attempts(retries));
		o.obs("dup_before_delivery", format!("{:?}", r2));
		if r2 != Err(RetryableSendFailure::DuplicatePayment) {
			o.fail("a second send with the id of a pending payment was not refused");
		}
	}
	pump(&nodes, &mut seen, &no_drop);
	if kind == 3 {
		let r3 = nodes[0].node.send_payment(hash, onion.clone(), id, rp.clone(), Retry::Attempts(retries));
		if r3 != Err(RetryableSendFailure::DuplicatePayment) {
			o.fail("a second send with the id of a pending payment (HTLC in flight) was not refused");
		}
	}
	let claimable = claimable_at(&seen.events[2], hash);
	o.obs("claimable_events", claimable);
	match kind {
		0 | 3 => {
			if claimable != 1 {
				o.fail("harness: recipient did not see PaymentClaimable");
			} else {
				nodes[2].node.claim_funds(preimage);
			}
		},
		1 => {
			if claimable == 1 {
				nodes[2].node.fail_htlc_backwards(&hash);
			}
		},
		_ => {},
	}
	pump(&nodes, &mut seen, &no_drop);
	if kind == 3 {
		// fulfilled, PaymentSent handled: still refused until the idempotency timeout
		let r4 = nodes[0].node.send_payment(hash, onion.clone(), id, rp.clone(), Retry::Attempts(retries));
		if r4 != Err(RetryableSendFailure::DuplicatePayment) {
			o.fail("a send with the id of a just-completed payment was accepted before the idempotency timeout");
		}
	}
	let after = outbound_msat(&nodes[0]);
	let spent = before as i64 - after as i64;
	judge(&mut o, &seen.events[0], &seen.events[2], id, hash, amt, spent, Some(kind == 0 || kind == 3));
	if kind == 2 {
		let t = terminals(&seen.events[0], id);
		o.obs("blamed_scids", format!("{:?}", t.path_failed_scids));
		o.obs("scid_1_2", scid12);
		if t.path_failed_scids.is_empty() || t.path_failed_scids[0] != Some(scid12) {
			o.fail("PaymentPathFailed does not name the channel at which the failure occurred");
		}
	}
	// nothing left pending for the payment at the sender: listed as Fulfilled or not at all
	for p in nodes[0].node.list_recent_payments() {
		match p {
			RecentPaymentDetails::Pending { payment_id, .. } | RecentPaymentDetails::Abandoned { payment_id, .. } => {
				if payment_id == id {
					o.fail("a terminal event was emitted but the payment is still listed as pending/abandoned");
				}
			},
			_ => {},
		}
	}
	std::mem::forget(nodes);
	o
}

/// Diamond 0 -> {1,2} -> 3, two-part MPP. kind: 0 claim; 1 one part cannot be forwarded, the other
/// times out at the recipient (MPP timeout): exactly one PaymentFailed, only after the last part.
fn scen_mpp(kind: u64, style: u64, amt_sel: u64) -> Out {
	let names = ["mpp_claim", "mpp_partial_timeout"];
	let mut o = Out::new(names[kind as usize], format!("{} {} {}", kind, style, amt_sel));
	network!(4, nodes, c1, c2, c3, style_of(style));
	create_announced_chan_between_nodes(&nodes, 0, 1);
	create_announced_chan_between_nodes(&nodes, 0, 2);
	create_announced_chan_between_nodes(&nodes, 1, 3);
	create_announced_chan_between_nodes(&nodes, 2, 3);
	let mut seen = Seen::default();
	pump(&nodes, &mut seen, &no_drop);
	let before = outbound_msat(&nodes[0]);
	let amt = 2_000 * (1 + amt_sel % 4_000); // two parts of amt / 2
	let (preimage, hash, secret) = get_payment_preimage_hash(&nodes[3], Some(amt), None);
	let id = PaymentId(hash.0);
	if kind == 1 {
		disconnect(&nodes, 2, 3);
	}
	let onion = RecipientOnionFields::secret_only(secret, amt);
	let mut rp = route_params(&nodes, 3, amt);
	rp.max_total_routing_fee_msat = None;
	// one path through each first hop, half of the amount each
	let mut paths = Vec::new();
	for ch in nodes[0].node.list_usable_channels() {
		let mut half = route_params(&nodes, 3, amt / 2);
		half.max_total_routing_fee_msat = None;
		let scorer = lightning::util::test_utils::TestScorer::new();
		let r = lightning::routing::router::find_route(
			&nodes[0].node.get_our_node_id(),
			&half,
			&nodes[0].network_graph,
			Some(&[&ch]),
			nodes[0].logger,
			&scorer,
			&Default::default(),
			&[7u8; 32],
		);
		match r {
			Ok(route) => paths.extend(route.paths),
			Err(_) => {},
		}
	}
	if paths.len() != 2 {
		o.fail("harness: could not build a two-path route");
		std::mem::forget(nodes);
		return o;
	}
	let route = lightning::routing::router::Route { paths, route_params: rp };
	let r = nodes[0].node.send_payment_with_route(route, hash, onion, id);
	if r.is_err() {
		o.fail("harness: initial send_payment failed");
		std::mem::forget(nodes);
		return o;
	}
	let npaths = nodes[0].node.list_channels().iter().filter(|c| !c.pending_outbound_htlcs.is_empty()).count();
	o.obs("channels_with_htlc", npaths);
	pump(&nodes, &mut seen, &no_drop);
	let mut failed_seen_while_inflight = false;
	if kind == 0 {
		if claimable_at(&seen.events[3], hash) == 1 {
			nodes[3].node.claim_funds(preimage);
		} else {
			o.fail("harness: MPP did not become claimable");
		}
		pump(&nodes, &mut seen, &no_drop);
	} else {
		// one part failed at node 2; the other waits at node 3
		let t = terminals(&seen.events[0], id);
		let inflight: usize = nodes[0].node.list_channels().iter().map(|c| c.pending_outbound_htlcs.len()).sum();
		o.obs("inflight_after_first_failure", inflight);
		if !t.failed.is_empty() && inflight > 0 {
			failed_seen_while_inflight = true;
		}
		for _ in 0..3 {
			nodes[3].node.timer_tick_occurred();
		}
		pump(&nodes, &mut seen, &no_drop);
	}
	if failed_seen_while_inflight {
		o.fail("PaymentFailed was emitted while an HTLC of the payment was still in flight");
	}
	let after = outbound_msat(&nodes[0]);
	judge(&mut o, &seen.events[0], &seen.events[3], id, hash, amt, before as i64 - after as i64, Some(kind == 0));
	std::mem::forget(nodes);
	o
}

/// 0 -> 1 direct. The recipient's fulfil is delivered to the sender, the sender's answer is lost,
/// the peers reconnect and the fulfil is delivered again: exactly one PaymentSent.
fn scen_reconnect_dup_fulfil(amt: u64, style: u64, drop_stage: u64) -> Out {
	let mut o = Out::new("reconnect_dup_fulfil", format!("{} {} {}", amt, style, drop_stage));
	network!(2, nodes, c1, c2, c3, style_of(style));
	create_announced_chan_between_nodes(&nodes, 0, 1);
	let mut seen = Seen::default();
	pump(&nodes, &mut seen, &no_drop);
	let before = outbound_msat(&nodes[0]);
	let (preimage, hash, secret) = get_payment_preimage_hash(&nodes[1], Some(amt), None);
	let id = PaymentId(hash.0);
	let onion = RecipientOnionFields::secret_only(secret, amt);
	nodes[0].node.send_payment(hash, onion, id, route_params(&nodes, 1, amt), Retry::Attempts(0)).unwrap();
	pump(&nodes, &mut seen, &no_drop);
	if claimable_at(&seen.events[1], hash) != 1 {
		o.fail("harness: not claimable");
		std::mem::forget(nodes);
		return o;
	}
	nodes[1].node.claim_funds(preimage);
	// deliver 1 -> 0 (fulfil + commitment_signed); drop what 0 answers
	let stage = std::cell::Cell::new(0u64);
	let dropper = |from: usize, _to: usize, _ev: &MessageSendEvent| -> bool {
		if from == 0 {
			stage.set(stage.get() + 1);
			stage.get() > drop_stage
		} else {
			false
		}
	};
	pump(&nodes, &mut seen, &dropper);
	o.obs("sender_msgs_seen", stage.get());
	disconnect(&nodes, 0, 1);
	let mid = terminals(&seen.events[0], id);
	o.obs("sent_before_reconnect", mid.sent.len());
	reconnect(&nodes, 0, 1);
	pump(&nodes, &mut seen, &no_drop);
	let after = outbound_msat(&nodes[0]);
	judge(&mut o, &seen.events[0], &seen.events[1], id, hash, amt, before as i64 - after as i64, Some(true));
	std::mem::forget(nodes);
	o
}

/// 0 -> 1 direct, claimed; the sender is serialized while its PaymentSent is still unhandled (or
/// after it was handled) and reloaded: the event may be repeated, never contradicted.
fn scen_reload(amt: u64, style: u64, handled_before_persist: bool) -> Out {
	let mut o = Out::new("reload_after_claim", format!("{} {} {}", amt, style, handled_before_persist));
	let c1 = create_chanmon_cfgs(2);
	let c2 = create_node_cfgs(2, &c1);
	let persister;
	let new_chain_monitor;
	let c3 = create_node_chanmgrs(2, &c2, &[None, None]);
	let node_0_reloaded;
	let mut nodes = create_network(2, &c2, &c3);
	for n in nodes.iter() {
		*n.connect_style.borrow_mut() = style_of(style);
	}
	let chan = create_announced_chan_between_nodes(&nodes, 0, 1);
	let chan_id: ChannelId = chan.2;
	let mut seen = Seen::default();
	pump(&nodes, &mut seen, &no_drop);
	let (preimage, hash, secret) = get_payment_preimage_hash(&nodes[1], Some(amt), None);
	let id = PaymentId(hash.0);
	let onion = RecipientOnionFields::secret_only(secret, amt);
	nodes[0].node.send_payment(hash, onion, id, route_params(&nodes, 1, amt), Retry::Attempts(0)).unwrap();
	pump(&nodes, &mut seen, &no_drop);
	nodes[1].node.claim_funds(preimage);
	// deliver messages by hand so that node 0's events stay unhandled
	let mut pre_events: Vec<Event> = Vec::new();
	for _ in 0..10 {
		for i in 0..2 {
			let from = nodes[i].node.get_our_node_id();
			for ev in nodes[i].node.get_and_clear_pending_msg_events() {
				let n = &nodes[1 - i].node;
				match ev {
					MessageSendEvent::UpdateHTLCs { updates, .. } => {
						for m in updates.update_fulfill_htlcs.iter() {
							n.handle_update_fulfill_htlc(from, m.clone());
						}
						n.handle_commitment_signed_batch_test(from, &updates.commitment_signed);
					},
					MessageSendEvent::SendRevokeAndACK { msg, .. } => n.handle_revoke_and_ack(from, &msg),
					_ => {},
				}
			}
			nodes[i].chain_monitor.added_monitors.lock().unwrap().clear();
		}
		seen.events[1].extend(nodes[1].node.get_and_clear_pending_events());
		if handled_before_persist {
			pre_events.extend(nodes[0].node.get_and_clear_pending_events());
		}
	}
	let mgr_bytes = nodes[0].node.encode();
	let mon_bytes = {
		let mon = nodes[0].chain_monitor.chain_monitor.get_monitor(chan_id).unwrap();
		let m: &ChannelMonitor<_> = &*mon;
		m.encode()
	};
	reload_node!(nodes[0], &mgr_bytes, &[&mon_bytes], persister, new_chain_monitor, node_0_reloaded);
	let mut post_events = nodes[0].node.get_and_clear_pending_events();
	nodes[0].node.timer_tick_occurred();
	post_events.extend(nodes[0].node.get_and_clear_pending_events());
	let pre = terminals(&pre_events, id);
	let post = terminals(&post_events, id);
	o.obs("sent_before_reload", pre.sent.len());
	o.obs("sent_after_reload", post.sent.len());
	o.obs("failed_after_reload", post.failed.len() + pre.failed.len());
	if post.failed.len() + pre.failed.len() != 0 {
		o.fail("PaymentFailed for a payment that was claimed (contradiction across restart)");
	}
	if pre.sent.len() + post.sent.len() == 0 {
		o.fail("the claimed payment never produced PaymentSent");
	}
	if pre.sent.len() > 1 || post.sent.len() > 1 {
		o.fail("PaymentSent emitted twice without a restart in between");
	}
	if handled_before_persist && post.sent.len() != 0 {
		o.fail("PaymentSent repeated although it had been handled and persisted before the restart");
	}
	for (_, pre_img, h, _, _) in pre.sent.iter().chain(post.sent.iter()) {
		if Sha256::hash(&pre_img.0).to_byte_array() != h.0 || *h != hash {
			o.fail("PaymentSent: preimage does not hash to the payment hash");
		}
	}
	let listed = nodes[0].node.list_recent_payments();
	for p in listed {
		if let RecentPaymentDetails::Pending { payment_id, .. } = p {
			if payment_id == id {
				o.fail("after the restart the completed payment is listed as pending");
			}
		}
	}
	std::mem::forget(nodes);
	o
}

fn run_one(name: &str, a: u64, b: u64, c: u64) -> Out {
	let name2 = name.to_string();
	let r = panic::catch_unwind(AssertUnwindSafe(|| match name2.as_str() {
		"line" => scen_line(a % 4, 1_000 * (1 + b % 9_000), c, (c / 3 % 2) as u32),
		"mpp" => scen_mpp(a % 2, b, c),
		"reconnect" => scen_reconnect_dup_fulfil(1_000 * (1 + b % 9_000), c, a % 4),
		"reload" => scen_reload(1_000 * (1 + b % 9_000), c, a % 2 == 1),
		_ => Out::new("unknown", name2.clone()),
	}));
	match r {
		Ok(mut o) => {
			o.params = format!("{} {} {} {}", name, a, b, c);
			let bad = BAD_FULFILLS.swap(0, std::sync::atomic::Ordering::SeqCst);
			if bad > 0 {
				o.fail("an update_fulfill_htlc carried a preimage that does not hash to the HTLC's payment hash");
			}
			o
		},
		Err(e) => {
			let msg = if let Some(s) = e.downcast_ref::<String>() {
				s.clone()
			} else if let Some(s) = e.downcast_ref::<&str>() {
				s.to_string()
			} else {
				"panic".to_string()
			};
			let mut o = Out::new(name, format!("{} {} {} {}", name, a, b, c));
			o.fail(&format!("scenario panicked (library assertion or harness): {}", msg));
			o
		},
	}
}

fn main() {
	panic::set_hook(Box::new(|_| {}));
	let args: Vec<String> = std::env::args().collect();
	if args.len() >= 6 && args[1] == "replay" {
		let o = run_one(&args[2], args[3].parse().unwrap(), args[4].parse().unwrap(), args[5].parse().unwrap());
		o.print();
		return;
	}
	let thorough = args.get(1).map(|s| s == "thorough").unwrap_or(false);
	let seed: u64 = args.get(2).and_then(|s| s.parse().ok()).unwrap_or(1);
	let mut rng = Rng(seed ^ 0xC03);
	let reps = if thorough { 60 } else { 6 };
	for _ in 0..reps {
		for kind in 0..4u64 {
			let o = run_one("line", kind, rng.next(), rng.below(6));
			o.print();
		}
		for kind in 0..2u64 {
			let o = run_one("mpp", kind, rng.below(3), rng.next());
			o.print();
		}
		for stage in 0..3u64 {
			let o = run_one("reconnect", stage, rng.next(), rng.below(3));
			o.print();
		}
		for h in 0..2u64 {
			let o = run_one("reload", h, rng.next(), rng.below(3));
			o.print();
		}
	}
}
