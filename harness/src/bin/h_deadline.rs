//! C08 end-to-end deadline sweep on real nodes (lightning::ln::functional_test_utils).
//!
//! usage: h_deadline <quick|thorough> <seed>      prints one JSON object per scenario
//!        h_deadline replay '<params json-ish: scenario a b>'
//!
//! Every scenario observes heights on the real ChannelManager/ChannelMonitor and judges them with the
//! property's own statement (using the implementation's constants obtained through the hooks):
//!   recv      : a final HTLC is shown claimable only if it leaves the claim window; the advertised
//!               deadline is `cltv - HTLC_FAIL_BACK_BUFFER` and lies in the future
//!   window    : claim_funds strictly below the deadline claims; from the deadline on the node has
//!               failed the HTLC back itself and the channel is still open
//!   inbound   : with the preimage known but the peer gone, the monitor goes on chain early enough that
//!               two confirmations of MAX_BLOCKS_FOR_CONF fit before the payer's timeout
//!   outbound  : an unresolved outbound HTLC puts the node on chain at expiry + grace, not earlier than expiry
//!   race      : dead downstream: upstream fail-back happens after burial and before the upstream peer
//!               has reason to close; the upstream channel survives
use std::collections::HashMap;
use std::panic::{self, AssertUnwindSafe};

use bitcoin::Transaction;
use lightning::events::{Event, HTLCHandlingFailureType};
use lightning::ln::channelmanager::PaymentId;
use lightning::ln::functional_test_utils::*;
use lightning::ln::msgs::{BaseMessageHandler, ChannelMessageHandler, MessageSendEvent};
use lightning::ln::outbound_payment::RecipientOnionFields;
use lightning::ln::verif_hooks as vh;
use lightning::{get_route_and_payment_hash};

fn consts() -> HashMap<&'static str, u32> {
	vh::timing_constants().into_iter().map(|(k, v)| (k, v as u32)).collect()
}

fn take_broadcasts(node: &Node) -> Vec<Transaction> {
	node.tx_broadcaster.txn_broadcasted.lock().unwrap().split_off(0)
}

fn jbool(b: bool) -> &'static str {
	if b {
		"true"
	} else {
		"false"
	}
}

struct Out {
	scenario: String,
	params: String,
	obs: Vec<(String, String)>,
	ok: bool,
	why: String,
}
impl Out {
	fn new(s: &str, p: String) -> Out {
		Out { scenario: s.to_string(), params: p, obs: Vec::new(), ok: true, why: String::new() }
	}
	fn obs<T: std::fmt::Display>(&mut self, k: &str, v: T) {
		self.obs.push((k.to_string(), format!("{}", v)));
	}
	fn fail(&mut self, why: &str) {
		if self.ok {
			self.ok = false;
			self.why = why.to_string();
		}
	}
	fn print(&self) {
		let obs: Vec<String> = self.obs.iter().map(|(k, v)| format!("\"{}\": \"{}\"", k, v)).collect();
		println!(
			"{{\"scenario\": \"{}\", \"params\": \"{}\", \"ok\": {}, \"why\": \"{}\", \"obs\": {{{}}}}}",
			self.scenario,
			self.params,
			jbool(self.ok),
			self.why.replace('"', "'"),
			obs.join(", ")
		);
	}
}

/// Sends a payment 0 -> 1 over a fresh legacy channel, delivers it to node 1 after node 1 has seen
/// `extra_blocks` more blocks, processes forwards at node 1. Returns (events at node 1, cltv_expiry,
/// height of node 1 at processing).
macro_rules! setup2 {
	($nodes: ident, $chanmon_cfgs: ident, $node_cfgs: ident, $node_chanmgrs: ident) => {
		let $chanmon_cfgs = create_chanmon_cfgs(2);
		let $node_cfgs = create_node_cfgs(2, &$chanmon_cfgs);
		let legacy = test_legacy_channel_config();
		let $node_chanmgrs = create_node_chanmgrs(2, &$node_cfgs, &[Some(legacy.clone()), Some(legacy)]);
		let $nodes = create_network(2, &$node_cfgs, &$node_chanmgrs);
		for n in $nodes.iter() {
			*n.connect_style.borrow_mut() = ConnectStyle::BestBlockFirst;
		}
		create_announced_chan_between_nodes(&$nodes, 0, 1);
	};
}

fn scen_recv(off: i64) -> Out {
	let k = consts();
	let hfb = k["HTLC_FAIL_BACK_BUFFER"];
	let mut o = Out::new("recv", format!("recv {}", off));
	setup2!(nodes, chanmon_cfgs, node_cfgs, node_chanmgrs);
	let node_a_id = nodes[0].node.get_our_node_id();
	let amt = 100_000u64;
	let (route, hash, _preimage, secret) = get_route_and_payment_hash!(nodes[0], nodes[1], amt);
	let onion = RecipientOnionFields::secret_only(secret, amt);
	nodes[0].node.send_payment_with_route(route, hash, onion, PaymentId(hash.0)).unwrap();
	check_added_monitors(&nodes[0], 1);
	let ev = SendEvent::from_node(&nodes[0]);
	let cltv = ev.msgs[0].cltv_expiry;
	// bring node 1 to the height at which cltv - h = HFB + 1 + off
	let h_now = nodes[1].best_block_info().1 as i64;
	let target = cltv as i64 - hfb as i64 - 1 - off;
	if target < h_now {
		o.fail("harness: target height in the past");
		std::mem::forget(nodes);
		return o;
	}
	connect_blocks(&nodes[1], (target - h_now) as u32);
	let h1 = nodes[1].best_block_info().1;
	nodes[1].node.handle_update_add_htlc(node_a_id, &ev.msgs[0]);
	do_commitment_signed_dance(&nodes[1], &nodes[0], &ev.commitment_msg, false, false);
	nodes[1].node.process_pending_htlc_forwards();
	let events = nodes[1].node.get_and_clear_pending_events();
	let mut claimable = false;
	let mut deadline: Option<u32> = None;
	let mut failed = false;
	for e in events.iter() {
		match e {
			Event::PaymentClaimable { claim_deadline, .. } => {
				claimable = true;
				deadline = *claim_deadline;
			},
			Event::HTLCHandlingFailed { .. } => failed = true,
			_ => {},
		}
	}
	o.obs("cltv_expiry", cltv);
	o.obs("height", h1);
	o.obs("claimable", claimable);
	o.obs("failed_back", failed);
	o.obs("claim_deadline", deadline.map(|d| d as i64).unwrap_or(-1));
	// judge (property statement with the implementation's constants)
	let ccb = k["CLTV_CLAIM_BUFFER"];
	let lgp = k["LATENCY_GRACE_PERIOD_BLOCKS"];
	if claimable {
		if !(cltv as i64 - h1 as i64 > (ccb + lgp + 1) as i64) {
			o.fail("claimable HTLC leaves no safe claim window (expires within CLTV_CLAIM_BUFFER + grace + 1)");
		}
		match deadline {
			None => o.fail("PaymentClaimable without claim_deadline"),
			Some(d) => {
				if d <= h1 + 1 {
					o.fail("advertised claim deadline is not in the future");
				}
				if d as i64 != cltv as i64 - hfb as i64 {
					o.fail("advertised claim deadline differs from cltv_expiry - HTLC_FAIL_BACK_BUFFER");
				}
				if d + ccb > cltv {
					o.fail("claim deadline later than the height at which the monitor must already be on chain");
				}
			},
		}
	} else if !failed {
		o.fail("HTLC neither claimable nor failed back");
	}
	// a payment leaving exactly the advertised minimum window must be accepted (nothing safe is refused)
	if off >= 1 && !claimable {
		o.fail("HTLC with a sufficient window was refused");
	}
	if off <= 0 && claimable {
		o.fail("HTLC inside the fail-back buffer (+1) was shown as claimable");
	}
	std::mem::forget(nodes);
	o
}

fn scen_window(delta: i64) -> Out {
	let k = consts();
	let mut o = Out::new("window", format!("window {}", delta));
	setup2!(nodes, chanmon_cfgs, node_cfgs, node_chanmgrs);
	let amt = 100_000u64;
	let (preimage, hash, _secret, _id) = route_payment(&nodes[0], &[&nodes[1]], amt);
	// route_payment consumed PaymentClaimable; recompute the deadline from the HTLC itself
	let cltv = {
		let chans = nodes[1].node.list_channels();
		let mut c = 0;
		for ch in chans.iter() {
			for h in ch.pending_inbound_htlcs.iter() {
				c = h.cltv_expiry;
			}
		}
		c
	};
	let hfb = k["HTLC_FAIL_BACK_BUFFER"];
	let deadline = cltv - hfb;
	let target = deadline as i64 + delta;
	let h_now = nodes[1].best_block_info().1 as i64;
	connect_blocks(&nodes[1], (target - h_now) as u32);
	let h1 = nodes[1].best_block_info().1;
	nodes[1].node.process_pending_htlc_forwards();
	let evs = nodes[1].node.get_and_clear_pending_events();
	let failed_by_node = evs.iter().any(|e| matches!(e, Event::HTLCHandlingFailed { failure_type: HTLCHandlingFailureType::Receive { .. }, .. }));
	let closed = evs.iter().any(|e| matches!(e, Event::ChannelClosed { .. }));
	let msgs = nodes[1].node.get_and_clear_pending_msg_events();
	let sent_fail = msgs.iter().any(|m| matches!(m, MessageSendEvent::UpdateHTLCs { updates, .. } if !updates.update_fail_htlcs.is_empty()));
	nodes[1].chain_monitor.added_monitors.lock().unwrap().clear();
	nodes[1].node.claim_funds(preimage);
	let evs2 = nodes[1].node.get_and_clear_pending_events();
	let claimed_amt: Option<u64> = evs2.iter().find_map(|e| if let Event::PaymentClaimed { amount_msat, payment_hash, .. } = e { if *payment_hash == hash { Some(*amount_msat) } else { None } } else { None });
	let msgs2 = nodes[1].node.get_and_clear_pending_msg_events();
	let sent_fulfill = msgs2.iter().any(|m| matches!(m, MessageSendEvent::UpdateHTLCs { updates, .. } if !updates.update_fulfill_htlcs.is_empty()));
	let bcast = take_broadcasts(&nodes[1]);
	o.obs("cltv_expiry", cltv);
	o.obs("deadline", deadline);
	o.obs("height", h1);
	o.obs("failed_by_node", failed_by_node);
	o.obs("sent_fail", sent_fail);
	o.obs("claimed_amt", claimed_amt.map(|a| a as i64).unwrap_or(-1));
	o.obs("sent_fulfill", sent_fulfill);
	o.obs("broadcasts", bcast.len());
	if closed || !bcast.is_empty() {
		o.fail("channel closed / went on chain around the claim deadline");
	}
	if h1 < deadline {
		if failed_by_node || sent_fail {
			o.fail("HTLC failed back below the advertised claim deadline");
		}
		if claimed_amt != Some(amt) || !sent_fulfill {
			o.fail("claim_funds below the advertised deadline did not claim the full amount");
		}
	} else {
		if !(failed_by_node && sent_fail) {
			o.fail("node did not fail the HTLC back itself at the claim deadline");
		}
		if claimed_amt.is_some() || sent_fulfill {
			o.fail("claim succeeded although the HTLC had been failed back");
		}
	}
	nodes[1].chain_monitor.added_monitors.lock().unwrap().clear();
	std::mem::forget(nodes);
	o
}

fn scen_inbound(_x: i64) -> Out {
	let k = consts();
	let (ccb, mbc) = (k["CLTV_CLAIM_BUFFER"], k["MAX_BLOCKS_FOR_CONF"]);
	let mut o = Out::new("inbound", "inbound 0".to_string());
	setup2!(nodes, chanmon_cfgs, node_cfgs, node_chanmgrs);
	let node_a_id = nodes[0].node.get_our_node_id();
	let node_b_id = nodes[1].node.get_our_node_id();
	let amt = 3_000_000u64;
	let (preimage, _hash, _secret, _id) = route_payment(&nodes[0], &[&nodes[1]], amt);
	let cltv = nodes[1].node.list_channels()[0].pending_inbound_htlcs[0].cltv_expiry;
	// the payer disappears; the user claims (the preimage reaches the monitor), the fulfil cannot be delivered
	nodes[0].node.peer_disconnected(node_b_id);
	nodes[1].node.peer_disconnected(node_a_id);
	nodes[1].node.claim_funds(preimage);
	nodes[1].chain_monitor.added_monitors.lock().unwrap().clear();
	let _ = nodes[1].node.get_and_clear_pending_events();
	let _ = nodes[1].node.get_and_clear_pending_msg_events();
	let mut first: Option<u32> = None;
	while nodes[1].best_block_info().1 < cltv + 5 {
		connect_blocks(&nodes[1], 1);
		let b = take_broadcasts(&nodes[1]);
		if !b.is_empty() {
			first = Some(nodes[1].best_block_info().1);
			break;
		}
	}
	o.obs("cltv_expiry", cltv);
	o.obs("onchain_at", first.map(|h| h as i64).unwrap_or(-1));
	o.obs("model_onchain_at", cltv - ccb);
	match first {
		None => o.fail("monitor never went on chain for an inbound HTLC whose preimage it knows"),
		Some(h) => {
			if h + 2 * mbc > cltv {
				o.fail("monitor went on chain too late: two confirmations of MAX_BLOCKS_FOR_CONF no longer fit before the payer's timeout");
			}
		},
	}
	let _ = nodes[1].node.get_and_clear_pending_events();
	let _ = nodes[1].node.get_and_clear_pending_msg_events();
	nodes[1].chain_monitor.added_monitors.lock().unwrap().clear();
	std::mem::forget(nodes);
	o
}

fn scen_outbound(_x: i64) -> Out {
	let k = consts();
	let lgp = k["LATENCY_GRACE_PERIOD_BLOCKS"];
	let mut o = Out::new("outbound", "outbound 0".to_string());
	setup2!(nodes, chanmon_cfgs, node_cfgs, node_chanmgrs);
	let amt = 3_000_000u64;
	let (_preimage, _hash, _secret, _id) = route_payment(&nodes[0], &[&nodes[1]], amt);
	let cltv = nodes[0].node.list_channels()[0].pending_outbound_htlcs[0].cltv_expiry;
	// peer is silent: node 1 sees no blocks, sends nothing
	let mut first: Option<u32> = None;
	while nodes[0].best_block_info().1 < cltv + lgp + 5 {
		connect_blocks(&nodes[0], 1);
		let b = take_broadcasts(&nodes[0]);
		if !b.is_empty() {
			first = Some(nodes[0].best_block_info().1);
			break;
		}
	}
	o.obs("cltv_expiry", cltv);
	o.obs("onchain_at", first.map(|h| h as i64).unwrap_or(-1));
	o.obs("model_onchain_at", cltv + lgp);
	match first {
		None => o.fail("node never went on chain for an expired outbound HTLC"),
		Some(h) => {
			if h > cltv + lgp {
				o.fail("node went on chain later than the grace period after expiry");
			}
			if h < cltv {
				o.fail("node went on chain before the outbound HTLC expired");
			}
		},
	}
	let _ = nodes[0].node.get_and_clear_pending_events();
	let _ = nodes[0].node.get_and_clear_pending_msg_events();
	nodes[0].chain_monitor.added_monitors.lock().unwrap().clear();
	std::mem::forget(nodes);
	o
}

/// Connects one block containing `txs` on each of the two nodes (each on its own dummy chain).
fn both(nodes: &Vec<Node>, txs: Vec<Transaction>) {
	for i in [1usize, 0] {
		let block = create_dummy_block(nodes[i].best_block_hash(), 42, txs.clone());
		connect_block(&nodes[i], &block);
	}
}

fn scen_race(d1: i64, d2: i64) -> Out {
	let k = consts();
	let (lgp, ard) = (k["LATENCY_GRACE_PERIOD_BLOCKS"], k["ANTI_REORG_DELAY"]);
	let mut o = Out::new("race", format!("race {} {}", d1, d2));
	let chanmon_cfgs = create_chanmon_cfgs(3);
	let node_cfgs = create_node_cfgs(3, &chanmon_cfgs);
	let legacy = test_legacy_channel_config();
	let node_chanmgrs = create_node_chanmgrs(3, &node_cfgs, &[Some(legacy.clone()), Some(legacy.clone()), Some(legacy)]);
	let nodes = create_network(3, &node_cfgs, &node_chanmgrs);
	for n in nodes.iter() {
		*n.connect_style.borrow_mut() = if (d1 + d2) % 2 == 0 { ConnectStyle::BestBlockFirst } else { ConnectStyle::TransactionsFirst };
	}
	create_announced_chan_between_nodes(&nodes, 0, 1);
	create_announced_chan_between_nodes(&nodes, 1, 2);
	let node_a_id = nodes[0].node.get_our_node_id();
	let (_preimage, _hash, _secret, _id) = route_payment(&nodes[0], &[&nodes[1], &nodes[2]], 3_000_000);
	let (mut in_cltv, mut out_cltv) = (0u32, 0u32);
	for ch in nodes[1].node.list_channels().iter() {
		for h in ch.pending_inbound_htlcs.iter() {
			in_cltv = h.cltv_expiry;
		}
		for h in ch.pending_outbound_htlcs.iter() {
			out_cltv = h.cltv_expiry;
		}
	}
	o.obs("in_cltv", in_cltv);
	o.obs("out_cltv", out_cltv);
	// node 2 is silent from now on. Nodes 0 and 1 see the same chain.
	let mut commitment: Option<Transaction> = None;
	let mut seen: Vec<Transaction> = Vec::new();
	let mut onchain_at = 0u32;
	while nodes[1].best_block_info().1 < out_cltv + lgp + 3 {
		both(&nodes, Vec::new());
		let b = take_broadcasts(&nodes[1]);
		if !b.is_empty() {
			onchain_at = nodes[1].best_block_info().1;
			commitment = Some(b[0].clone());
			seen = b;
			break;
		}
	}
	o.obs("onchain_at", onchain_at);
	let commitment = match commitment {
		Some(c) => c,
		None => {
			o.fail("forwarding node never went on chain for the expired downstream HTLC");
			std::mem::forget(nodes);
			return o;
		},
	};
	if onchain_at > out_cltv + lgp {
		o.fail("forwarding node went on chain later than out_cltv + grace");
	}
	nodes[1].chain_monitor.added_monitors.lock().unwrap().clear();
	let _ = nodes[1].node.get_and_clear_pending_events();
	let _ = nodes[1].node.get_and_clear_pending_msg_events();
	// the commitment confirms d1 blocks later
	for _ in 0..(d1 - 1) {
		both(&nodes, Vec::new());
	}
	seen.extend(take_broadcasts(&nodes[1]));
	both(&nodes, vec![commitment.clone()]);
	let c1 = nodes[1].best_block_info().1;
	let mut timeout_tx: Option<Transaction> = None;
	seen.extend(take_broadcasts(&nodes[1]));
	for tx in seen.into_iter() {
		if tx.input.iter().any(|i| i.previous_output.txid == commitment.compute_txid()) && tx.lock_time.to_consensus_u32() == out_cltv {
			timeout_tx = Some(tx);
		}
	}
	let timeout_tx = match timeout_tx {
		Some(t) => t,
		None => {
			o.fail("no HTLC-timeout claim broadcast once the commitment confirmed");
			std::mem::forget(nodes);
			return o;
		},
	};
	for _ in 0..(d2 - 1) {
		both(&nodes, Vec::new());
	}
	both(&nodes, vec![timeout_tx.clone()]);
	let c2 = nodes[1].best_block_info().1;
	o.obs("commitment_confirmed", c1);
	o.obs("timeout_confirmed", c2);
	// now wait for the upstream fail
	let mut failback_at: Option<u32> = None;
	let mut early = false;
	for i in 0..(ard + 3) {
		let mut msgs = nodes[1].node.get_and_clear_pending_msg_events();
		nodes[1].node.process_pending_htlc_forwards();
		msgs.extend(nodes[1].node.get_and_clear_pending_msg_events());
		let sent_fail = msgs.iter().any(|m| matches!(m, MessageSendEvent::UpdateHTLCs { node_id, updates, .. } if *node_id == node_a_id && !updates.update_fail_htlcs.is_empty()));
		if sent_fail {
			failback_at = Some(nodes[1].best_block_info().1);
			if i == 0 && ard > 1 {
				early = true;
			}
			break;
		}
		both(&nodes, Vec::new());
	}
	o.obs("failback_at", failback_at.map(|h| h as i64).unwrap_or(-1));
	let a_bcast = take_broadcasts(&nodes[0]);
	o.obs("upstream_peer_broadcasts", a_bcast.len());
	match failback_at {
		None => o.fail("upstream HTLC not failed back after the downstream timeout was buried"),
		Some(f) => {
			if early || f + 1 < c2 + ard {
				o.fail("upstream HTLC failed back before the downstream timeout was buried by ANTI_REORG_DELAY");
			}
			if f + lgp > in_cltv {
				o.fail("upstream fail-back later than in_cltv - grace: the upstream peer has reason to close");
			}
		},
	}
	if !a_bcast.is_empty() {
		o.fail("upstream peer force-closed");
	}
	for n in nodes.iter() {
		let _ = n.node.get_and_clear_pending_events();
		let _ = n.node.get_and_clear_pending_msg_events();
		n.chain_monitor.added_monitors.lock().unwrap().clear();
	}
	std::mem::forget(nodes);
	o
}

/// A forwarding node configured with `cltv_expiry_delta = cfg_delta` receives an HTLC whose onion
/// leaves it `onion_delta` blocks between inbound and outbound expiry. Whatever it is configured
/// with, it must never relay with less than MIN_CLTV_EXPIRY_DELTA blocks (the race budget), and it
/// must relay when the delta is at least max(cfg_delta, MIN_CLTV_EXPIRY_DELTA).
fn scen_subdelta(cfg_delta: i64, onion_delta: i64) -> Out {
	let k = consts();
	let min_delta = k["MIN_CLTV_EXPIRY_DELTA"];
	let mut o = Out::new("subdelta", format!("subdelta {} {}", cfg_delta, onion_delta));
	let chanmon_cfgs = create_chanmon_cfgs(3);
	let node_cfgs = create_node_cfgs(3, &chanmon_cfgs);
	let mut cfg_b = test_legacy_channel_config();
	cfg_b.channel_config.cltv_expiry_delta = cfg_delta as u16;
	let legacy = test_legacy_channel_config();
	let node_chanmgrs = create_node_chanmgrs(3, &node_cfgs, &[Some(legacy.clone()), Some(cfg_b), Some(legacy)]);
	let nodes = create_network(3, &node_cfgs, &node_chanmgrs);
	for n in nodes.iter() {
		*n.connect_style.borrow_mut() = ConnectStyle::BestBlockFirst;
	}
	create_announced_chan_between_nodes(&nodes, 0, 1);
	create_announced_chan_between_nodes(&nodes, 1, 2);
	let node_a_id = nodes[0].node.get_our_node_id();
	let node_c_id = nodes[2].node.get_our_node_id();
	let amt = 100_000u64;
	let (mut route, hash, _preimage, secret) = get_route_and_payment_hash!(nodes[0], nodes[2], amt);
	o.obs("advertised_delta", route.paths[0].hops[0].cltv_expiry_delta);
	route.paths[0].hops[0].cltv_expiry_delta = onion_delta as u32;
	let onion = RecipientOnionFields::secret_only(secret, amt);
	nodes[0].node.send_payment_with_route(route, hash, onion, PaymentId(hash.0)).unwrap();
	check_added_monitors(&nodes[0], 1);
	let ev = SendEvent::from_node(&nodes[0]);
	let in_cltv = ev.msgs[0].cltv_expiry;
	nodes[1].node.handle_update_add_htlc(node_a_id, &ev.msgs[0]);
	do_commitment_signed_dance(&nodes[1], &nodes[0], &ev.commitment_msg, false, true);
	nodes[1].node.process_pending_htlc_forwards();
	nodes[1].node.process_pending_htlc_forwards();
	let msgs = nodes[1].node.get_and_clear_pending_msg_events();
	let mut out_cltv: Option<u32> = None;
	for m in msgs.iter() {
		if let MessageSendEvent::UpdateHTLCs { node_id, updates, .. } = m {
			if *node_id == node_c_id {
				for a in updates.update_add_htlcs.iter() {
					out_cltv = Some(a.cltv_expiry);
				}
			}
		}
	}
	o.obs("in_cltv", in_cltv);
	o.obs("relayed", out_cltv.is_some());
	o.obs("out_cltv", out_cltv.map(|c| c as i64).unwrap_or(-1));
	match out_cltv {
		Some(oc) => {
			if (in_cltv as i64) - (oc as i64) < min_delta as i64 {
				o.fail("forwarded an HTLC leaving fewer than MIN_CLTV_EXPIRY_DELTA blocks between outbound and inbound expiry");
			}
		},
		None => {
			if onion_delta >= std::cmp::max(cfg_delta, min_delta as i64) {
				o.fail("refused to forward an HTLC that satisfies the advertised CLTV delta");
			}
		},
	}
	for n in nodes.iter() {
		let _ = n.node.get_and_clear_pending_events();
		let _ = n.node.get_and_clear_pending_msg_events();
		n.chain_monitor.added_monitors.lock().unwrap().clear();
	}
	std::mem::forget(nodes);
	o
}

/// B forwards an HTLC to C, who goes silent before acknowledging it; B's commitment WITHOUT the HTLC
/// confirms; after `confs` confirmations B restarts from its serialized state. The upstream HTLC may be
/// failed back only once the commitment is buried by ANTI_REORG_DELAY (a reorg could still confirm C's
/// commitment, which contains the HTLC) -- also across the restart. `dust` = the HTLC is below dust.
fn scen_reload_burial(confs: i64, dust: i64) -> Out {
	use lightning::util::ser::Writeable;
	let k = consts();
	let ard = k["ANTI_REORG_DELAY"];
	let mut o = Out::new("reload_burial", format!("reload_burial {} {}", confs, dust));
	let chanmon_cfgs = create_chanmon_cfgs(3);
	let node_cfgs = create_node_cfgs(3, &chanmon_cfgs);
	let persister;
	let new_chain_monitor;
	let legacy = test_legacy_channel_config();
	let node_chanmgrs = create_node_chanmgrs(3, &node_cfgs, &[Some(legacy.clone()), Some(legacy.clone()), Some(legacy.clone())]);
	let nodes_1_deserialized;
	let mut nodes = create_network(3, &node_cfgs, &node_chanmgrs);
	for n in nodes.iter() {
		*n.connect_style.borrow_mut() = ConnectStyle::BestBlockFirst;
	}
	let node_a_id = nodes[0].node.get_our_node_id();
	let node_b_id = nodes[1].node.get_our_node_id();
	let node_c_id = nodes[2].node.get_our_node_id();
	let chan_id_1 = create_announced_chan_between_nodes(&nodes, 0, 1).2;
	let chan_id_2 = create_announced_chan_between_nodes(&nodes, 1, 2).2;
	let amt = if dust == 1 { 10_000u64 } else { 1_000_000u64 };
	let (route, hash, _preimage, secret) = get_route_and_payment_hash!(nodes[0], nodes[2], amt);
	let onion = RecipientOnionFields::secret_only(secret, amt);
	nodes[0].node.send_payment_with_route(route, hash, onion, PaymentId(hash.0)).unwrap();
	check_added_monitors(&nodes[0], 1);
	let bs_txn = lightning::get_local_commitment_txn!(nodes[1], chan_id_2);
	let updates = get_htlc_update_msgs(&nodes[0], &node_b_id);
	nodes[1].node.handle_update_add_htlc(node_a_id, &updates.update_add_htlcs[0]);
	do_commitment_signed_dance(&nodes[1], &nodes[0], &updates.commitment_signed, false, false);
	nodes[1].node.process_pending_htlc_forwards();
	let _ = nodes[1].node.get_and_clear_pending_msg_events(); // the add towards C: never delivered
	nodes[1].chain_monitor.added_monitors.lock().unwrap().clear();
	// C never responds; B's pre-HTLC commitment confirms.
	mine_transaction(&nodes[1], &bs_txn[0]);
	let conf_height = nodes[1].best_block_info().1;
	let _ = take_broadcasts(&nodes[1]);
	let mut failed_at: Option<u32> = None;
	let drain = |nodes: &Vec<Node>, failed_at: &mut Option<u32>| {
		nodes[1].node.process_pending_htlc_forwards();
		let evs = nodes[1].node.get_and_clear_pending_events();
		let mut msgs = nodes[1].node.get_and_clear_pending_msg_events();
		nodes[1].node.process_pending_htlc_forwards();
		msgs.extend(nodes[1].node.get_and_clear_pending_msg_events());
		let ev_fail = evs.iter().any(|e| matches!(e, Event::HTLCHandlingFailed { .. }));
		let msg_fail = msgs.iter().any(|m| matches!(m, MessageSendEvent::UpdateHTLCs { node_id, updates, .. } if *node_id == node_a_id && !updates.update_fail_htlcs.is_empty()));
		if (ev_fail || msg_fail) && failed_at.is_none() {
			*failed_at = Some(nodes[1].best_block_info().1);
		}
		nodes[1].chain_monitor.added_monitors.lock().unwrap().clear();
	};
	drain(&nodes, &mut failed_at);
	for _ in 1..confs {
		connect_blocks(&nodes[1], 1);
		drain(&nodes, &mut failed_at);
	}
	let before_reload = failed_at;
	if failed_at.is_some() {
		// already failed back (burial reached before the scripted restart point): judge below
		o.obs("commitment_confirmed", conf_height);
		o.obs("failback_at", failed_at.unwrap());
		o.obs("model_failback_at", conf_height + ard - 1);
		if failed_at.unwrap() + 1 < conf_height + ard {
			o.fail("upstream HTLC failed back before the confirmed commitment was buried by ANTI_REORG_DELAY");
		}
		if failed_at.unwrap() > conf_height + ard {
			o.fail("upstream HTLC failed back later than burial of the confirmed commitment");
		}
		for n in nodes.iter() {
			let _ = n.node.get_and_clear_pending_events();
			let _ = n.node.get_and_clear_pending_msg_events();
			n.chain_monitor.added_monitors.lock().unwrap().clear();
		}
		std::mem::forget(nodes);
		return o;
	}
	// restart B
	let node_ser = nodes[1].node.encode();
	let mon_a_ser = lightning::get_monitor!(nodes[1], chan_id_1).encode();
	let mon_b_ser = lightning::get_monitor!(nodes[1], chan_id_2).encode();
	let mons = &[&mon_a_ser[..], &mon_b_ser[..]];
	lightning::reload_node!(nodes[1], &node_ser, mons, persister, new_chain_monitor, nodes_1_deserialized);
	*nodes[1].connect_style.borrow_mut() = ConnectStyle::BestBlockFirst;
	drain(&nodes, &mut failed_at);
	o.obs("failed_back_on_reload", failed_at.is_some());
	if failed_at.is_none() {
		nodes[0].node.peer_disconnected(node_b_id);
		nodes[2].node.peer_disconnected(node_b_id);
		let mut ra = ReconnectArgs::new(&nodes[0], &nodes[1]);
		ra.send_channel_ready = (false, false);
		reconnect_nodes(ra);
		drain(&nodes, &mut failed_at);
	}
	let mut guard = 0;
	while failed_at.is_none() && guard < ard + 4 {
		connect_blocks(&nodes[1], 1);
		drain(&nodes, &mut failed_at);
		guard += 1;
	}
	o.obs("commitment_confirmed", conf_height);
	o.obs("reload_at", conf_height as i64 + confs - 1);
	o.obs("failed_back_before_reload", before_reload.map(|h| h as i64).unwrap_or(-1));
	o.obs("failback_at", failed_at.map(|h| h as i64).unwrap_or(-1));
	o.obs("model_failback_at", conf_height + ard - 1);
	match failed_at {
		None => o.fail("upstream HTLC never failed back although the downstream commitment without it is buried"),
		Some(f) => {
			if f + 1 < conf_height + ard {
				o.fail("upstream HTLC failed back before the confirmed commitment was buried by ANTI_REORG_DELAY");
			}
			if f > conf_height + ard {
				o.fail("upstream HTLC failed back later than burial of the confirmed commitment");
			}
		},
	}
	let _ = node_c_id;
	for n in nodes.iter() {
		let _ = n.node.get_and_clear_pending_events();
		let _ = n.node.get_and_clear_pending_msg_events();
		n.chain_monitor.added_monitors.lock().unwrap().clear();
	}
	std::mem::forget(nodes);
	o
}

/// A two-part payment over two channels between the same two nodes, the parts expiring `gap` blocks
/// apart; `order` = 0 delivers the earlier-expiring part first, 1 delivers it last. The advertised claim
/// deadline must be (earliest expiry of ALL parts) - HTLC_FAIL_BACK_BUFFER: strictly below it nothing is
/// failed back and claim_funds claims everything; from it on the node fails the payment back itself.
fn scen_mppdeadline(order: i64, gap: i64) -> Out {
	let k = consts();
	let hfb = k["HTLC_FAIL_BACK_BUFFER"];
	let mut o = Out::new("mppdeadline", format!("mppdeadline {} {}", order, gap));
	let chanmon_cfgs = create_chanmon_cfgs(2);
	let node_cfgs = create_node_cfgs(2, &chanmon_cfgs);
	let legacy = test_legacy_channel_config();
	let node_chanmgrs = create_node_chanmgrs(2, &node_cfgs, &[Some(legacy.clone()), Some(legacy)]);
	let nodes = create_network(2, &node_cfgs, &node_chanmgrs);
	for n in nodes.iter() {
		*n.connect_style.borrow_mut() = ConnectStyle::BestBlockFirst;
	}
	let c1 = create_announced_chan_between_nodes(&nodes, 0, 1);
	let c2 = create_announced_chan_between_nodes(&nodes, 0, 1);
	let node_a_id = nodes[0].node.get_our_node_id();
	let total = 2_000_000u64;
	let (mut route, hash, preimage, secret) = get_route_and_payment_hash!(nodes[0], nodes[1], total);
	// two single-hop paths, one per channel, the second expiring `gap` blocks later
	let mut p1 = route.paths[0].clone();
	let mut p2 = route.paths[0].clone();
	p1.hops[0].short_channel_id = c1.0.contents.short_channel_id;
	p2.hops[0].short_channel_id = c2.0.contents.short_channel_id;
	p1.hops[0].fee_msat = total / 2;
	p2.hops[0].fee_msat = total / 2;
	p2.hops[0].cltv_expiry_delta += gap as u32;
	route.paths = vec![p1, p2];
	route.route_params.payment_params.max_path_count = 2;
	let onion = RecipientOnionFields::secret_only(secret, total);
	nodes[0].node.send_payment_with_route(route, hash, onion, PaymentId(hash.0)).unwrap();
	check_added_monitors(&nodes[0], 2);
	let mut evs = nodes[0].node.get_and_clear_pending_msg_events();
	if evs.len() != 2 {
		o.fail("harness: expected two update_add batches");
		std::mem::forget(nodes);
		return o;
	}
	let mut sends: Vec<SendEvent> = evs.drain(..).map(SendEvent::from_event).collect();
	// sort: earlier-expiring part first
	sends.sort_by_key(|s| s.msgs[0].cltv_expiry);
	if order == 1 {
		sends.reverse();
	}
	let expiries: Vec<u32> = sends.iter().map(|s| s.msgs[0].cltv_expiry).collect();
	let min_exp = *expiries.iter().min().unwrap();
	let mut deadline: Option<u32> = None;
	let mut claimable_amt = 0u64;
	for s in sends.iter() {
		nodes[1].node.handle_update_add_htlc(node_a_id, &s.msgs[0]);
		do_commitment_signed_dance(&nodes[1], &nodes[0], &s.commitment_msg, false, false);
		nodes[1].node.process_pending_htlc_forwards();
		for e in nodes[1].node.get_and_clear_pending_events() {
			if let Event::PaymentClaimable { claim_deadline, amount_msat, .. } = e {
				deadline = claim_deadline;
				claimable_amt = amount_msat;
			}
		}
	}
	o.obs("expiries", format!("{:?}", expiries).replace('"', ""));
	o.obs("advertised_deadline", deadline.map(|d| d as i64).unwrap_or(-1));
	o.obs("model_deadline", min_exp - hfb);
	o.obs("claimable_amt", claimable_amt);
	let d = match deadline {
		Some(d) => d,
		None => {
			o.fail("complete two-part payment not shown as claimable");
			std::mem::forget(nodes);
			return o;
		},
	};
	if d != min_exp - hfb {
		o.fail("advertised claim deadline is not (earliest expiry over ALL parts) - HTLC_FAIL_BACK_BUFFER");
	}
	// go to one block below the advertised deadline: nothing may have been failed back, the claim must work
	let h_now = nodes[1].best_block_info().1;
	if d > h_now + 1 {
		connect_blocks(&nodes[1], d - 1 - h_now);
	}
	nodes[1].node.process_pending_htlc_forwards();
	let evs = nodes[1].node.get_and_clear_pending_events();
	let failed_early = evs.iter().any(|e| matches!(e, Event::HTLCHandlingFailed { .. }));
	let msgs = nodes[1].node.get_and_clear_pending_msg_events();
	let sent_fail = msgs.iter().any(|m| matches!(m, MessageSendEvent::UpdateHTLCs { updates, .. } if !updates.update_fail_htlcs.is_empty()));
	o.obs("height_before_claim", nodes[1].best_block_info().1);
	if failed_early || sent_fail {
		o.fail("a part of the payment was failed back strictly below the advertised claim deadline");
	}
	nodes[1].chain_monitor.added_monitors.lock().unwrap().clear();
	nodes[1].node.claim_funds(preimage);
	let evs2 = nodes[1].node.get_and_clear_pending_events();
	let claimed: Option<u64> = evs2.iter().find_map(|e| if let Event::PaymentClaimed { amount_msat, .. } = e { Some(*amount_msat) } else { None });
	o.obs("claimed_amt", claimed.map(|a| a as i64).unwrap_or(-1));
	if !(failed_early || sent_fail) && claimed != Some(total) {
		o.fail("claim_funds strictly below the advertised claim deadline did not claim the full amount");
	}
	for n in nodes.iter() {
		let _ = n.node.get_and_clear_pending_events();
		let _ = n.node.get_and_clear_pending_msg_events();
		n.chain_monitor.added_monitors.lock().unwrap().clear();
	}
	std::mem::forget(nodes);
	o
}

/// A forwarded HTLC waits in B's holding cell (B -> C is awaiting a revoke_and_ack from a silent C).
/// Blocks arrive one at a time at B. By the first height at which the HTLC's outgoing expiry is within
/// LATENCY_GRACE_PERIOD_BLOCKS the HTLC must have been failed back upstream (it can no longer be
/// forwarded safely) -- never silently dropped. `splice` = 1: a splice of the B-C channel reaches its
/// confirmation depth `off` blocks relative to that height (0 = in the very same block).
fn scen_holdcell(splice: i64, off: i64) -> Out {
	use bitcoin::{Amount, TxOut};
	use lightning::ln::splicing_tests::{initiate_splice_out, splice_channel};
	use lightning::util::wallet_utils::WalletSourceSync;
	let k = consts();
	let (lgp, ard) = (k["LATENCY_GRACE_PERIOD_BLOCKS"], k["ANTI_REORG_DELAY"]);
	let mut o = Out::new("holdcell", format!("holdcell {} {}", splice, off));
	let chanmon_cfgs = create_chanmon_cfgs(3);
	let node_cfgs = create_node_cfgs(3, &chanmon_cfgs);
	let config = test_default_channel_config();
	let node_chanmgrs = create_node_chanmgrs(3, &node_cfgs, &[Some(config.clone()), Some(config.clone()), Some(config)]);
	let nodes = create_network(3, &node_cfgs, &node_chanmgrs);
	for n in nodes.iter() {
		*n.connect_style.borrow_mut() = ConnectStyle::FullBlockViaListen;
	}
	let node_a_id = nodes[0].node.get_our_node_id();
	create_announced_chan_between_nodes(&nodes, 0, 1);
	let chan_bc = create_announced_chan_between_nodes(&nodes, 1, 2).2;
	let start = nodes.iter().map(|n| n.best_block_info().1).max().unwrap() + 1;
	for n in nodes.iter() {
		connect_blocks(n, start - n.best_block_info().1);
	}
	let mut splice_tx: Option<Transaction> = None;
	if splice == 1 {
		let outputs = vec![TxOut { value: Amount::from_sat(1_000), script_pubkey: nodes[1].wallet_source.get_change_script().unwrap() }];
		let contribution = initiate_splice_out(&nodes[1], &nodes[2], chan_bc, outputs).unwrap();
		let (tx, _) = splice_channel(&nodes[1], &nodes[2], chan_bc, contribution);
		splice_tx = Some(tx);
	}
	// first payment B -> C puts the channel into awaiting-RAA; C never answers
	let (route, h1, _, s1) = get_route_and_payment_hash!(nodes[1], nodes[2], 100_000);
	nodes[1].node.send_payment_with_route(route, h1, RecipientOnionFields::secret_only(s1, 100_000), PaymentId(h1.0)).unwrap();
	let _ = nodes[1].node.get_and_clear_pending_msg_events();
	nodes[1].chain_monitor.added_monitors.lock().unwrap().clear();
	// second payment A -> B -> C is held in B's holding cell
	let (route, h2, _, s2) = get_route_and_payment_hash!(nodes[0], nodes[2], 100_000);
	nodes[0].node.send_payment_with_route(route, h2, RecipientOnionFields::secret_only(s2, 100_000), PaymentId(h2.0)).unwrap();
	check_added_monitors(&nodes[0], 1);
	let ev = SendEvent::from_event(nodes[0].node.get_and_clear_pending_msg_events().remove(0));
	nodes[1].node.handle_update_add_htlc(node_a_id, &ev.msgs[0]);
	do_commitment_signed_dance(&nodes[1], &nodes[0], &ev.commitment_msg, false, false);
	nodes[1].node.process_pending_htlc_forwards();
	nodes[1].chain_monitor.added_monitors.lock().unwrap().clear();
	let _ = nodes[1].node.get_and_clear_pending_msg_events();
	let mut out_cltv = 0u32;
	for ch in nodes[1].node.list_channels().iter() {
		for h in ch.pending_outbound_htlcs.iter() {
			if h.payment_hash == h2 {
				out_cltv = h.cltv_expiry;
			}
		}
	}
	if out_cltv == 0 {
		o.fail("harness: forwarded HTLC not found in the holding cell");
		std::mem::forget(nodes);
		return o;
	}
	let timeout_height = out_cltv - lgp;
	let splice_conf_height = (timeout_height as i64 + off - (ard as i64 - 1)) as u32;
	let mut failed_at: Option<u32> = None;
	while nodes[1].best_block_info().1 < out_cltv + 3 {
		let next = nodes[1].best_block_info().1 + 1;
		if splice_tx.is_some() && next == splice_conf_height {
			mine_transaction(&nodes[1], splice_tx.as_ref().unwrap());
		} else {
			connect_blocks(&nodes[1], 1);
		}
		nodes[1].node.process_pending_htlc_forwards();
		let evs = nodes[1].node.get_and_clear_pending_events();
		let mut msgs = nodes[1].node.get_and_clear_pending_msg_events();
		nodes[1].node.process_pending_htlc_forwards();
		msgs.extend(nodes[1].node.get_and_clear_pending_msg_events());
		nodes[1].chain_monitor.added_monitors.lock().unwrap().clear();
		let ev_fail = evs.iter().any(|e| matches!(e, Event::HTLCHandlingFailed { .. }));
		let msg_fail = msgs.iter().any(|m| matches!(m, MessageSendEvent::UpdateHTLCs { node_id, updates, .. } if *node_id == node_a_id && !updates.update_fail_htlcs.is_empty()));
		if ev_fail || msg_fail {
			failed_at = Some(nodes[1].best_block_info().1);
			break;
		}
	}
	let _ = take_broadcasts(&nodes[1]);
	o.obs("out_cltv", out_cltv);
	o.obs("model_failback_at", timeout_height);
	o.obs("failback_at", failed_at.map(|h| h as i64).unwrap_or(-1));
	o.obs("splice_conf_height", if splice == 1 { splice_conf_height as i64 } else { -1 });
	match failed_at {
		None => o.fail("an HTLC held in the holding cell expired without being forwarded or failed back upstream"),
		Some(f) => {
			if f > timeout_height {
				o.fail("held HTLC failed back later than outgoing expiry - grace period");
			}
		},
	}
	for n in nodes.iter() {
		let _ = n.node.get_and_clear_pending_events();
		let _ = n.node.get_and_clear_pending_msg_events();
		n.chain_monitor.added_monitors.lock().unwrap().clear();
	}
	std::mem::forget(nodes);
	o
}

fn run_one(name: &str, a: i64, b: i64) {
	let r = panic::catch_unwind(AssertUnwindSafe(|| match name {
		"recv" => scen_recv(a),
		"window" => scen_window(a),
		"inbound" => scen_inbound(a),
		"outbound" => scen_outbound(a),
		"race" => scen_race(a, b),
		"subdelta" => scen_subdelta(a, b),
		"reload_burial" => scen_reload_burial(a, b),
		"mppdeadline" => scen_mppdeadline(a, b),
		"holdcell" => scen_holdcell(a, b),
		_ => {
			let mut o = Out::new(name, String::new());
			o.fail("unknown scenario");
			o
		},
	}));
	match r {
		Ok(o) => o.print(),
		Err(e) => {
			let msg = if let Some(s) = e.downcast_ref::<String>() {
				s.clone()
			} else if let Some(s) = e.downcast_ref::<&str>() {
				s.to_string()
			} else {
				"?".to_string()
			};
			let mut o = Out::new(name, format!("{} {} {}", name, a, b));
			o.fail(&format!("panic: {}", msg.replace('\n', " ").chars().take(300).collect::<String>()));
			o.print();
		},
	}
}

fn main() {
	panic::set_hook(Box::new(|_| {}));
	let args: Vec<String> = std::env::args().collect();
	if args.len() >= 3 && args[1] == "replay" {
		let p: Vec<&str> = args[2].split_whitespace().collect();
		let a = p.get(1).and_then(|x| x.parse().ok()).unwrap_or(0);
		let b = p.get(2).and_then(|x| x.parse().ok()).unwrap_or(0);
		run_one(p[0], a, b);
		return;
	}
	let thorough = args.get(1).map(|s| s == "thorough").unwrap_or(false);
	let seed: u64 = args.get(2).and_then(|s| s.parse().ok()).unwrap_or(1);
	let mut rng = verif_harness::Rng(seed);
	let k = consts();
	let mbc = k["MAX_BLOCKS_FOR_CONF"] as i64;
	for off in [-2i64, -1, 0, 1, 2, 5] {
		run_one("recv", off, 0);
	}
	for d in [-3i64, -2, -1, 0, 1, 2] {
		run_one("window", d, 0);
	}
	run_one("inbound", 0, 0);
	run_one("outbound", 0, 0);
	let min_delta = k["MIN_CLTV_EXPIRY_DELTA"] as i64;
	let ard = k["ANTI_REORG_DELAY"] as i64;
	for cfg in [12i64, min_delta - 1, min_delta, min_delta + 24] {
		for od in [12i64, min_delta - 1, min_delta, min_delta + 24] {
			if od >= cfg || od >= 12 {
				run_one("subdelta", cfg, od);
			}
		}
	}
	run_one("holdcell", 0, 0);
	for off in [-2i64, -1, 0, 1, 2] {
		run_one("holdcell", 1, off);
	}
	for order in [0i64, 1] {
		for gap in [0i64, 1, 4, 12] {
			run_one("mppdeadline", order, gap);
		}
	}
	for confs in 1..=(ard + 1) {
		run_one("reload_burial", confs, 0);
	}
	for confs in [1i64, 2, ard - 1, ard] {
		run_one("reload_burial", confs, 1);
	}
	let mut pairs = vec![(1, 1), (mbc, mbc), (1, mbc), (mbc, 1)];
	if thorough {
		for a in 1..=mbc {
			for b in 1..=mbc {
				pairs.push((a, b));
			}
		}
	} else {
		for _ in 0..16 {
			pairs.push((1 + rng.below(mbc as u64) as i64, 1 + rng.below(mbc as u64) as i64));
		}
	}
	for (a, b) in pairs {
		run_one("race", a, b);
	}
}
