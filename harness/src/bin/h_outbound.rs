//! C03 functional correspondence: drives the REAL `OutboundPayments` (through the `_verif_hooks`
//! wrappers in `ln::outbound_payment::verif_hooks_outbound`) operation by operation, with a scripted
//! router, a scripted `send_payment_along_path` and a counting entropy source, and prints after
//! every operation the events it pushed, the HTLCs it allocated and a dump of
//! `pending_outbound_payments`, all in the numeric encoding of `coq/Model/Outbound.v`
//! (`show_out` / `show_payment`).
//!
//! Input lines (all numbers decimal):
//!   reset
//!   add <id> <hashidx> <retry|-1> <maxfee|-1> <probe 0|1> <npaths> (<amt> <fee> <nhops>)*
//!   await <id> <ticks> <retry>
//!   send <id> <hashidx> <retry> <amt> <maxfee|-1> <answers>
//!   retry <nids> (<id> <answers>)*
//!   claim <sp> <from_onchain 0|1>
//!   finalize <n> <sp>*
//!   fail <sp> L <code> | fail <sp> R <hop> <code> | fail <sp> G <len>
//!   abandon <id> <reason>
//!   tick
//!   handle <n>
//!   startup <sp>
//! <answers> ::= <n> ( N | R <k> <over> (<fee> <nhops> <res 0|1|2>)*k )*n
//! Output: one JSON object per line:
//!   {"outs":[[..],..],"state":[[..],..],"panic":false}
use std::cell::RefCell;
use std::collections::{HashMap, VecDeque};
use std::io::{self, BufRead, Write};
use std::panic::{self, AssertUnwindSafe};
use std::time::Duration;

use bitcoin::hashes::sha256::Hash as Sha256;
use bitcoin::hashes::Hash;
use bitcoin::secp256k1::{PublicKey, Secp256k1, SecretKey};

use lightning::blinded_path::payment::{BlindedPaymentPath, ReceiveTlvs};
use lightning::events::{Event, PathFailure, PaymentFailureReason};
use lightning::ln::channel_state::ChannelDetails;
use lightning::ln::channelmanager::PaymentId;
use lightning::ln::onion_utils::LocalHTLCFailureReason;
use lightning::ln::outbound_payment::verif_hooks_outbound::{FailSpec, Harness};
use lightning::ln::outbound_payment::{RecipientOnionFields, Retry, RetryableSendFailure};
use lightning::routing::router::{
	InFlightHtlcs, Path, PaymentParameters, Route, RouteHop, RouteParameters, Router,
};
use lightning::sign::{EntropySource, KeysManager, ReceiveAuthKey};
use lightning::types::features::{ChannelFeatures, NodeFeatures};
use lightning::types::payment::{PaymentHash, PaymentPreimage, PaymentSecret};
use lightning::util::errors::APIError;

const PROBE_SECRET: [u8; 32] = [0x5a; 32];
const PROBE_HASH_BASE: i64 = 1_000_000;

fn be32(n: u64) -> [u8; 32] {
	let mut b = [0u8; 32];
	b[24..].copy_from_slice(&n.to_be_bytes());
	b
}
fn from_be32(b: &[u8; 32]) -> i64 {
	let mut x = [0u8; 8];
	x.copy_from_slice(&b[24..]);
	if b[..24].iter().any(|v| *v != 0) {
		return -7;
	}
	u64::from_be_bytes(x) as i64
}

fn preimage_of(hashidx: i64) -> PaymentPreimage {
	let mut v = b"c03-preimage".to_vec();
	v.extend_from_slice(&hashidx.to_be_bytes());
	PaymentPreimage(Sha256::hash(&v).to_byte_array())
}
fn hash_of(hashidx: i64) -> PaymentHash {
	PaymentHash(Sha256::hash(&preimage_of(hashidx).0).to_byte_array())
}

#[derive(Clone)]
enum Ans {
	NoRoute,
	Route { over: u64, paths: Vec<(u64, usize, u8)> }, // fee, nhops, res
}

#[derive(Clone)]
struct Htlc {
	id: u64,
	hash: PaymentHash,
	path: Path,
}

struct World {
	ctr: RefCell<u64>,                       // next session priv
	path_ctr: RefCell<u64>,                  // next path number (scid base)
	answers: RefCell<HashMap<u64, VecDeque<Ans>>>, // scripted router, per payment id
	path_res: RefCell<HashMap<u64, u8>>,     // path number -> scripted send result
	htlcs: RefCell<HashMap<u64, Htlc>>,      // session priv -> HTLC source
	path_sp: RefCell<HashMap<u64, u64>>,     // path number -> session priv
	news: RefCell<Vec<Vec<i64>>>,            // ONew records of the current op
	hashes: RefCell<HashMap<[u8; 32], i64>>, // payment hash -> hashidx
	preimages: RefCell<HashMap<[u8; 32], i64>>,
	node_secrets: Vec<SecretKey>,
	node_pubkeys: Vec<PublicKey>,
}

impl World {
	fn new() -> Self {
		let secp = Secp256k1::new();
		let node_secrets: Vec<SecretKey> =
			(1..=6u8).map(|i| SecretKey::from_slice(&[i + 0x10; 32]).unwrap()).collect();
		let node_pubkeys = node_secrets.iter().map(|s| PublicKey::from_secret_key(&secp, s)).collect();
		World {
			ctr: RefCell::new(1),
			path_ctr: RefCell::new(1),
			answers: RefCell::new(HashMap::new()),
			path_res: RefCell::new(HashMap::new()),
			htlcs: RefCell::new(HashMap::new()),
			path_sp: RefCell::new(HashMap::new()),
			news: RefCell::new(Vec::new()),
			hashes: RefCell::new(HashMap::new()),
			preimages: RefCell::new(HashMap::new()),
			node_secrets,
			node_pubkeys,
		}
	}
	fn reg_hash(&self, hashidx: i64) -> PaymentHash {
		let h = hash_of(hashidx);
		self.hashes.borrow_mut().insert(h.0, hashidx);
		self.preimages.borrow_mut().insert(preimage_of(hashidx).0, hashidx);
		h
	}
	fn hashidx(&self, h: &[u8; 32]) -> i64 {
		*self.hashes.borrow().get(h).unwrap_or(&-9)
	}
	fn make_path(&self, amt: u64, fee: u64, nhops: usize, res: u8) -> Path {
		let pc = {
			let mut c = self.path_ctr.borrow_mut();
			let v = *c;
			*c += 1;
			v
		};
		self.path_res.borrow_mut().insert(pc, res);
		let nhops = nhops.max(1).min(5);
		let mut hops = Vec::new();
		for i in 0..nhops {
			let last = i + 1 == nhops;
			// all of the routing fee is charged by the first hop (0 for a direct payment)
			let fee_msat = if last { amt } else if i == 0 { fee } else { 0 };
			hops.push(RouteHop {
				pubkey: self.node_pubkeys[(pc as usize + i) % self.node_pubkeys.len()],
				node_features: NodeFeatures::empty(),
				short_channel_id: pc * 16 + i as u64,
				channel_features: ChannelFeatures::empty(),
				fee_msat,
				cltv_expiry_delta: 40,
				maybe_announced_channel: true,
			});
		}
		Path { hops, blinded_tail: None }
	}
	fn hop_secrets(&self, path: &Path) -> Vec<SecretKey> {
		path.hops
			.iter()
			.map(|h| {
				let i = self.node_pubkeys.iter().position(|p| *p == h.pubkey).unwrap();
				self.node_secrets[i]
			})
			.collect()
	}
	fn path_no(path: &Path) -> u64 {
		path.hops[0].short_channel_id / 16
	}
	/// called for every path handed to send_payment_along_path / returned by add
	fn record_htlc(&self, sp: u64, id: u64, hash: PaymentHash, path: &Path) -> u8 {
		let pc = Self::path_no(path);
		let res = *self.path_res.borrow().get(&pc).unwrap_or(&0);
		self.path_sp.borrow_mut().insert(pc, sp);
		self.htlcs.borrow_mut().insert(sp, Htlc { id, hash, path: path.clone() });
		self.news.borrow_mut().push(vec![
			12,
			id as i64,
			sp as i64,
			self.hashidx(&hash.0),
			path.final_value_msat() as i64,
			path.fee_msat() as i64,
			res as i64,
			path.hops.len() as i64,
		]);
		res
	}
}

impl EntropySource for World {
	fn get_secure_random_bytes(&self) -> [u8; 32] {
		let mut c = self.ctr.borrow_mut();
		let v = *c;
		*c += 1;
		be32(v)
	}
}

impl Router for World {
	fn find_route(
		&self, _payer: &PublicKey, _route_params: &RouteParameters,
		_first_hops: Option<&[&ChannelDetails]>, _inflight_htlcs: InFlightHtlcs,
	) -> Result<Route, &'static str> {
		Err("scripted router needs the payment id")
	}
	fn find_route_with_id(
		&self, _payer: &PublicKey, route_params: &RouteParameters,
		_first_hops: Option<&[&ChannelDetails]>, _inflight_htlcs: InFlightHtlcs,
		_payment_hash: PaymentHash, payment_id: PaymentId,
	) -> Result<Route, &'static str> {
		let id = from_be32(&payment_id.0) as u64;
		let ans = self.answers.borrow_mut().get_mut(&id).and_then(|q| q.pop_front());
		match ans {
			None | Some(Ans::NoRoute) => Err("no route"),
			Some(Ans::Route { over, paths }) => {
				let fv = route_params.final_value_msat;
				let k = paths.len() as u64;
				let q = fv / k;
				let mut res_paths = Vec::new();
				for (i, (fee, nhops, res)) in paths.iter().enumerate() {
					let amt = if (i as u64) + 1 < k { q } else { fv - (k - 1) * q + over };
					// a direct payment cannot carry a routing fee
					let nhops = if *fee > 0 && *nhops < 2 { 2 } else { *nhops };
					res_paths.push(self.make_path(amt, *fee, nhops, *res));
				}
				Ok(Route { paths: res_paths, route_params: Some(route_params.clone()).unwrap() })
			},
		}
	}
	fn create_blinded_payment_paths<T: bitcoin::secp256k1::Signing + bitcoin::secp256k1::Verification>(
		&self, _recipient: PublicKey, _local_node_receive_key: ReceiveAuthKey,
		_first_hops: Vec<ChannelDetails>, _tlvs: ReceiveTlvs, _amount_msats: Option<u64>,
		_secp_ctx: &Secp256k1<T>,
	) -> Result<Vec<BlindedPaymentPath>, ()> {
		Err(())
	}
}

fn reason_code(r: &PaymentFailureReason) -> i64 {
	match r {
		PaymentFailureReason::RecipientRejected => 0,
		PaymentFailureReason::UserAbandoned => 1,
		PaymentFailureReason::RetriesExhausted => 2,
		PaymentFailureReason::PaymentExpired => 3,
		PaymentFailureReason::RouteNotFound => 4,
		PaymentFailureReason::UnexpectedError => 5,
		PaymentFailureReason::UnknownRequiredFeatures => 6,
		PaymentFailureReason::InvoiceRequestExpired => 7,
		PaymentFailureReason::InvoiceRequestRejected => 8,
		PaymentFailureReason::BlindedPathCreationFailed => 9,
	}
}
fn reason_of(c: i64) -> PaymentFailureReason {
	match c {
		0 => PaymentFailureReason::RecipientRejected,
		1 => PaymentFailureReason::UserAbandoned,
		2 => PaymentFailureReason::RetriesExhausted,
		3 => PaymentFailureReason::PaymentExpired,
		4 => PaymentFailureReason::RouteNotFound,
		5 => PaymentFailureReason::UnexpectedError,
		_ => PaymentFailureReason::UserAbandoned,
	}
}

fn fail_code(c: u64) -> (LocalHTLCFailureReason, Vec<u8>) {
	match c {
		0 => (LocalHTLCFailureReason::TemporaryNodeFailure, vec![]),
		1 => (LocalHTLCFailureReason::PermanentNodeFailure, vec![]),
		2 => (LocalHTLCFailureReason::IncorrectPaymentDetails, vec![0; 12]),
		3 => (LocalHTLCFailureReason::TemporaryChannelFailure, vec![0, 0]),
		4 => (LocalHTLCFailureReason::PermanentChannelFailure, vec![]),
		5 => (LocalHTLCFailureReason::MPPTimeout, vec![]),
		6 => (LocalHTLCFailureReason::UnknownNextPeer, vec![]),
		_ => (LocalHTLCFailureReason::FeeInsufficient, vec![0; 10]),
	}
}

struct Sys {
	h: Harness,
	w: World,
	keys: KeysManager,
}

impl Sys {
	fn new() -> Self {
		Sys { h: Harness::new(), w: World::new(), keys: KeysManager::new(&[0x42; 32], 1, 1, true) }
	}

	fn opt(v: i64) -> Option<u64> {
		if v < 0 {
			None
		} else {
			Some(v as u64)
		}
	}

	fn parse_answers(t: &mut std::str::SplitWhitespace) -> VecDeque<Ans> {
		let n: usize = t.next().unwrap().parse().unwrap();
		let mut v = VecDeque::new();
		for _ in 0..n {
			match t.next().unwrap() {
				"N" => v.push_back(Ans::NoRoute),
				"R" => {
					let k: usize = t.next().unwrap().parse().unwrap();
					let over: u64 = t.next().unwrap().parse().unwrap();
					let mut paths = Vec::new();
					for _ in 0..k {
						let fee: u64 = t.next().unwrap().parse().unwrap();
						let nhops: usize = t.next().unwrap().parse().unwrap();
						let res: u8 = t.next().unwrap().parse().unwrap();
						paths.push((fee, nhops, res));
					}
					v.push_back(Ans::Route { over, paths });
				},
				x => panic!("bad answer tag {}", x),
			}
		}
		v
	}

	fn send_cb<'a>(
		w: &'a World,
	) -> impl Fn(&Path, &PaymentHash, PaymentId, [u8; 32]) -> Result<(), APIError> + 'a {
		move |path, hash, id, sp| {
			let res = w.record_htlc(from_be32(&sp) as u64, from_be32(&id.0) as u64, *hash, path);
			match res {
				0 => Ok(()),
				1 => Err(APIError::ChannelUnavailable { err: "scripted".to_string() }),
				_ => Err(APIError::MonitorUpdateInProgress),
			}
		}
	}

	/// Runs one op; returns extra out records (result codes, created / claim-hit markers).
	fn exec(&self, line: &str) -> Vec<Vec<i64>> {
		let mut t = line.split_whitespace();
		let cmd = t.next().unwrap();
		let mut extra: Vec<Vec<i64>> = Vec::new();
		let num = |t: &mut std::str::SplitWhitespace| -> i64 { t.next().unwrap().parse::<i64>().unwrap() };
		let present = |id: u64| self.h.dump().iter().any(|d| d.payment_id == be32(id));
		match cmd {
			"add" => {
				let id = num(&mut t) as u64;
				let hashidx = num(&mut t);
				let retry = num(&mut t);
				let mf = Self::opt(num(&mut t));
				let probe = num(&mut t) != 0;
				let np = num(&mut t) as usize;
				let mut paths = Vec::new();
				for _ in 0..np {
					let amt = num(&mut t) as u64;
					let fee = num(&mut t) as u64;
					let nh = num(&mut t) as usize;
					let nh = if fee > 0 && nh < 2 { 2 } else { nh };
					paths.push(self.w.make_path(amt, fee, nh, 0));
				}
				let pid = PaymentId(be32(id));
				let hash = if probe {
					let h = Harness::probing_cookie(&pid, PROBE_SECRET);
					self.w.hashes.borrow_mut().insert(h.0, PROBE_HASH_BASE + id as i64);
					h
				} else {
					self.w.reg_hash(hashidx)
				};
				let total: u64 = paths.iter().map(|p| p.final_value_msat()).sum();
				let pp = PaymentParameters::from_node_id(self.w.node_pubkeys[0], 40);
				let mut rp = RouteParameters::from_payment_params_and_value(pp, total);
				rp.max_total_routing_fee_msat = mf;
				let route = Route { paths: paths.clone(), route_params: rp };
				let onion = RecipientOnionFields::secret_only(PaymentSecret([7; 32]), total);
				let was = present(id);
				let r = self.h.add_new_pending_payment(
					hash,
					onion,
					pid,
					&route,
					if retry < 0 { None } else { Some(Retry::Attempts(retry as u32)) },
					&self.w,
					100,
				);
				match r {
					Ok(sps) => {
						if !was {
							extra.push(vec![10, id as i64]);
						}
						extra.push(vec![13, 0]);
						for (sp, path) in sps.iter().zip(paths.iter()) {
							self.w.record_htlc(from_be32(sp) as u64, id, hash, path);
						}
					},
					Err(()) => extra.push(vec![13, 1]),
				}
			},
			"await" => {
				let id = num(&mut t) as u64;
				let ticks = num(&mut t) as u64;
				let retry = num(&mut t) as u32;
				let was = present(id);
				match self.h.add_new_awaiting_invoice(PaymentId(be32(id)), ticks, Retry::Attempts(retry)) {
					Ok(()) => {
						if !was {
							extra.push(vec![10, id as i64]);
						}
						extra.push(vec![13, 0]);
					},
					Err(()) => extra.push(vec![13, 1]),
				}
			},
			"send" => {
				let id = num(&mut t) as u64;
				let hashidx = num(&mut t);
				let retry = num(&mut t) as u32;
				let amt = num(&mut t) as u64;
				let mf = Self::opt(num(&mut t));
				let answers = Self::parse_answers(&mut t);
				self.w.answers.borrow_mut().insert(id, answers);
				let hash = self.w.reg_hash(hashidx);
				let pp = PaymentParameters::from_node_id(self.w.node_pubkeys[0], 40);
				let mut rp = RouteParameters::from_payment_params_and_value(pp, amt);
				rp.max_total_routing_fee_msat = mf;
				let onion = RecipientOnionFields::secret_only(PaymentSecret([7; 32]), amt);
				let was = present(id);
				let r = self.h.send_payment(
					hash,
					onion,
					PaymentId(be32(id)),
					Retry::Attempts(retry),
					rp,
					&&self.w,
					&&self.w,
					&self.keys,
					100,
					Self::send_cb(&self.w),
				);
				self.w.answers.borrow_mut().remove(&id);
				match r {
					Ok(()) => {
						if !was {
							extra.push(vec![10, id as i64]);
						}
						extra.push(vec![13, 0]);
					},
					Err(RetryableSendFailure::DuplicatePayment) => extra.push(vec![13, 1]),
					Err(RetryableSendFailure::RouteNotFound) => extra.push(vec![13, 2]),
					Err(_) => extra.push(vec![13, 3]),
				}
			},
			"retry" => {
				let n = num(&mut t) as usize;
				for _ in 0..n {
					let id = num(&mut t) as u64;
					let answers = Self::parse_answers(&mut t);
					self.w.answers.borrow_mut().insert(id, answers);
				}
				self.h.check_retry_payments(&&self.w, &&self.w, &self.keys, 100, Self::send_cb(&self.w));
				self.w.answers.borrow_mut().clear();
			},
			"claim" => {
				let sp = num(&mut t) as u64;
				let onchain = num(&mut t) != 0;
				let h = self.w.htlcs.borrow().get(&sp).cloned();
				if let Some(h) = h {
					let hashidx = self.w.hashidx(&h.hash.0);
					let pre = preimage_of(hashidx);
					if present(h.id) {
						extra.push(vec![11, h.id as i64]);
					}
					self.h.claim_htlc(
						PaymentId(be32(h.id)),
						pre,
						SecretKey::from_slice(&be32(sp)).unwrap(),
						h.path.clone(),
						onchain,
					);
				}
			},
			"finalize" => {
				let n = num(&mut t) as usize;
				let mut v = Vec::new();
				for _ in 0..n {
					let sp = num(&mut t) as u64;
					if let Some(h) = self.w.htlcs.borrow().get(&sp) {
						v.push((PaymentId(be32(h.id)), SecretKey::from_slice(&be32(sp)).unwrap(), h.path.clone()));
					}
				}
				self.h.finalize_claims(v);
			},
			"fail" => {
				let sp = num(&mut t) as u64;
				let mode = t.next().unwrap().to_string();
				let h = self.w.htlcs.borrow().get(&sp).cloned();
				if let Some(h) = h {
					let spec = match mode.as_str() {
						"L" => {
							let (r, d) = fail_code(num(&mut t) as u64);
							FailSpec::Local(r, d)
						},
						"R" => {
							let hop = (num(&mut t) as usize).min(h.path.hops.len() - 1);
							let (r, d) = fail_code(num(&mut t) as u64);
							FailSpec::Remote { hop, hop_secrets: self.w.hop_secrets(&h.path), reason: r, data: d }
						},
						_ => FailSpec::Garbage(vec![0x33; num(&mut t) as usize]),
					};
					self.h.fail_htlc(
						PaymentId(be32(h.id)),
						h.hash,
						SecretKey::from_slice(&be32(sp)).unwrap(),
						h.path.clone(),
						spec,
						PROBE_SECRET,
					);
				}
			},
			"abandon" => {
				let id = num(&mut t) as u64;
				let reason = num(&mut t);
				self.h.abandon_payment(PaymentId(be32(id)), reason_of(reason));
			},
			"tick" => self.h.remove_stale_payments(Duration::from_secs(1_000_000)),
			"handle" => self.h.handle_events(num(&mut t) as usize),
			"startup" => {
				let sp = num(&mut t) as u64;
				let h = self.w.htlcs.borrow().get(&sp).cloned();
				if let Some(h) = h {
					if !present(h.id) {
						extra.push(vec![10, h.id as i64]);
					}
					self.h.insert_from_monitor_on_startup(PaymentId(be32(h.id)), h.hash, be32(sp), &h.path, 100);
				}
			},
			x => panic!("bad command {}", x),
		}
		extra
	}

	fn enc_event(&self, ev: &Event) -> Vec<i64> {
		let sp_of = |path: &Path| -> i64 {
			*self.w.path_sp.borrow().get(&World::path_no(path)).unwrap_or(&0) as i64
		};
		match ev {
			Event::PaymentSent { payment_id, payment_preimage, payment_hash, amount_msat, fee_paid_msat, .. } => {
				let preidx = *self.w.preimages.borrow().get(&payment_preimage.0).unwrap_or(&-9);
				let truthful = Sha256::hash(&payment_preimage.0).to_byte_array() == payment_hash.0;
				vec![
					1,
					payment_id.map(|p| from_be32(&p.0)).unwrap_or(-1),
					preidx,
					amount_msat.map(|v| v as i64).unwrap_or(-1),
					fee_paid_msat.map(|v| v as i64).unwrap_or(-1),
					if truthful { 1 } else { 0 },
					self.w.hashidx(&payment_hash.0),
				]
			},
			Event::PaymentFailed { payment_id, payment_hash, reason } => vec![
				2,
				from_be32(&payment_id.0),
				payment_hash.map(|h| self.w.hashidx(&h.0)).unwrap_or(-1),
				reason.as_ref().map(reason_code).unwrap_or(-1),
			],
			Event::PaymentPathSuccessful { payment_id, path, .. } => {
				vec![3, from_be32(&payment_id.0), sp_of(path)]
			},
			Event::PaymentPathFailed {
				payment_id, payment_failed_permanently, failure, path, short_channel_id, ..
			} => {
				let initial = match failure {
					PathFailure::InitialSend { .. } => 1,
					PathFailure::OnPath { .. } => 0,
				};
				let pos = match short_channel_id {
					None => -1,
					Some(scid) => {
						path.hops.iter().position(|h| h.short_channel_id == *scid).map(|p| p as i64).unwrap_or(-2)
					},
				};
				vec![
					4,
					payment_id.map(|p| from_be32(&p.0)).unwrap_or(-1),
					sp_of(path),
					if *payment_failed_permanently { 1 } else { 0 },
					initial,
					pos,
					path.hops.len() as i64,
				]
			},
			Event::ProbeSuccessful { payment_id, path, .. } => vec![5, from_be32(&payment_id.0), sp_of(path)],
			Event::ProbeFailed { payment_id, path, .. } => vec![6, from_be32(&payment_id.0), sp_of(path)],
			_ => vec![98],
		}
	}

	fn enc_state(&self) -> Vec<Vec<i64>> {
		let mut res = Vec::new();
		let o = |v: Option<u64>| v.map(|x| x as i64).unwrap_or(-1);
		for d in self.h.dump() {
			let id = from_be32(&d.payment_id);
			let hash = d.payment_hash.map(|h| self.w.hashidx(&h)).unwrap_or(-1);
			let parts: Vec<i64> = {
				let mut p: Vec<i64> = d.session_privs.iter().map(from_be32).collect();
				p.sort();
				p
			};
			let retry = if d.retry_other { -5 } else { d.retry_attempts.map(|x| x as i64).unwrap_or(-1) };
			let mut row = match d.kind {
				"Retryable" => vec![
					id,
					0,
					retry,
					d.attempts as i64,
					if d.has_payment_params { 1 } else { 0 },
					hash,
					o(d.pending_amt_msat),
					o(d.pending_fee_msat),
					o(d.total_msat),
					o(d.remaining_max_total_routing_fee_msat),
					-1,
					-1,
					-1,
				],
				"Fulfilled" => vec![
					id,
					1,
					-1,
					0,
					0,
					hash,
					-1,
					o(d.pending_fee_msat),
					o(d.total_msat),
					-1,
					d.timer_ticks_without_htlcs.map(|x| x as i64).unwrap_or(-1),
					-1,
					-1,
				],
				"Abandoned" => vec![
					id,
					2,
					-1,
					0,
					0,
					hash,
					-1,
					o(d.pending_fee_msat),
					o(d.total_msat),
					-1,
					-1,
					d.reason.as_ref().map(reason_code).unwrap_or(-1),
					-1,
				],
				"AwaitingInvoice" => {
					vec![id, 3, retry, 0, 0, -1, -1, -1, -1, -1, -1, -1, o(d.expiration_ticks)]
				},
				_ => vec![id, 9],
			};
			row.extend(parts);
			res.push(row);
		}
		let qlen = self.h.pending_events().len() as i64;
		res.push(vec![-2, qlen, *self.w.ctr.borrow() as i64]);
		res
	}
}

fn json_rows(rows: &[Vec<i64>]) -> String {
	let mut s = String::from("[");
	for (i, r) in rows.iter().enumerate() {
		if i > 0 {
			s.push(',');
		}
		s.push('[');
		for (j, v) in r.iter().enumerate() {
			if j > 0 {
				s.push(',');
			}
			s.push_str(&v.to_string());
		}
		s.push(']');
	}
	s.push(']');
	s
}

fn main() {
	if std::env::var("H_VERBOSE").is_err() { panic::set_hook(Box::new(|_| {})); }
	let stdin = io::stdin();
	let stdout = io::stdout();
	let mut out = stdout.lock();
	let mut sys = Sys::new();
	let mut poisoned = false;
	for line in stdin.lock().lines() {
		let line = line.unwrap();
		let l = line.trim();
		if l.is_empty() || l.starts_with('#') {
			continue;
		}
		if l == "reset" {
			// a poisoned mutex must not be dropped through the normal path of a panicking op
			let old = std::mem::replace(&mut sys, Sys::new());
			std::mem::forget(old);
			poisoned = false;
			writeln!(out, "{{\"outs\":[],\"state\":{},\"panic\":false}}", json_rows(&sys.enc_state())).unwrap();
			out.flush().unwrap();
			continue;
		}
		if poisoned {
			writeln!(out, "{{\"outs\":[],\"state\":[],\"panic\":true}}").unwrap();
			out.flush().unwrap();
			continue;
		}
		let nev_before = if l.starts_with("handle") { usize::MAX } else { sys.h.pending_events().len() };
		sys.w.news.borrow_mut().clear();
		let r = panic::catch_unwind(AssertUnwindSafe(|| sys.exec(l)));
		match r {
			Ok(extra) => {
				let evs = sys.h.pending_events();
				let mut outs: Vec<Vec<i64>> = Vec::new();
				outs.extend(extra);
				outs.extend(sys.w.news.borrow().iter().cloned());
				if nev_before != usize::MAX {
					for (ev, _) in evs.iter().skip(nev_before) {
						outs.push(sys.enc_event(ev));
					}
				}
				// the pending events (kind, payment id), oldest first: for the judge only
				let queue: Vec<Vec<i64>> = evs.iter().map(|(ev, _)| sys.enc_event(ev)[..2].to_vec()).collect();
				writeln!(
					out,
					"{{\"outs\":{},\"state\":{},\"queue\":{},\"panic\":false}}",
					json_rows(&outs),
					json_rows(&sys.enc_state()),
					json_rows(&queue)
				)
				.unwrap();
			},
			Err(_) => {
				poisoned = true;
				writeln!(out, "{{\"outs\":[[14]],\"state\":[],\"panic\":true}}").unwrap();
			},
		}
		out.flush().unwrap();
	}
}
