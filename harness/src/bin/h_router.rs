//! C16: drives the real `find_route` on a described graph / first hops / hints / blinded paths /
//! parameters and prints the graph view the router was given (read back from the real objects)
//! together with the returned route (or error).  Also `fee`/`recompute` lines exercise the fee
//! arithmetic through `routing::router::verif_hooks_router`.
//!
//! One case per line, records separated by `;`:
//!   C <scid> <a> <b> <cap_sats|-1> <en hmin hmax base prop cltv | -> <same for b->a | ->
//!   F <scid> <peer> <outbound_capacity_msat> <next_outbound_htlc_limit_msat> <next_outbound_htlc_minimum_msat> <announced> [<outbound_scid_alias|-1> [<has short_channel_id: 1|0>]]
//!   CF <scid> <bit>    feature bit set in the channel's announcement      NF <node> <bit>   feature bit in the node's announcement
//!   H <route> <src> <scid> <base> <prop> <cltv> <hmin|-1> <hmax|-1>     hint hops, in route order
//!   B <intro> <base> <prop> <cltv> <hmin> <hmax> <nhops>                 blinded payment path
//!   P <payer> <payee|-1> <value> <max_paths> <max_fee|-1> <max_cltv> <max_len> <saturation_pow> <final_cltv> <mpp> <use_first_hops>
//!   X <scid>...        previously failed channels        XB <idx>...  previously failed blinded paths
//!   S <seed> <n_score_updates> <n_inflight>
//! Other lines:  fee <amount> <base> <prop>      recompute <value> <base,prop,hmin,use_fee>...
use std::collections::HashMap;
use std::sync::Arc;

use bitcoin::hashes::sha256::Hash as Sha256;
use bitcoin::hashes::Hash;
use bitcoin::network::Network;
use bitcoin::secp256k1::{PublicKey, Secp256k1, SecretKey};

use lightning::blinded_path::payment::{BlindedPayInfo, BlindedPaymentPath};
use lightning::blinded_path::BlindedHop;
use lightning::ln::channel_state::{ChannelCounterparty, ChannelDetails, ChannelShutdownState};
use lightning::ln::msgs::{UnsignedChannelUpdate, UnsignedNodeAnnouncement};
use lightning::ln::types::ChannelId;
use lightning::routing::gossip::{NetworkGraph, NodeAlias, NodeId};
use lightning::routing::router::verif_hooks_router as vh;
use lightning::routing::router::{
	find_route, InFlightHtlcs, Path, PaymentParameters, RouteHint, RouteHintHop, RouteHop,
	RouteParameters, ScorerAccountingForInFlightHtlcs,
};
use lightning::routing::scoring::{
	ProbabilisticScorer, ProbabilisticScoringDecayParameters, ProbabilisticScoringFeeParameters,
	ScoreUpdate,
};
use lightning::types::features::{
	BlindedHopFeatures, Bolt11InvoiceFeatures, Bolt12InvoiceFeatures, ChannelFeatures, InitFeatures,
	NodeFeatures,
};
use lightning::types::routing::RoutingFees;
use lightning::util::logger::{Logger, Record};
use verif_harness::*;

struct NullLogger;
impl Logger for NullLogger {
	fn log(&self, record: Record) {
		if std::env::var("VERIF_LOG").is_ok() {
			eprintln!("{}", record.args);
		}
	}
}

struct Keys {
	pks: Vec<PublicKey>,
	idx: HashMap<PublicKey, i64>,
}
impl Keys {
	fn new(n: usize) -> Keys {
		let secp = Secp256k1::new();
		let mut pks = Vec::new();
		let mut idx = HashMap::new();
		for i in 0..n {
			let mut v = b"verif-router-key".to_vec();
			v.extend_from_slice(&(i as u32).to_be_bytes());
			let sk = SecretKey::from_slice(&Sha256::hash(&v).to_byte_array()).unwrap();
			let pk = PublicKey::from_secret_key(&secp, &sk);
			idx.insert(pk, i as i64);
			pks.push(pk);
		}
		Keys { pks, idx }
	}
	fn name_pk(&self, pk: &PublicKey) -> String {
		self.idx.get(pk).map(|i| i.to_string()).unwrap_or_else(|| "?".to_string())
	}
	fn name_id(&self, id: &NodeId) -> String {
		match PublicKey::from_slice(id.as_slice()) {
			Ok(pk) => self.name_pk(&pk),
			Err(_) => "?".to_string(),
		}
	}
}

fn details(scid: u64, peer: PublicKey, cap: u64, limit: u64, min: u64, announced: bool, alias: Option<u64>, real: bool) -> ChannelDetails {
	ChannelDetails {
		channel_id: ChannelId::new_zero(),
		counterparty: ChannelCounterparty {
			features: InitFeatures::empty(),
			node_id: peer,
			unspendable_punishment_reserve: 0,
			forwarding_info: None,
			outbound_htlc_minimum_msat: None,
			outbound_htlc_maximum_msat: None,
		},
		funding_txo: None,
		funding_redeem_script: None,
		channel_type: None,
		short_channel_id: if real { Some(scid) } else { None },
		outbound_scid_alias: alias,
		inbound_scid_alias: None,
		channel_value_satoshis: cap / 1000 + 1,
		user_channel_id: 0,
		outbound_capacity_msat: cap,
		next_outbound_htlc_limit_msat: limit,
		next_outbound_htlc_minimum_msat: min,
		next_splice_out_maximum_sat: cap / 1000,
		inbound_capacity_msat: 0,
		unspendable_punishment_reserve: None,
		confirmations_required: None,
		confirmations: None,
		force_close_spend_delay: None,
		is_outbound: true,
		is_channel_ready: true,
		is_usable: true,
		is_announced: announced,
		inbound_htlc_minimum_msat: None,
		inbound_htlc_maximum_msat: None,
		config: None,
		feerate_sat_per_1000_weight: None,
		channel_shutdown_state: Some(ChannelShutdownState::NotShuttingDown),
		pending_inbound_htlcs: Vec::new(),
		pending_outbound_htlcs: Vec::new(),
		current_dust_exposure_msat: None,
		splice_details: None,
	}
}

fn feature_bytes(bits: Option<&Vec<usize>>) -> Vec<u8> {
	let mut v = Vec::new();
	for b in bits.map(|b| b.as_slice()).unwrap_or(&[]) {
		while v.len() <= b / 8 {
			v.push(0u8);
		}
		v[b / 8] |= 1 << (b % 8);
	}
	v
}

/// the highest even ("required") bit set in a little-endian feature vector, -1 if none
fn top_required_bit(flags: &[u8]) -> i64 {
	let mut top = -1i64;
	for (i, byte) in flags.iter().enumerate() {
		for j in (0..8).step_by(2) {
			if byte & (1 << j) != 0 {
				top = (i * 8 + j) as i64;
			}
		}
	}
	top
}

fn opt(v: i128) -> Option<u64> {
	if v < 0 {
		None
	} else {
		Some(v as u64)
	}
}

fn run_case(keys: &Keys, line: &str) -> String {
	let graph = NetworkGraph::new(Network::Testnet, Arc::new(NullLogger));
	let chain_hash = graph.get_chain_hash();
	let mut first: Vec<ChannelDetails> = Vec::new();
	let mut hints: Vec<Vec<RouteHintHop>> = Vec::new();
	let mut blinded: Vec<BlindedPaymentPath> = Vec::new();
	let mut excluded: Vec<u64> = Vec::new();
	let mut excluded_b: Vec<u64> = Vec::new();
	let mut p: Vec<i128> = Vec::new();
	let mut s: Vec<i128> = vec![0, 0, 0];
	let mut node_feats: Vec<(usize, usize)> = Vec::new();
	// channel feature bits are needed when the channel is created: collect them first
	let mut chan_feats: HashMap<u64, Vec<usize>> = HashMap::new();
	for rec in line.split(';') {
		let t: Vec<&str> = rec.split_whitespace().collect();
		if t.len() == 3 && t[0] == "CF" {
			chan_feats.entry(t[1].parse().unwrap()).or_default().push(t[2].parse().unwrap());
		}
	}
	for rec in line.split(';') {
		let t: Vec<&str> = rec.split_whitespace().collect();
		if t.is_empty() {
			continue;
		}
		let n = |i: usize| -> i128 { t[i].parse::<i128>().unwrap() };
		match t[0] {
			"C" => {
				let (scid, a, b) = (n(1) as u64, n(2) as usize, n(3) as usize);
				let (ia, ib) = (NodeId::from_pubkey(&keys.pks[a]), NodeId::from_pubkey(&keys.pks[b]));
				let a_is_one = ia < ib;
				let (one, two) = if a_is_one { (ia, ib) } else { (ib, ia) };
				graph
					.add_channel_from_partial_announcement(
						scid,
						opt(n(4)),
						1,
						ChannelFeatures::from_le_bytes(feature_bytes(chan_feats.get(&scid))),
						one,
						two,
					)
					.unwrap();
				let mut i = 5;
				for dir_ab in [true, false] {
					if t[i] == "-" {
						i += 1;
						continue;
					}
					let from_one = dir_ab == a_is_one;
					let flags = (if from_one { 0 } else { 1 }) | (if n(i) != 0 { 0 } else { 2 });
					graph
						.update_channel_unsigned(&UnsignedChannelUpdate {
							chain_hash,
							short_channel_id: scid,
							timestamp: 2,
							message_flags: 1,
							channel_flags: flags,
							cltv_expiry_delta: n(i + 5) as u16,
							htlc_minimum_msat: n(i + 1) as u64,
							htlc_maximum_msat: n(i + 2) as u64,
							fee_base_msat: n(i + 3) as u32,
							fee_proportional_millionths: n(i + 4) as u32,
							excess_data: Vec::new(),
						})
						.unwrap();
					i += 6;
				}
			},
			"F" => first.push(details(
				n(1) as u64,
				keys.pks[n(2) as usize],
				n(3) as u64,
				n(4) as u64,
				n(5) as u64,
				n(6) != 0,
				if t.len() > 7 { opt(n(7)) } else { None },
				if t.len() > 8 { n(8) != 0 } else { true },
			)),
			"CF" => {},
			"NF" => node_feats.push((n(1) as usize, n(2) as usize)),
			"H" => {
				let r = n(1) as usize;
				while hints.len() <= r {
					hints.push(Vec::new());
				}
				hints[r].push(RouteHintHop {
					src_node_id: keys.pks[n(2) as usize],
					short_channel_id: n(3) as u64,
					fees: RoutingFees { base_msat: n(4) as u32, proportional_millionths: n(5) as u32 },
					cltv_expiry_delta: n(6) as u16,
					htlc_minimum_msat: opt(n(7)),
					htlc_maximum_msat: opt(n(8)),
				});
			},
			"B" => {
				let idx = blinded.len();
				let hops = (0..n(7))
					.map(|j| BlindedHop { blinded_node_id: keys.pks[(60 + j) as usize], encrypted_payload: vec![j as u8] })
					.collect();
				blinded.push(BlindedPaymentPath::from_blinded_path_and_payinfo(
					keys.pks[n(1) as usize],
					keys.pks[80 + idx],
					hops,
					BlindedPayInfo {
						fee_base_msat: n(2) as u32,
						fee_proportional_millionths: n(3) as u32,
						cltv_expiry_delta: n(4) as u16,
						htlc_minimum_msat: n(5) as u64,
						htlc_maximum_msat: n(6) as u64,
						features: BlindedHopFeatures::empty(),
					},
				));
			},
			"P" => p = (1..t.len()).map(|i| n(i)).collect(),
			"X" => excluded = (1..t.len()).map(|i| n(i) as u64).collect(),
			"XB" => excluded_b = (1..t.len()).map(|i| n(i) as u64).collect(),
			"S" => s = (1..t.len()).map(|i| n(i)).collect(),
			_ => return format!("BADREC {}", t[0]),
		}
	}
	// node announcements carrying the requested feature bits (a node unknown to the graph is skipped)
	{
		let mut by_node: HashMap<usize, Vec<usize>> = HashMap::new();
		for (node, bit) in node_feats.iter() {
			by_node.entry(*node).or_default().push(*bit);
		}
		for (node, bits) in by_node.iter() {
			let _ = graph.update_node_from_unsigned_announcement(&UnsignedNodeAnnouncement {
				features: NodeFeatures::from_le_bytes(feature_bytes(Some(bits))),
				timestamp: 100,
				node_id: NodeId::from_pubkey(&keys.pks[*node]),
				rgb: [0; 3],
				alias: NodeAlias([0; 32]),
				addresses: Vec::new(),
				excess_address_data: Vec::new(),
				excess_data: Vec::new(),
			});
		}
	}
	let payer = keys.pks[p[0] as usize];
	let payee_idx = p[1];
	let (value, max_paths, max_fee, max_cltv, max_len, sat, final_cltv, mpp, use_first) =
		(p[2] as u64, p[3] as u8, opt(p[4]), p[5] as u32, p[6] as u8, p[7] as u8, p[8] as u32, p[9] != 0, p[10] != 0);
	let mut pp = if payee_idx >= 0 {
		let mut pp = PaymentParameters::from_node_id(keys.pks[payee_idx as usize], final_cltv);
		if mpp {
			let mut f = Bolt11InvoiceFeatures::empty();
			f.set_basic_mpp_optional();
			f.set_payment_secret_required();
			f.set_variable_length_onion_required();
			pp = pp.with_bolt11_features(f).unwrap();
		}
		let rh: Vec<RouteHint> = hints.iter().filter(|h| !h.is_empty()).map(|h| RouteHint(h.clone())).collect();
		pp.with_route_hints(rh).unwrap()
	} else {
		let mut pp = PaymentParameters::blinded(blinded.clone());
		if mpp {
			let mut f = Bolt12InvoiceFeatures::empty();
			f.set_basic_mpp_optional();
			pp = pp.with_bolt12_features(f).unwrap();
		}
		pp
	};
	pp.max_total_cltv_expiry_delta = max_cltv;
	pp.max_path_count = max_paths;
	pp.max_path_length = max_len;
	pp.max_channel_saturation_power_of_half = sat;
	pp.previously_failed_channels = excluded.clone();
	pp.previously_failed_blinded_path_idxs = excluded_b.clone();
	let params = RouteParameters { payment_params: pp, final_value_msat: value, max_total_routing_fee_msat: max_fee };

	// ---- the view the router is given, read back from the real objects
	let payer_id = NodeId::from_pubkey(&payer);
	let mut view: Vec<String> = Vec::new();
	{
		let ro = graph.read_only();
		// hints first: a hint is used (as a private hop) exactly when the graph cannot supply the hop
		if payee_idx >= 0 {
			for h in hints.iter().filter(|h| !h.is_empty()) {
				for (j, hop) in h.iter().enumerate() {
					let dst = if j + 1 < h.len() { h[j + 1].src_node_id } else { keys.pks[payee_idx as usize] };
					let dst_id = NodeId::from_pubkey(&dst);
					let public = ro.channel(hop.short_channel_id).and_then(|c| c.as_directed_to(&dst_id)).is_some();
					if public {
						// not an edge of its own: the announced channel is in the view; recorded so that the check can
						// tell when a route reached an announced channel through a hint
						view.push(format!(
							"Q,{},{},{},0,0,0,-1,0,0,0,-1,-1,-1",
							hop.short_channel_id,
							keys.name_pk(&hop.src_node_id),
							keys.name_pk(&dst)
						));
						continue;
					}
					// a hint naming one of the payer's own supplied channels (by either identifier) is that
					// channel: it is in the view as a first hop carrying both identifiers
					let own = use_first
						&& hop.src_node_id == payer
						&& first.iter().any(|d| {
							d.counterparty.node_id == dst
								&& (d.short_channel_id == Some(hop.short_channel_id) || d.outbound_scid_alias == Some(hop.short_channel_id))
						});
					if own {
						continue;
					}
					view.push(format!(
						"H,{},{},{},1,{},{},-1,{},{},{},-1,-1,-1",
						hop.short_channel_id,
						keys.name_pk(&hop.src_node_id),
						keys.name_pk(&dst),
						hop.htlc_minimum_msat.unwrap_or(0),
						hop.htlc_maximum_msat.unwrap_or(u64::MAX),
						hop.fees.base_msat,
						hop.fees.proportional_millionths,
						hop.cltv_expiry_delta
					));
				}
			}
		}
		let mut chans: Vec<_> = ro.channels().unordered_iter().collect();
		chans.sort_by_key(|(k, _)| **k);
		for (scid, c) in chans {
			// a channel direction is usable by the router only when both directions have an update
			let both = c.one_to_two.is_some() && c.two_to_one.is_some();
			for (dir, src, dst) in [(&c.one_to_two, &c.node_one, &c.node_two), (&c.two_to_one, &c.node_two, &c.node_one)] {
				if let Some(u) = dir {
					if use_first && *src == payer_id {
						continue;
					}
					let node_req = ro
						.node(dst)
						.and_then(|n| n.announcement_info.as_ref().map(|a| top_required_bit(a.features().le_flags())))
						.unwrap_or(-1);
					view.push(format!(
						"P,{},{},{},{},{},{},{},{},{},{},-1,{},{}",
						scid,
						keys.name_id(src),
						keys.name_id(dst),
						(u.enabled && both) as u8,
						u.htlc_minimum_msat,
						u.htlc_maximum_msat,
						c.capacity_sats.map(|v| (v as i128) * 1000).unwrap_or(-1),
						u.fees.base_msat,
						u.fees.proportional_millionths,
						u.cltv_expiry_delta,
						top_required_bit(c.features.le_flags()),
						node_req
					));
				}
			}
		}
	}
	if use_first {
		for d in first.iter() {
			let id = d.get_outbound_payment_scid().unwrap();
			let other = match (d.short_channel_id, d.outbound_scid_alias) {
				(Some(a), Some(b)) if a != b => (if a == id { b } else { a }) as i128,
				_ => -1,
			};
			view.push(format!(
				"F,{},{},{},{},{},{},{},0,0,0,{},-1,-1",
				id,
				keys.name_pk(&payer),
				keys.name_pk(&d.counterparty.node_id),
				d.is_usable as u8,
				d.next_outbound_htlc_minimum_msat,
				d.next_outbound_htlc_limit_msat,
				d.outbound_capacity_msat,
				other
			));
		}
	}
	if payee_idx < 0 {
		for (idx, b) in blinded.iter().enumerate() {
			let intro = match b.introduction_node() {
				lightning::blinded_path::IntroductionNode::NodeId(pk) => keys.name_pk(pk),
				_ => "?".to_string(),
			};
			if b.blinded_hops().len() == 1 {
				view.push(format!("B,{},{},-1,1,0,{},-1,0,0,0,-1,-1,-1", idx, intro, u64::MAX));
			} else {
				view.push(format!(
					"B,{},{},-1,1,{},{},-1,{},{},{},-1,-1,-1",
					idx,
					intro,
					b.payinfo.htlc_minimum_msat,
					b.payinfo.htlc_maximum_msat,
					b.payinfo.fee_base_msat,
					b.payinfo.fee_proportional_millionths,
					b.payinfo.cltv_expiry_delta
				));
			}
		}
	}

	// ---- scorer state and in-flight HTLCs (seeded)
	let mut rng = Rng(s[0] as u64);
	let logger = Arc::new(NullLogger);
	let mut scorer = ProbabilisticScorer::new(ProbabilisticScoringDecayParameters::default(), &graph, Arc::clone(&logger));
	let mut inflight = InFlightHtlcs::new();
	{
		let ro = graph.read_only();
		let mut chans: Vec<_> = ro.channels().unordered_iter().collect();
		chans.sort_by_key(|(k, _)| **k);
		let mk_path = |scid: u64, c: &lightning::routing::gossip::ChannelInfo, amt: u64| Path {
			hops: vec![RouteHop {
				pubkey: PublicKey::from_slice(c.node_two.as_slice()).unwrap(),
				node_features: NodeFeatures::empty(),
				short_channel_id: scid,
				channel_features: ChannelFeatures::empty(),
				fee_msat: amt,
				cltv_expiry_delta: 40,
				maybe_announced_channel: true,
			}],
			blinded_tail: None,
		};
		if !chans.is_empty() {
			for _ in 0..s[1] {
				let (scid, c) = chans[rng.below(chans.len() as u64) as usize];
				let path = mk_path(*scid, c, 1 + rng.below(2_000_000));
				if rng.below(2) == 0 {
					scorer.payment_path_failed(&path, *scid, std::time::Duration::from_secs(10));
				} else {
					scorer.payment_path_successful(&path, std::time::Duration::from_secs(10));
				}
			}
			for _ in 0..s[2] {
				let (scid, c) = chans[rng.below(chans.len() as u64) as usize];
				let path = mk_path(*scid, c, 1 + rng.below(500_000));
				inflight.process_path(&path, PublicKey::from_slice(c.node_one.as_slice()).unwrap());
			}
		}
	}
	let score_params = ProbabilisticScoringFeeParameters::default();
	let seed_bytes = Sha256::hash(&(s[0] as u64).to_be_bytes()).to_byte_array();
	let first_refs: Vec<&ChannelDetails> = first.iter().collect();
	let acct = ScorerAccountingForInFlightHtlcs::new(&scorer, &inflight);
	let res = find_route(
		&payer,
		&params,
		&graph,
		if use_first { Some(&first_refs[..]) } else { None },
		Arc::clone(&logger),
		&acct,
		&score_params,
		&seed_bytes,
	);
	let r = match res {
		Err(e) => format!("err {}", e),
		Ok(route) => {
			let mut ps = Vec::new();
			for path in route.paths.iter() {
				let hs: Vec<String> = path
					.hops
					.iter()
					.map(|h| format!("{},{},{},{}", h.short_channel_id, keys.name_pk(&h.pubkey), h.fee_msat, h.cltv_expiry_delta))
					.collect();
				let tail = match &path.blinded_tail {
					None => String::new(),
					Some(t) => {
						let idx = blinded.iter().position(|b| b.blinding_point() == t.blinding_point).map(|i| i as i64).unwrap_or(-1);
						format!("/{},{}", idx, t.final_value_msat)
					},
				};
				ps.push(format!("{}{}", hs.join(":"), tail));
			}
			format!("ok {}", ps.join("|"))
		},
	};
	format!("V {} # R {}", view.join(";"), r)
}

static LAST_PANIC: std::sync::Mutex<String> = std::sync::Mutex::new(String::new());

fn main() {
	let keys = Keys::new(100);
	let hook = std::sync::Once::new();
	for_each_case(|l| {
		// (after for_each_case installed its silent hook) remember the panic message
		hook.call_once(|| {
			std::panic::set_hook(Box::new(|info| {
				*LAST_PANIC.lock().unwrap() = format!("{}", info).replace('\n', " ");
			}));
		});
		let t: Vec<&str> = l.split_whitespace().collect();
		let r = std::panic::catch_unwind(std::panic::AssertUnwindSafe(|| match t[0] {
			"fee" => {
				let f = RoutingFees { base_msat: t[2].parse().unwrap(), proportional_millionths: t[3].parse().unwrap() };
				let a: u64 = t[1].parse().unwrap();
				format!(
					"{} {}",
					vh::fees_for_amount(a, f).map(|v| v as i128).unwrap_or(-1),
					vh::fees_for_amount_saturating(a, f)
				)
			},
			"recompute" => {
				let value: u64 = t[1].parse().unwrap();
				let hops: Vec<(RoutingFees, u64, u64)> = t[2..]
					.iter()
					.map(|h| {
						let f: Vec<u64> = h.split(',').map(|x| x.parse().unwrap()).collect();
						(RoutingFees { base_msat: f[0] as u32, proportional_millionths: f[1] as u32 }, f[2], f[3])
					})
					.collect();
				let (fees, contribution) = vh::update_value_and_recompute_fees(&hops, value);
				format!("{} {}", contribution, fees.iter().map(|f| f.to_string()).collect::<Vec<_>>().join(","))
			},
			_ => run_case(&keys, l),
		}));
		match r {
			Ok(s) => s,
			Err(_) => format!("PANIC {}", LAST_PANIC.lock().unwrap()),
		}
	});
}
