//! C07 trace harness: closes REAL channels unilaterally in generated states and judges, on the real
//! nodes and after every block, the predicates of property C07:
//!   (a) every output the node is entitled to is being claimed by a currently valid broadcast
//!       (inbound HTLCs whose preimage is known: at once; outbound HTLCs: from their expiry on), and
//!       the node spends nothing it is not entitled to;
//!   (b) every broadcast transaction is consensus-valid against what it spends and final at the
//!       height it is broadcast at (nLockTime, BIP-68 sequence);
//!   (c) a replacement of an in-flight claim never lowers the fee (beyond the proven rounding slack)
//!       and a real bump pays at least the previous fee plus the incremental relay fee;
//!   (d) `get_claimable_balances` conserves value: counted balances + gross value already handed out
//!       as `SpendableOutputs` + value irrevocably taken by the counterparty = entitlement, at every
//!       block; balances drain to empty;
//!   (e) every `SpendableOutputs` descriptor is spendable by the node's keys
//!       (`spend_spendable_outputs` yields a consensus-valid, final transaction), the descriptors are
//!       exactly the final outputs the node owns on chain (none missing, none twice);
//!   (f) no outpoint is claimed by two different transactions produced in one step.
//!
//! usage:  h_onchain run <first_seed> <count> [quick|thorough]    one `R {json}` line per scenario
//!         h_onchain replay <seed>                                same, plus a `T ...` trace on stdout
//! Every random choice derives from the scenario seed (splitmix64).
use std::collections::{BTreeMap, BTreeSet, HashMap};
use std::panic::{self, AssertUnwindSafe};
use std::sync::Mutex;

use bitcoin::absolute::LockTime;
use bitcoin::secp256k1::Secp256k1;
use bitcoin::{Amount, OutPoint, ScriptBuf, Transaction, TxOut, Txid};

use lightning::chain::chaininterface::{BroadcasterInterface, ConfirmationTarget, FeeEstimator, TransactionType};
use lightning::chain::channelmonitor::{Balance, BalanceSource, ANTI_REORG_DELAY};
use lightning::chain::{BlockLocator, Listen};
use lightning::chain::verif_hooks_package::monitor_known_preimages;
use lightning::events::bump_transaction::BumpTransactionEvent;
use lightning::events::Event;
use lightning::ln::chan_utils::shared_anchor_script_pubkey;
use lightning::ln::channelmanager::PaymentId;
use lightning::ln::functional_test_utils::*;
use lightning::ln::msgs::{BaseMessageHandler, ChannelMessageHandler, MessageSendEvent};
use lightning::ln::outbound_payment::RecipientOnionFields;
use lightning::sign::{ChangeDestinationSourceSync, OutputSpender, SpendableOutputDescriptor};
use lightning::util::sweep::{OutputSpendStatus, OutputSweeperSync};
use lightning::util::test_utils::TestStore;
use lightning::types::payment::{PaymentHash, PaymentPreimage};
use lightning::util::wallet_utils::WalletSourceSync;
use lightning::{get_local_commitment_txn, get_route_and_payment_hash};
use verif_harness::Rng;

static PANIC_MSG: Mutex<String> = Mutex::new(String::new());

/// Broadcaster handed to the `OutputSweeper`: only collects.
struct SweepBroadcaster(Mutex<Vec<Transaction>>);
impl BroadcasterInterface for SweepBroadcaster {
	fn broadcast_transactions(&self, txs: &[(&Transaction, TransactionType)]) {
		for (tx, _) in txs {
			self.0.lock().unwrap().push((*tx).clone());
		}
	}
}
struct FixedFee;
impl FeeEstimator for FixedFee {
	fn get_est_sat_per_1000_weight(&self, _: ConfirmationTarget) -> u32 {
		253
	}
}
struct ChangeDest(ScriptBuf);
impl ChangeDestinationSourceSync for ChangeDest {
	fn get_change_destination_script(&self) -> Result<ScriptBuf, ()> {
		Ok(self.0.clone())
	}
}

#[derive(Clone, Copy, PartialEq, Eq, Debug)]
enum Know {
	Never,
	BeforeClose,
	/// as soon as the commitment has been broadcast (not yet confirmed)
	OnBroadcast,
	After(u32),
}

struct Htlc {
	from: usize,
	amt_msat: u64,
	hash: PaymentHash,
	preimage: PaymentPreimage,
	expiry: u32,
	know: Know,
	/// output index in the confirmed commitment (None: dust / not in that commitment)
	vout: Option<u32>,
	claim_tried: bool,
}

struct MemTx {
	tx: Transaction,
	owner: usize,
	#[allow(dead_code)]
	seen: u32,
	ready: u32,
	prio: u64,
}

#[derive(Default)]
struct Stats {
	blocks: u32,
	broadcasts: u32,
	claims_confirmed: u32,
	replacements: u32,
	bumps: u32,
	spendable_events: u32,
	bump_events: u32,
	htlc_outputs: u32,
	lost_to_counterparty: u32,
	spend_checked: u32,
	findings: Vec<String>,
	model: Vec<String>,
}

struct Fail {
	why: String,
	detail: String,
}

fn fail<T>(why: &str, detail: String) -> Result<T, Fail> {
	Err(Fail { why: why.to_string(), detail })
}

struct World {
	height: u32,
	/// every output ever created by a transaction we know: value/script and confirmation height
	/// (None while unconfirmed)
	outputs: HashMap<OutPoint, (TxOut, Option<u32>)>,
	/// confirmed spends: outpoint -> (spending txid, height)
	spent: HashMap<OutPoint, (Txid, u32)>,
	confirmed: HashMap<Txid, u32>,
	txs: HashMap<Txid, Transaction>,
	owner: HashMap<Txid, usize>,
	mempool: Vec<MemTx>,
	trace: bool,
}

impl World {
	fn add_outputs(&mut self, tx: &Transaction, conf: Option<u32>) {
		let txid = tx.compute_txid();
		for (i, o) in tx.output.iter().enumerate() {
			let e = self.outputs.entry(OutPoint { txid, vout: i as u32 }).or_insert((o.clone(), conf));
			if conf.is_some() {
				e.1 = conf;
			}
		}
		self.txs.entry(txid).or_insert_with(|| tx.clone());
	}
	fn unspent(&self, op: &OutPoint) -> bool {
		!self.spent.contains_key(op)
	}
	fn valid_now(&self, tx: &Transaction) -> bool {
		tx.input.iter().all(|i| {
			self.unspent(&i.previous_output)
				&& match self.outputs.get(&i.previous_output) {
					Some((_, Some(_))) => true,
					// unconfirmed parent: must itself still be valid in the mempool
					Some((_, None)) => self
						.mempool
						.iter()
						.any(|m| m.tx.compute_txid() == i.previous_output.txid && self.valid_now(&m.tx)),
					None => false,
				}
		})
	}
	fn fee(&self, tx: &Transaction) -> Option<u64> {
		let mut inp = 0u64;
		for i in &tx.input {
			inp += self.outputs.get(&i.previous_output)?.0.value.to_sat();
		}
		let out: u64 = tx.output.iter().map(|o| o.value.to_sat()).sum();
		inp.checked_sub(out)
	}
	/// nLockTime and BIP-68 finality for inclusion in a block at `at_height`.
	fn final_at(&self, tx: &Transaction, at_height: u32, in_block: &BTreeSet<Txid>) -> Result<(), String> {
		let lt = tx.lock_time.to_consensus_u32();
		let any_nonfinal_seq = tx.input.iter().any(|i| i.sequence.0 != 0xffff_ffff);
		// values >= 500_000_000 are timestamps (commitment transactions encode their number there,
		// as a date in 1987): always in the past
		if any_nonfinal_seq && lt < 500_000_000 && lt >= at_height {
			return Err(format!("nLockTime {} not final for a block at height {}", lt, at_height));
		}
		if tx.version.0 >= 2 {
			for i in &tx.input {
				let s = i.sequence.0;
				if s & (1 << 31) != 0 {
					continue;
				}
				if s & (1 << 22) != 0 {
					return Err("time-based relative lock".to_string());
				}
				let n = s & 0xffff;
				let conf = match self.outputs.get(&i.previous_output) {
					Some((_, Some(h))) => *h,
					_ => {
						if in_block.contains(&i.previous_output.txid) || n == 0 {
							at_height
						} else {
							// unconfirmed parent: confirms at `at_height` at the earliest
							at_height
						}
					},
				};
				if conf + n > at_height {
					return Err(format!(
						"input {} needs {} confirmations, spent output confirmed at {}, block height {}",
						i.previous_output, n, conf, at_height
					));
				}
			}
		}
		Ok(())
	}
}

fn desc_op(d: &SpendableOutputDescriptor) -> OutPoint {
	match d {
		SpendableOutputDescriptor::StaticOutput { outpoint, .. } => outpoint.into_bitcoin_outpoint(),
		SpendableOutputDescriptor::DelayedPaymentOutput(x) => x.outpoint.into_bitcoin_outpoint(),
		SpendableOutputDescriptor::StaticPaymentOutput(x) => x.outpoint.into_bitcoin_outpoint(),
	}
}

fn short(op: &OutPoint) -> String {
	format!("{}:{}", &op.txid.to_string()[..8], op.vout)
}

fn jstr(s: &str) -> String {
	let mut o = String::from("\"");
	for c in s.chars() {
		match c {
			'"' => o.push_str("\\\""),
			'\\' => o.push_str("\\\\"),
			'\n' => o.push_str("\\n"),
			c if (c as u32) < 0x20 => o.push(' '),
			c => o.push(c),
		}
	}
	o.push('"');
	o
}

const STYLES: [ConnectStyle; 11] = [
	ConnectStyle::BestBlockFirst,
	ConnectStyle::BestBlockFirstSkippingBlocks,
	ConnectStyle::BestBlockFirstReorgsOnlyTip,
	ConnectStyle::TransactionsFirst,
	ConnectStyle::TransactionsFirstSkippingBlocks,
	ConnectStyle::TransactionsDuplicativelyFirstSkippingBlocks,
	ConnectStyle::HighlyRedundantTransactionsFirstSkippingBlocks,
	ConnectStyle::TransactionsFirstReorgsOnlyTip,
	ConnectStyle::FullBlockViaListen,
	ConnectStyle::ReplayedFullBlockViaListen,
	ConnectStyle::FullBlockDisconnectionsSkippingViaListen,
];

struct Cfg {
	chan_type: u64,
	closer: usize,
	prev: bool,
	explicit_close: bool,
	styles: [usize; 2],
	n_htlcs: usize,
	mpp_parts: usize,
	second_chan: bool,
	/// 0 no splice; a splice negotiated before the HTLCs and never locked: 1 splice-in confirmed, 2 splice-out
	/// confirmed (the channel is then closed by a commitment on the NEW funding, the monitor's pending
	/// scope), 3 splice-in / 4 splice-out never confirmed (closed by a commitment on the original funding)
	splice: u64,
	splice_by: usize,
	splice_sat: u64,
}

fn describe(c: &Cfg, htlcs: &[Htlc]) -> String {
	let hs: Vec<String> = htlcs
		.iter()
		.map(|h| {
			format!(
				"{{\"from\":{},\"amt_msat\":{},\"expiry\":{},\"know\":{},\"vout\":{}}}",
				h.from,
				h.amt_msat,
				h.expiry,
				jstr(&format!("{:?}", h.know)),
				h.vout.map(|v| v as i64).unwrap_or(-1)
			)
		})
		.collect();
	format!(
		"{{\"chan_type\":{},\"mpp_parts\":{},\"second_chan\":{},\"splice\":[{},{},{}],\"closer\":{},\"prev_commitment\":{},\"explicit_close\":{},\"styles\":[{},{}],\"htlcs\":[{}]}}",
		c.chan_type,
		c.mpp_parts,
		c.second_chan,
		c.splice,
		c.splice_by,
		c.splice_sat,
		c.closer,
		c.prev,
		c.explicit_close,
		c.styles[0],
		c.styles[1],
		hs.join(",")
	)
}

/// Balances that count towards "funds the node may still get" (everything except inbound HTLCs whose
/// preimage the node does not know).
fn counted(b: &Balance) -> Option<u64> {
	match b {
		Balance::ClaimableOnChannelClose { .. } => None,
		Balance::ClaimableAwaitingConfirmations { amount_satoshis, .. } => Some(*amount_satoshis),
		Balance::ContentiousClaimable { amount_satoshis, .. } => Some(*amount_satoshis),
		Balance::MaybeTimeoutClaimableHTLC { amount_satoshis, .. } => Some(*amount_satoshis),
		Balance::MaybePreimageClaimableHTLC { .. } => Some(0),
		Balance::CounterpartyRevokedOutputClaimable { amount_satoshis } => Some(*amount_satoshis),
	}
}

fn scenario(seed: u64, mode_thorough: bool, trace: bool, descr: &mut String) -> Result<Stats, Fail> {
	let mut rng = Rng(seed.wrapping_mul(0x9E37_79B9_7F4A_7C15) ^ 0xC07C07);
	let mut st = Stats::default();
	let n_max = if mode_thorough { 12 } else { 8 };
	let cfg = Cfg {
		chan_type: rng.below(3),
		closer: rng.below(2) as usize,
		prev: rng.below(4) == 0,
		explicit_close: rng.below(2) == 0,
		styles: [rng.below(11) as usize, rng.below(11) as usize],
		n_htlcs: rng.below(n_max + 1) as usize,
		mpp_parts: 0,
		second_chan: false,
		splice: 0,
		splice_by: 0,
		splice_sat: 0,
	};
	// independent stream for the features added later (keeps the older draws stable)
	let mut rx = Rng(seed.wrapping_mul(0xA24B_AED4_963E_E407) ^ 0x5EC0D);
	let mut cfg = cfg;
	cfg.mpp_parts = if rx.below(3) == 0 { 0 } else { 2 + rx.below(3) as usize };
	cfg.second_chan = rx.below(2) == 0;
	let mut chanmon_cfgs = create_chanmon_cfgs(2);
	chanmon_cfgs[0].keys_manager.disable_revocation_policy_check = true;
	chanmon_cfgs[1].keys_manager.disable_revocation_policy_check = true;
	let node_cfgs = create_node_cfgs(2, &chanmon_cfgs);
	let mut user_config = test_legacy_channel_config();
	user_config.channel_handshake_config.negotiate_anchors_zero_fee_htlc_tx = cfg.chan_type == 1;
	user_config.channel_handshake_config.negotiate_anchor_zero_fee_commitments = cfg.chan_type == 2;
	// ASYMMETRIC by default: the two nodes differ in the delay they impose on the other's to_local
	// (`our_to_self_delay`, both in 144..=215 and never equal), in `our_htlc_minimum_msat` and in what
	// their fee estimators say; a swap of holder/counterparty parameters anywhere is then visible.
	let mut ry = Rng(seed.wrapping_mul(0x8CB9_2BA7_2F3D_8DD7) ^ 0xA5E7);
	let d0 = 144 + ry.below(36) as u16;
	let d1 = loop {
		let d = 144 + ry.below(72) as u16;
		if d != d0 {
			break d;
		}
	};
	let to_self_delay = [d0, d1];
	let mut user_configs = [user_config.clone(), user_config];
	for i in 0..2 {
		user_configs[i].channel_handshake_config.our_to_self_delay = to_self_delay[i];
		user_configs[i].channel_handshake_config.our_htlc_minimum_msat = 1 + ry.below(1000);
	}
	let node_chanmgrs =
		create_node_chanmgrs(2, &node_cfgs, &[Some(user_configs[0].clone()), Some(user_configs[1].clone())]);
	// never dropped: `Node::drop` asserts that nothing is pending, which would mask our verdict
	let nodes = std::mem::ManuallyDrop::new(create_network(2, &node_cfgs, &node_chanmgrs));
	for i in 0..2 {
		*nodes[i].connect_style.borrow_mut() = STYLES[cfg.styles[i]];
	}
	let ids = [nodes[0].node.get_our_node_id(), nodes[1].node.get_our_node_id()];
	let reserves = provide_utxo_reserves(&nodes, 24, Amount::from_sat(50_000_000));
	let (_, _, chan_id, funding_tx) =
		create_announced_chan_between_nodes_with_value(&nodes, 0, 1, 1_000_000, 300_000_000);
	let mut funding_outpoint = OutPoint { txid: funding_tx.compute_txid(), vout: 0 };
	let mut init_sat = [700_000i64, 300_000i64];
	// ---------------------------------------------------------------- a splice that is never locked
	// (one scenario in four; never together with the previous-commitment mode). The monitor then holds two
	// funding scopes whose balances differ; which one the closing commitment spends is decided below.
	let mut rz = Rng(seed.wrapping_mul(0xD1B5_4A32_D192_ED03) ^ 0x5C0FE);
	if !cfg.prev && rz.below(4) == 0 {
		cfg.splice = 1 + rz.below(4);
		cfg.splice_by = rz.below(2) as usize;
		cfg.second_chan = false;
	}
	let mut splice_tx: Option<Transaction> = None;
	if cfg.splice != 0 {
		use lightning::ln::splicing_tests::{do_initiate_splice_in, initiate_splice_out, splice_channel};
		let a = cfg.splice_by;
		let b = 1 - a;
		let contribution = if cfg.splice % 2 == 1 {
			cfg.splice_sat = 60_000 + rz.below(240_000);
			do_initiate_splice_in(&nodes[a], &nodes[b], chan_id, Amount::from_sat(cfg.splice_sat))
		} else {
			cfg.splice_sat = 20_000 + rz.below(80_000);
			let out = TxOut { value: Amount::from_sat(cfg.splice_sat), script_pubkey: nodes[a].wallet_source.get_change_script().unwrap() };
			match initiate_splice_out(&nodes[a], &nodes[b], chan_id, vec![out]) {
				Ok(c) => c,
				Err(e) => return fail("harness: splice-out refused", format!("{:?}", e)),
			}
		};
		let (tx, _script) = splice_channel(&nodes[a], &nodes[b], chan_id, contribution);
		splice_tx = Some(tx);
	}

	// ---------------------------------------------------------------- pending HTLCs
	let mut htlcs: Vec<Htlc> = Vec::new();
	let mut used_amounts = BTreeSet::new();
	for _ in 0..cfg.n_htlcs {
		let from = rng.below(2) as usize;
		let sat = loop {
			let s = if rng.below(4) == 0 {
				1 + rng.below(352)
			} else {
				1_000 + rng.below(12_500)
			};
			if s != 330 && s != 240 && used_amounts.insert(s) {
				break s;
			}
		};
		let amt_msat = sat * 1000 + rng.below(1000);
		let same_dir: u64 =
			htlcs.iter().filter(|h| h.from == from).map(|h| h.amt_msat / 1000 + 1).sum();
		if same_dir + sat > 90_000 || htlcs.iter().filter(|h| h.from == from).count() >= 6 {
			continue;
		}
		let expiry = nodes[from].best_block_info().1 + TEST_FINAL_CLTV + 1;
		let (preimage, hash, _, _) = route_payment(&nodes[from], &[&nodes[1 - from]], amt_msat);
		let know = match rng.below(5) {
			0 | 1 => Know::Never,
			2 | 3 => Know::BeforeClose,
			_ => Know::After(rng.below(3) as u32 * rng.below(40) as u32),
		};
		htlcs.push(Htlc { from, amt_msat, hash, preimage, expiry, know, vout: None, claim_tried: false });
		if rng.below(3) == 0 {
			let k = 1 + rng.below(3) as u32;
			connect_blocks(&nodes[0], k);
			connect_blocks(&nodes[1], k);
		}
	}
	// messages between the two nodes until quiescence (commitment dances, holding-cell releases)
	let pump = || {
		for _ in 0..40 {
			let mut any = false;
			for i in 0..2 {
				let j = 1 - i;
				for ev in nodes[i].node.get_and_clear_pending_msg_events() {
					match ev {
						MessageSendEvent::UpdateHTLCs { updates, .. } => {
							any = true;
							for m in updates.update_add_htlcs.iter() {
								nodes[j].node.handle_update_add_htlc(ids[i], m);
							}
							nodes[j].node.handle_commitment_signed_batch_test(ids[i], &updates.commitment_signed);
						},
						MessageSendEvent::SendRevokeAndACK { msg, .. } => {
							any = true;
							nodes[j].node.handle_revoke_and_ack(ids[i], &msg);
						},
						_ => {},
					}
				}
				nodes[i].chain_monitor.added_monitors.lock().unwrap().clear();
			}
			if !any {
				break;
			}
		}
	};
	// one multi-part payment whose parts all travel over this channel: several HTLCs, one payment hash
	if cfg.mpp_parts > 0 {
		let from = rx.below(2) as usize;
		let mut parts: Vec<u64> = Vec::new();
		while parts.len() < cfg.mpp_parts {
			let sat = if rx.below(6) == 0 { 1 + rx.below(352) } else { 1_000 + rx.below(9_000) };
			if sat != 330 && sat != 240 && used_amounts.insert(sat) {
				parts.push(sat * 1000 + rx.below(1000));
			}
		}
		let same_dir: u64 = htlcs.iter().filter(|h| h.from == from).map(|h| h.amt_msat / 1000 + 1).sum();
		let total: u64 = parts.iter().sum();
		if same_dir + total / 1000 < 88_000 && htlcs.iter().filter(|h| h.from == from).count() + parts.len() <= 9 {
			let expiry = nodes[from].best_block_info().1 + TEST_FINAL_CLTV + 1;
			let (mut route, hash, preimage, secret) = get_route_and_payment_hash!(nodes[from], nodes[1 - from], total);
			let path = route.paths[0].clone();
			route.paths = parts.iter().map(|a| { let mut p = path.clone(); p.hops[0].fee_msat = *a; p }).collect();
			nodes[from].node.send_payment_with_route(route, hash, RecipientOnionFields::secret_only(secret, total), PaymentId(hash.0)).unwrap();
			pump();
			nodes[1 - from].node.process_pending_htlc_forwards();
			pump();
			let claimable = nodes[1 - from].node.get_and_clear_pending_events().iter().any(|e| matches!(e, Event::PaymentClaimable { .. }));
			if !claimable {
				return fail("harness: multi-part payment over one channel did not become claimable", format!("parts {:?}", parts));
			}
			let know = match rx.below(6) {
				0 => Know::Never,
				1 => Know::BeforeClose,
				2 => Know::OnBroadcast,
				_ => Know::After(rx.below(3) as u32 * rx.below(30) as u32),
			};
			for a in parts.iter() {
				htlcs.push(Htlc { from, amt_msat: *a, hash, preimage, expiry, know, vout: None, claim_tried: false });
			}
		} else {
			cfg.mpp_parts = 0;
		}
	}
	// a second channel between the same nodes, closed during the scenario: its outputs mature in
	// windows overlapping the first channel's, all of them go through one OutputSweeper per node
	let scid1 = nodes[0].node.list_channels().iter().find(|ch| ch.channel_id == chan_id).and_then(|ch| ch.short_channel_id);
	let chan2 = if cfg.second_chan {
		let (_, _, id2, ftx2) = create_announced_chan_between_nodes_with_value(&nodes, 0, 1, 400_000, 150_000_000);
		Some((id2, ftx2))
	} else {
		None
	};
	let closer2 = rx.below(2) as usize;
	let close2_after = rx.below(8) as u32;
	let mut c = cfg.closer;
	let p = 1 - c;
	// the commitment that will confirm
	let mut commitment_txn = get_local_commitment_txn!(nodes[c], chan_id);
	if cfg.prev {
		// one more update, of which the closer's revocation never reaches the peer: the peer then
		// sees the closer's previous, still unrevoked commitment confirm
		let (mut route, hash, _preimage, secret) = get_route_and_payment_hash!(nodes[p], nodes[c], 2_345_678);
		if let Some(scid) = scid1 {
			route.paths[0].hops[0].short_channel_id = scid;
		}
		nodes[p]
			.node
			.send_payment_with_route(route, hash, RecipientOnionFields::secret_only(secret, 2_345_678), PaymentId(hash.0))
			.unwrap();
		nodes[p].chain_monitor.added_monitors.lock().unwrap().clear();
		let mut evs = nodes[p].node.get_and_clear_pending_msg_events();
		let ev = SendEvent::from_event(evs.remove(0));
		nodes[c].node.handle_update_add_htlc(ids[p], &ev.msgs[0]);
		nodes[c].node.handle_commitment_signed_batch_test(ids[p], &ev.commitment_msg);
		nodes[c].node.get_and_clear_pending_msg_events();
	}
	// preimages known before the close (the claim messages never reach the peer)
	let mut knows = [BTreeSet::<PaymentHash>::new(), BTreeSet::<PaymentHash>::new()];
	let mut claimed_hashes: BTreeSet<PaymentHash> = BTreeSet::new();
	for h in htlcs.iter_mut() {
		if h.know == Know::BeforeClose {
			if claimed_hashes.insert(h.hash) {
				nodes[1 - h.from].node.claim_funds(h.preimage);
			}
			h.claim_tried = true;
		}
	}
	let drain = |i: usize, knows: &mut [BTreeSet<PaymentHash>; 2]| {
		nodes[i].node.get_and_clear_pending_events();
		// what the monitor itself has stored (the property speaks of preimages the monitor knows)
		let mon = nodes[i].chain_monitor.chain_monitor.get_monitor(chan_id).unwrap();
		knows[i] = monitor_known_preimages(&*mon).into_iter().collect();
		nodes[i].node.get_and_clear_pending_msg_events();
		nodes[i].chain_monitor.added_monitors.lock().unwrap().clear();
	};
	drain(0, &mut knows);
	drain(1, &mut knows);
	if !cfg.prev {
		commitment_txn = get_local_commitment_txn!(nodes[c], chan_id);
	}
	if cfg.splice == 1 || cfg.splice == 2 {
		// the splice confirms (a few blocks, never locked: no messages pass); the closing commitment is the
		// closer's commitment on the NEW funding, which is the monitor's pending, not its current, scope
		let stx = splice_tx.clone().unwrap();
		for i in 0..2 {
			mine_transaction(&nodes[i], &stx);
		}
		let k = 1 + rz.below(4) as u32;
		for i in 0..2 {
			connect_blocks(&nodes[i], k);
		}
		drain(0, &mut knows);
		drain(1, &mut knows);
		let new_out = stx.output.iter().position(|o| o.script_pubkey.is_p2wsh() && o.value.to_sat() > 500_000).map(|v| OutPoint { txid: stx.compute_txid(), vout: v as u32 });
		funding_outpoint = match new_out {
			Some(o) => o,
			None => return fail("harness: cannot find the new funding output of the splice", format!("{:?}", stx.output)),
		};
		if cfg.splice == 1 {
			init_sat[cfg.splice_by] += cfg.splice_sat as i64;
		} else {
			init_sat[cfg.splice_by] -= cfg.splice_sat as i64;
		}
	}
	let commitment = commitment_txn[0].clone();
	// the commitment that confirms decides (normally the planned one; the peer's if its manager
	// force-closes first and the miner prefers that one)
	let mut ctxid = commitment.compute_txid();
	*descr = describe(&cfg, &htlcs);

	// ---------------------------------------------------------------- world
	if nodes[0].best_block_info().1 != nodes[1].best_block_info().1 {
		return fail("harness: nodes at different heights", String::new());
	}
	let mut w = World {
		height: nodes[0].best_block_info().1,
		outputs: HashMap::new(),
		spent: HashMap::new(),
		confirmed: HashMap::new(),
		txs: HashMap::new(),
		owner: HashMap::new(),
		mempool: Vec::new(),
		trace,
	};
	w.add_outputs(&reserves, Some(1));
	w.add_outputs(&funding_tx, Some(1));
	w.confirmed.insert(funding_tx.compute_txid(), 1);
	if let (Some(stx), true) = (splice_tx.as_ref(), cfg.splice == 1 || cfg.splice == 2) {
		w.add_outputs(stx, Some(1));
		w.confirmed.insert(stx.compute_txid(), 1);
		for i in stx.input.iter() {
			w.spent.insert(i.previous_output, (stx.compute_txid(), 1));
		}
	}
	let splice_txid = splice_tx.as_ref().map(|t| t.compute_txid());
	let funding2_outpoint = chan2.as_ref().map(|(_, t)| OutPoint { txid: t.compute_txid(), vout: 0 });
	if let Some((_, t)) = chan2.as_ref() {
		w.add_outputs(t, Some(1));
		w.confirmed.insert(t.compute_txid(), 1);
	}
	// one real OutputSweeper per node, fed every block and every SpendableOutputs event of every channel
	let sweep_bc = [SweepBroadcaster(Mutex::new(Vec::new())), SweepBroadcaster(Mutex::new(Vec::new()))];
	let sweep_store = [TestStore::new(false), TestStore::new(false)];
	let sweep_dest = [ChangeDest(ScriptBuf::new_p2wsh(&<bitcoin::WScriptHash as bitcoin::hashes::Hash>::from_byte_array([0x51; 32]))), ChangeDest(ScriptBuf::new_p2wsh(&<bitcoin::WScriptHash as bitcoin::hashes::Hash>::from_byte_array([0x52; 32])))];
	let fixed_fee = FixedFee;
	let sweepers: Vec<_> = (0..2)
		.map(|n| {
			OutputSweeperSync::new(
				BlockLocator::new(nodes[n].best_block_hash(), nodes[n].best_block_info().1),
				&sweep_bc[n],
				&fixed_fee,
				None::<&lightning::util::test_utils::TestChainSource>,
				&nodes[n].keys_manager.backing,
				&sweep_dest[n],
				&sweep_store[n],
				nodes[n].logger,
			)
		})
		.collect();
	let mut sweep_txids: BTreeSet<Txid> = BTreeSet::new();
	// every descriptor a node ever got, of every channel
	let mut all_desc: [Vec<(OutPoint, SpendableOutputDescriptor)>; 2] = [Vec::new(), Vec::new()];
	let mut chan2_closed = false;
	let wallet_scripts: Vec<ScriptBuf> =
		(0..2).map(|i| nodes[i].wallet_source.get_change_script().unwrap()).collect();
	nodes[0].tx_broadcaster.txn_broadcast();
	nodes[1].tx_broadcaster.txn_broadcast();

	// the close itself
	if cfg.explicit_close && !cfg.prev {
		nodes[c].node.force_close_broadcasting_latest_txn(&chan_id, &ids[p], "closing".to_string()).unwrap();
	} else if cfg.splice == 1 || cfg.splice == 2 {
		// the closer's monitor is made to broadcast its latest commitment: the one on the confirmed new
		// funding (with its HTLC transactions); all of it is picked up by the first step below
		let mon = nodes[c].chain_monitor.chain_monitor.get_monitor(chan_id).unwrap();
		mon.broadcast_latest_holder_commitment_txn(&nodes[c].tx_broadcaster, &nodes[c].fee_estimator, &nodes[c].logger);
	} else {
		w.mempool.push(MemTx { tx: commitment.clone(), owner: c, seen: w.height, ready: w.height + 1, prio: 0 });
		w.add_outputs(&commitment, None);
		w.owner.insert(ctxid, c);
	}

	let secp = Secp256k1::new();
	let prev_mode = cfg.prev;
	let judged = |n: usize, closer: usize| !(prev_mode && n == closer);
	let mut commit_height: Option<u32> = None;
	let mut mains: [Option<OutPoint>; 2] = [None, None];
	let mut htlc_by_vout: BTreeMap<u32, usize> = BTreeMap::new();
	// per node: gross value handed out through SpendableOutputs, descriptors seen
	let mut handed_out = [0u64; 2];
	let mut descriptors: [Vec<SpendableOutputDescriptor>; 2] = [Vec::new(), Vec::new()];
	let mut desc_outpoints: [BTreeSet<OutPoint>; 2] = [BTreeSet::new(), BTreeSet::new()];
	// per node and bump claim id: last target feerate
	let mut bump_targets: [HashMap<[u8; 32], u32>; 2] = [HashMap::new(), HashMap::new()];
	let mut findings: BTreeSet<String> = BTreeSet::new();
	// model trace per node: header, then ops (`P idx`, `B idx.ours.pre,...`) and observations (`O ...`)
	let mut mtrace: [Vec<String>; 2] = [Vec::new(), Vec::new()];
	let mut mknown: [BTreeSet<usize>; 2] = [BTreeSet::new(), BTreeSet::new()];
	let mut fee_est = [253u32, 253u32];
	let mut idle_blocks = 0u32;
	let max_blocks = 460u32;
	let start_height = w.height;

	// gross value (in terms of commitment outputs) represented by output `op`
	fn gross_of(w: &World, ctxid: &Txid, htlc_by_vout: &BTreeMap<u32, usize>, htlcs: &[Htlc], op: &OutPoint) -> Option<u64> {
		if op.txid == *ctxid {
			return match htlc_by_vout.get(&op.vout) {
				Some(i) => Some(htlcs[*i].amt_msat / 1000),
				None => Some(w.outputs.get(op)?.0.value.to_sat()),
			};
		}
		let tx = w.txs.get(&op.txid)?;
		let chan_inputs: Vec<(usize, u64)> = tx
			.input
			.iter()
			.enumerate()
			.filter_map(|(i, inp)| {
				let from_chan = inp.previous_output.txid == *ctxid
					|| w.txs.get(&inp.previous_output.txid).map(|t| t.input.iter().any(|x| x.previous_output.txid == *ctxid)).unwrap_or(false);
				if from_chan {
					gross_of(w, ctxid, htlc_by_vout, htlcs, &inp.previous_output).map(|g| (i, g))
				} else {
					None
				}
			})
			.collect();
		if chan_inputs.is_empty() {
			return None;
		}
		// one-output-per-input transactions (second stage HTLC transactions) map positionally, an
		// aggregated claim has a single proceeds output
		if let Some((_, g)) = chan_inputs.iter().find(|(i, _)| *i == op.vout as usize) {
			if tx.output.len() >= tx.input.len() && chan_inputs.len() > 1 || chan_inputs.len() == 1 && tx.input.len() > 1 {
				return Some(*g);
			}
		}
		Some(chan_inputs.iter().map(|(_, g)| *g).sum())
	}

	let mut iteration = 0u32;
	loop {
		iteration += 1;
		if let (Some((id2, _)), Some(ch)) = (chan2.as_ref(), commit_height) {
			if !chan2_closed && w.height >= ch + close2_after {
				chan2_closed = true;
				let _ = nodes[closer2].node.force_close_broadcasting_latest_txn(id2, &ids[1 - closer2], "closing the second channel".to_string());
			}
		}
		// ------------------------------------------------------------ per step: collect what the nodes did
		for n in 0..2 {
			// late preimages
			for h in htlcs.iter_mut() {
				let due = match (h.know, commit_height) {
					(Know::After(k), Some(ch)) => w.height >= ch + k,
					(Know::OnBroadcast, _) => iteration >= 1,
					_ => false,
				};
				if due && 1 - h.from == n && !h.claim_tried {
					if claimed_hashes.insert(h.hash) {
						nodes[n].node.claim_funds(h.preimage);
					}
					h.claim_tried = true;
				}
			}
			let mut new_txs: Vec<Transaction> = Vec::new();
			// monitor events: bump requests and spendable outputs
			for _round in 0..3 {
				let evs = nodes[n].chain_monitor.chain_monitor.get_and_clear_pending_events();
				if evs.is_empty() {
					break;
				}
				for ev in evs {
					match ev {
						Event::BumpTransaction(b) => {
							st.bump_events += 1;
							if let BumpTransactionEvent::HTLCResolution { claim_id, target_feerate_sat_per_1000_weight, .. } = &b {
								let prev = bump_targets[n].insert(claim_id.0, *target_feerate_sat_per_1000_weight);
								if let Some(pv) = prev {
									let late_preimage_on_holder = n == c && !cfg.prev
										&& htlcs.iter().any(|h| matches!(h.know, Know::After(_)) && h.claim_tried && 1 - h.from == n);
									if *target_feerate_sat_per_1000_weight < pv && judged(n, c) && late_preimage_on_holder
										&& std::env::var("C07_EXPLORE_TOLERATE_STALE").is_err()
									{
										// F3: the re-requested claim of an already resolved HTLC starts over as
										// a new package (feerate_previous = 0) under the same ClaimId
										return Err(Fail { why: "KNOWN:F3-late-preimage-on-holder-commitment-reclaims-resolved-htlcs".to_string(),
											detail: format!("node {} claim {:?}: target feerate restarts {} -> {}", n, &claim_id.0[..4], pv, target_feerate_sat_per_1000_weight) });
									}
									if *target_feerate_sat_per_1000_weight < pv && judged(n, c) && !late_preimage_on_holder {
										return fail(
											"(c) target feerate of an HTLC claim decreased",
											format!("node {} claim {:?}: {} -> {}", n, &claim_id.0[..4], pv, target_feerate_sat_per_1000_weight),
										);
									}
								}
							}
							nodes[n].bump_tx_handler.handle_event(&b);
						},
						Event::SpendableOutputs { outputs, channel_id: ev_chan, counterparty_node_id: ev_cp } => {
							st.spendable_events += 1;
							let is_chan2 = chan2.as_ref().map(|(id2, _)| Some(*id2) == ev_chan).unwrap_or(false);
							if judged(n, c) {
								if sweepers[n].track_spendable_outputs(outputs.clone(), ev_chan, ev_cp, false, None).is_err() {
									return fail("(e) OutputSweeper refused to track spendable outputs", format!("node {}", n));
								}
							}
							for d in outputs {
								let (op, val) = match &d {
									SpendableOutputDescriptor::StaticOutput { outpoint, output, .. } => (outpoint.into_bitcoin_outpoint(), output.value),
									SpendableOutputDescriptor::DelayedPaymentOutput(x) => (x.outpoint.into_bitcoin_outpoint(), x.output.value),
									SpendableOutputDescriptor::StaticPaymentOutput(x) => (x.outpoint.into_bitcoin_outpoint(), x.output.value),
								};
								if !judged(n, c) {
									continue;
								}
								if all_desc[n].iter().any(|(o, _)| *o == op) {
									return fail("(e) the same output was announced as spendable twice", format!("node {} {}", n, short(&op)));
								}
								all_desc[n].push((op, d.clone()));
								if !is_chan2 {
									desc_outpoints[n].insert(op);
								}
								match w.outputs.get(&op) {
									Some((o, Some(_))) if o.value == val && w.unspent(&op) => {},
									other => {
										return fail(
											"(e) spendable output does not exist unspent on chain with that value",
											format!("node {} {} value {} chain {:?}", n, short(&op), val, other.map(|x| (x.0.value, x.1))),
										)
									},
								}
								// (e) the node's keys can spend it, validly and finally, right now
								let spend = nodes[n].keys_manager.backing.spend_spendable_outputs(
									&[&d],
									Vec::new(),
									ScriptBuf::new_op_return(&[0u8; 4]),
									253,
									Some(LockTime::from_height(w.height).unwrap()),
									&secp,
								);
								let spend = match spend {
									Ok(t) => t,
									Err(()) => return fail("(e) spend_spendable_outputs failed", format!("node {} {}", n, short(&op))),
								};
								if let Err(e) = spend.verify(|o| w.outputs.get(o).map(|x| x.0.clone())) {
									return fail("(e) spend of a spendable output is not consensus-valid", format!("node {} {}: {:?}", n, short(&op), e));
								}
								if let Err(e) = w.final_at(&spend, w.height + 1, &BTreeSet::new()) {
									return fail("(e) spendable output announced before it can be spent", format!("node {} {}: {}", n, short(&op), e));
								}
								st.spend_checked += 1;
								if is_chan2 {
									continue;
								}
								match gross_of(&w, &ctxid, &htlc_by_vout, &htlcs, &op) {
									Some(g) => handed_out[n] += g,
									None => return fail("(e) spendable output does not descend from the channel", format!("node {} {}", n, short(&op))),
								}
								descriptors[n].push(d);
							}
							// (e) all descriptors still unspent, of ALL channels, in one call: in several orders and
							// in a random subset (this is what an OutputSweeper does)
							if judged(n, c) {
								let pending: Vec<&(OutPoint, SpendableOutputDescriptor)> = all_desc[n].iter().filter(|(o, _)| w.unspent(o)).collect();
								if pending.len() >= 2 {
									for variant in 0..4 {
										let mut order: Vec<&(OutPoint, SpendableOutputDescriptor)> = pending.clone();
										match variant {
											0 => {},
											1 => order.reverse(),
											_ => {
												for i in (1..order.len()).rev() {
													let j = rx.below(i as u64 + 1) as usize;
													order.swap(i, j);
												}
												if variant == 3 {
													let keep = 2 + rx.below(order.len() as u64 - 1) as usize;
													order.truncate(keep);
												}
											},
										}
										let refs: Vec<&SpendableOutputDescriptor> = order.iter().map(|x| &x.1).collect();
										let tx = match nodes[n].keys_manager.backing.spend_spendable_outputs(&refs, Vec::new(), ScriptBuf::new_op_return(&[0u8; 4]), 253, None, &secp) {
											Ok(t) => t,
											Err(()) => {
												return fail(
													"(e) spend_spendable_outputs fails on a batch of descriptors that are spendable one by one",
													format!("node {} batch {:?}", n, order.iter().map(|x| format!("{}{}", short(&x.0), match &x.1 { SpendableOutputDescriptor::DelayedPaymentOutput(_) => "(delayed)", SpendableOutputDescriptor::StaticPaymentOutput(_) => "(static-payment)", _ => "(static)" })).collect::<Vec<_>>()),
												)
											},
										};
										let ins: BTreeSet<OutPoint> = tx.input.iter().map(|i| i.previous_output).collect();
										let want: BTreeSet<OutPoint> = order.iter().map(|x| x.0).collect();
										if ins != want {
											return fail("(e) batch spend does not spend exactly the descriptors' outpoints", format!("node {}: {:?} vs {:?}", n, ins, want));
										}
										if let Err(e) = tx.verify(|o| w.outputs.get(o).map(|x| x.0.clone())) {
											return fail("(e) batch spend of spendable outputs is not consensus-valid", format!("node {}: {:?}", n, e));
										}
										st.spend_checked += 1;
									}
								}
							}
						},
						_ => {},
					}
				}
			}
			drain(n, &mut knows);
			new_txs.extend(nodes[n].tx_broadcaster.txn_broadcast());
			if judged(n, c) {
				if sweepers[n].regenerate_and_broadcast_spend_if_necessary().is_err() {
					return fail(
						"(e) the OutputSweeper cannot sweep the spendable outputs it tracks",
						format!("node {} at height {}: tracked {:?}", n, w.height, sweepers[n].tracked_spendable_outputs().iter().map(|o| short(&desc_op(&o.descriptor))).collect::<Vec<_>>()),
					);
				}
				for tx in sweep_bc[n].0.lock().unwrap().drain(..) {
					sweep_txids.insert(tx.compute_txid());
					new_txs.push(tx);
				}
			}
			// ---------------------------------------------------------- judge what was broadcast
			let mut step_spent: HashMap<OutPoint, Txid> = HashMap::new();
			let mut seen_in_step = BTreeSet::new();
			for tx in new_txs {
				let txid = tx.compute_txid();
				if !seen_in_step.insert(txid) {
					continue;
				}
				st.broadcasts += 1;
				if w.confirmed.contains_key(&txid) {
					continue; // re-announcement of something already mined
				}
				if Some(txid) == splice_txid {
					continue; // the splice that (in this scenario) never confirms
				}
				let already = w.mempool.iter().any(|m| m.tx.compute_txid() == txid);
				w.add_outputs(&tx, None);
				w.owner.entry(txid).or_insert(n);
				if trace {
					println!(
						"T h={} node={} broadcast {} inputs=[{}] locktime={} fee={:?} weight={}",
						w.height,
						n,
						&txid.to_string()[..8],
						tx.input.iter().map(|i| short(&i.previous_output)).collect::<Vec<_>>().join(","),
						tx.lock_time.to_consensus_u32(),
						w.fee(&tx),
						tx.weight().to_wu()
					);
				}
				let is_commitment = tx.input.len() == 1 && (tx.input[0].previous_output == funding_outpoint || Some(tx.input[0].previous_output) == funding2_outpoint);
				let is_sweep = sweep_txids.contains(&txid);
				// inputs spent by a transaction confirmed in the block just processed make the
				// broadcast stale (chain notifications are not atomic), not wrong
				let mut stale = false;
				for i in &tx.input {
					match w.spent.get(&i.previous_output) {
						Some((_, h)) if *h == w.height => stale = true,
						Some((by, h)) => {
							if judged(n, c) {
								// Known behaviour F1 (see known_findings.json): on a non-anchor holder
								// commitment the pre-signed HTLC-timeout package cannot be split, stays
								// in `locktimed_packages` after the counterparty's preimage claim
								// confirmed, and is broadcast at its locktime although its input is gone.
								let f1 = n == c && !cfg.prev && cfg.chan_type == 0
									&& i.previous_output.txid == ctxid
									&& htlc_by_vout.get(&i.previous_output.vout).map(|hi| htlcs[*hi].from == n && tx.lock_time.to_consensus_u32() == htlcs[*hi].expiry).unwrap_or(false)
									&& w.owner.get(by) != Some(&n);
								if f1 {
									findings.insert("F1-stale-holder-htlc-timeout-after-counterparty-claim".to_string());
								} else if n == c && !cfg.prev && i.previous_output.txid == ctxid
									&& htlc_by_vout.contains_key(&i.previous_output.vout)
									&& htlcs.iter().any(|h| matches!(h.know, Know::After(_)) && h.claim_tried && 1 - h.from == n)
									&& std::env::var("C07_EXPLORE_TOLERATE_STALE").is_err()
								{
									// Known behaviour F3 (see known_findings.json): a preimage provided after the
									// node's own commitment confirmed makes the monitor re-request every HTLC
									// claim of that commitment, including outputs whose spend it already saw
									// mature; with anchors they are aggregated with the fresh claim into a
									// transaction that can never confirm. Nothing more can be judged here.
									return Err(Fail { why: "KNOWN:F3-late-preimage-on-holder-commitment-reclaims-resolved-htlcs".to_string(),
										detail: format!("node {} tx {} input {} spent by {} at {} (now {})", n, &txid.to_string()[..8], short(&i.previous_output), &by.to_string()[..8], h, w.height) });
								} else if std::env::var("C07_EXPLORE_TOLERATE_STALE").is_ok() {
									findings.insert("explore-stale".to_string());
								} else {
									return fail(
										"(b) broadcast spends an output whose spend the node saw confirm in an earlier block",
										format!("node {} tx {} input {} spent by {} at {} (now {})", n, &txid.to_string()[..8], short(&i.previous_output), &by.to_string()[..8], h, w.height),
									);
								}
							}
							stale = true;
						},
						None => {},
					}
					if !w.outputs.contains_key(&i.previous_output) {
						return fail("(b) broadcast spends an unknown output", format!("node {} tx {} input {}", n, &txid.to_string()[..8], short(&i.previous_output)));
					}
				}
				if judged(n, c) {
					// (b) consensus validity and finality at the height of broadcast
					if let Err(e) = tx.verify(|o| w.outputs.get(o).map(|x| x.0.clone())) {
						return fail("(b) broadcast transaction is not consensus-valid", format!("node {} tx {}: {:?}", n, &txid.to_string()[..8], e));
					}
					let pkg: BTreeSet<Txid> = w.mempool.iter().map(|m| m.tx.compute_txid()).collect();
					if let Err(e) = w.final_at(&tx, w.height + 1, &pkg) {
						return fail("(b) broadcast transaction is not final at the height it is broadcast", format!("node {} tx {} at height {}: {}", n, &txid.to_string()[..8], w.height, e));
					}
					// (a2) nothing the node is not entitled to
					if commit_height.is_some() {
						for i in &tx.input {
							if i.previous_output.txid == ctxid {
								if let Some(hi) = htlc_by_vout.get(&i.previous_output.vout) {
									let h = &htlcs[*hi];
									let ok = if h.from == n { w.height >= h.expiry } else { true };
									if !ok {
										return fail("(a) node claims an outbound HTLC before its expiry", format!("node {} htlc {} expiry {} height {}", n, hi, h.expiry, w.height));
									}
								} else if Some(i.previous_output) != mains[n] {
									let o = &w.outputs[&i.previous_output].0;
									let anchor = o.value.to_sat() == 330 || o.script_pubkey == shared_anchor_script_pubkey();
									if !anchor {
										return fail("(a) node spends a commitment output that is not its own", format!("node {} {}", n, short(&i.previous_output)));
									}
								}
							}
						}
					}
					// (f) no outpoint claimed twice within one step
					for i in &tx.input {
						if let Some(other) = step_spent.insert(i.previous_output, txid) {
							if other != txid && !is_commitment {
								return fail("(f) two different claims of one outpoint produced in one step", format!("node {} {} by {} and {}", n, short(&i.previous_output), &other.to_string()[..8], &txid.to_string()[..8]));
							}
						}
					}
					// (c) replacement policy against this node's still-valid conflicting transactions
					let has_wallet_input = tx.input.iter().any(|i| {
						w.outputs.get(&i.previous_output).map(|o| wallet_scripts.contains(&o.0.script_pubkey)).unwrap_or(false)
					});
					if !already && !is_commitment && !has_wallet_input && !stale && !is_sweep {
						let fee_t = w.fee(&tx).unwrap_or(0);
						let wt = tx.weight().to_wu();
						for m in w.mempool.iter() {
							if m.owner != n || !w.valid_now(&m.tx) {
								continue;
							}
							let same_inputs = {
								let a: BTreeSet<_> = m.tx.input.iter().map(|i| i.previous_output).collect();
								let b: BTreeSet<_> = tx.input.iter().map(|i| i.previous_output).collect();
								if a.is_disjoint(&b) {
									continue;
								}
								a == b
							};
							let fee_x = w.fee(&m.tx).unwrap_or(0);
							let slack = wt.max(m.tx.weight().to_wu()) / 1000 + 2;
							st.replacements += 1;
							if !same_inputs {
								// re-aggregation: compare feerates only
								let fr_t = fee_t * 1000 / wt;
								let fr_x = fee_x * 1000 / m.tx.weight().to_wu();
								if fr_t + fr_t / 50 + 2 < fr_x {
									return fail("(c) replacement lowers the feerate", format!("node {} tx {} feerate {} replaces {} feerate {}", n, &txid.to_string()[..8], fr_t, &m.tx.compute_txid().to_string()[..8], fr_x));
								}
								continue;
							}
							let incr = 253 * wt / 1000;
							if fee_t + slack < fee_x {
								return fail("(c) replacement pays less than the transaction it replaces", format!("node {} tx {} fee {} replaces {} fee {} (weight {})", n, &txid.to_string()[..8], fee_t, &m.tx.compute_txid().to_string()[..8], fee_x, wt));
							}
							if fee_t > fee_x + slack {
								st.bumps += 1;
								if fee_t + slack < fee_x + incr {
									return fail("(c) fee bump below previous fee + incremental relay fee", format!("node {} tx {} fee {} replaces {} fee {}, increment needed {} (weight {})", n, &txid.to_string()[..8], fee_t, &m.tx.compute_txid().to_string()[..8], fee_x, incr, wt));
								}
							}
						}
					}
				}
				if !already && !stale {
					let delay = if is_commitment { rng.below(3) as u32 } else { [0u64, 0, 0, 1, 1, 2, 3, 6, 12, 30][rng.below(10) as usize] as u32 };
					w.mempool.push(MemTx { tx, owner: n, seen: w.height, ready: w.height + 1 + delay, prio: rng.next() });
				}
			}
		}

		// ------------------------------------------------------------ per step: state judges
		if let Some(ch) = commit_height {
			for n in 0..2 {
				if !judged(n, c) {
					continue;
				}
				// (a) coverage
				for (vout, hi) in htlc_by_vout.iter() {
					let h = &htlcs[*hi];
					let op = OutPoint { txid: ctxid, vout: *vout };
					if !w.unspent(&op) {
						continue;
					}
					let entitled = if h.from == n { w.height >= h.expiry } else { knows[n].contains(&h.hash) };
					if entitled {
						let covered = w.mempool.iter().any(|m| m.owner == n && m.tx.input.iter().any(|i| i.previous_output == op) && w.valid_now(&m.tx));
						if !covered && std::env::var("C07_EXPLORE_TOLERATE_STALE").is_ok() {
							findings.insert(format!("explore-uncovered-htlc-{}", hi));
						} else if !covered {
							return fail(
								"(a) an output the node is entitled to is not being claimed",
								format!("node {} htlc {} ({}) {} expiry {} height {} commitment confirmed at {}", n, hi, if h.from == n { "outbound" } else { "inbound, preimage known" }, short(&op), h.expiry, w.height, ch),
							);
						}
					}
				}
				// (d) conservation of claimable balances
				let bals = nodes[n].chain_monitor.chain_monitor.get_monitor(chan_id).unwrap().get_claimable_balances();
				{
					for (hi, h) in htlcs.iter().enumerate() {
						if h.from != n && knows[n].contains(&h.hash) && mknown[n].insert(hi) {
							mtrace[n].push(format!("P{}", hi));
						}
					}
					let mut obs: Vec<String> = bals.iter().map(|b| match b {
						Balance::ClaimableAwaitingConfirmations { amount_satoshis, .. } => format!("A{}", amount_satoshis),
						Balance::ContentiousClaimable { amount_satoshis, .. } => format!("C{}", amount_satoshis),
						Balance::MaybeTimeoutClaimableHTLC { amount_satoshis, .. } => format!("T{}", amount_satoshis),
						Balance::MaybePreimageClaimableHTLC { amount_satoshis, .. } => format!("M{}", amount_satoshis),
						_ => "X0".to_string(),
					}).collect();
					obs.sort();
					// which HTLC outputs are being claimed right now by a valid transaction of this node
					let mut covered: Vec<String> = Vec::new();
					for (vout, hi) in htlc_by_vout.iter() {
						let op = OutPoint { txid: ctxid, vout: *vout };
						if w.unspent(&op) && w.mempool.iter().any(|m| m.owner == n && m.tx.input.iter().any(|i| i.previous_output == op) && w.valid_now(&m.tx)) {
							covered.push(hi.to_string());
						}
					}
					mtrace[n].push(format!("O{}#{}#{}", obs.join("."), handed_out[n], covered.join(".")));
				}
				let mut sum = 0u64;
				for b in bals.iter() {
					match counted(b) {
						Some(v) => sum += v,
						None => return fail("(d) channel reported as open after its commitment confirmed", format!("node {} {:?}", n, b)),
					}
					// every entry must be one of the items the node can own
					let amt = match b {
						Balance::ClaimableAwaitingConfirmations { amount_satoshis, source, .. } => {
							if *source == BalanceSource::CoopClose {
								return fail("(d) unilateral close reported as cooperative", format!("node {} {:?}", n, b));
							}
							*amount_satoshis
						},
						Balance::ContentiousClaimable { amount_satoshis, .. }
						| Balance::MaybeTimeoutClaimableHTLC { amount_satoshis, .. }
						| Balance::MaybePreimageClaimableHTLC { amount_satoshis, .. } => *amount_satoshis,
						_ => 0,
					};
					let known_amt = mains[n].map(|m| w.outputs[&m].0.value.to_sat() == amt).unwrap_or(false)
						|| htlc_by_vout.values().any(|i| htlcs[*i].amt_msat / 1000 == amt);
					if !known_amt {
						return fail("(d) balance entry matches no output of the confirmed commitment", format!("node {} {:?}", n, b));
					}
				}
				let mut entitlement = mains[n].map(|m| w.outputs[&m].0.value.to_sat()).unwrap_or(0);
				let mut lost = 0u64;
				for (vout, hi) in htlc_by_vout.iter() {
					let h = &htlcs[*hi];
					let could_win = h.from == n || knows[n].contains(&h.hash);
					if !could_win {
						continue;
					}
					entitlement += h.amt_msat / 1000;
					let op = OutPoint { txid: ctxid, vout: *vout };
					if let Some((by, at)) = w.spent.get(&op) {
						if w.owner.get(by) != Some(&n) && at + ANTI_REORG_DELAY - 1 <= w.height {
							lost += h.amt_msat / 1000;
						}
					}
				}
				if sum + handed_out[n] + lost != entitlement {
					return fail(
						"(d) claimable balances do not add up to the funds still owed to the node",
						format!(
							"node {} height {}: balances {} + handed out as spendable {} + irrevocably taken by counterparty {} != entitlement {}; balances: {:?}",
							n, w.height, sum, handed_out[n], lost, entitlement, bals
						),
					);
				}
			}
		}

		// ------------------------------------------------------------ termination
		let sweep_pending = |n: usize| -> Vec<String> {
			sweepers[n]
				.tracked_spendable_outputs()
				.iter()
				.filter(|o| !matches!(o.status, OutputSpendStatus::PendingThresholdConfirmations { .. }))
				.map(|o| short(&desc_op(&o.descriptor)))
				.collect()
		};
		let all_done = commit_height.is_some()
			&& (0..2).all(|n| nodes[n].chain_monitor.chain_monitor.get_monitor(chan_id).unwrap().get_claimable_balances().is_empty())
			&& chan2.as_ref().map(|(id2, _)| chan2_closed && (0..2).all(|n| nodes[n].chain_monitor.chain_monitor.get_monitor(*id2).unwrap().get_claimable_balances().is_empty())).unwrap_or(true)
			&& (0..2).all(|n| !judged(n, c) || sweep_pending(n).is_empty())
			&& !w.mempool.iter().any(|m| w.valid_now(&m.tx));
		if all_done {
			idle_blocks += 1;
			if idle_blocks > 8 {
				break;
			}
		}
		if w.height - start_height > max_blocks {
			let b: Vec<_> = (0..2).map(|n| nodes[n].chain_monitor.chain_monitor.get_monitor(chan_id).unwrap().get_claimable_balances()).collect();
			if b.iter().all(|x| x.is_empty()) {
				return fail("(e) the OutputSweeper never got the outputs it tracks spent and confirmed", format!("after {} blocks: still pending {:?} {:?}", max_blocks, sweep_pending(0), sweep_pending(1)));
			}
			return fail("(d) claimable balances never drained", format!("after {} blocks: {:?}", max_blocks, b));
		}

		// ------------------------------------------------------------ fee estimator trajectory and timers
		for n in 0..2 {
			let r = rng.below(10);
			fee_est[n] = match r {
				0 => fee_est[n].saturating_mul(2).min(60_000),
				1 => (fee_est[n] / 2).max(100),
				2 => 253 + rng.below(3000) as u32,
				3 => fee_est[n] + rng.below(200) as u32,
				_ => fee_est[n],
			};
			*nodes[n].fee_estimator.sat_per_kw.lock().unwrap() = fee_est[n];
			if rng.below(12) == 0 && commit_height.is_some() {
				nodes[n].chain_monitor.chain_monitor.rebroadcast_pending_claims();
			}
		}
		// timers may have produced broadcasts: they are judged at the top of the next iteration, but
		// must be picked up before the block is built, so loop once more without a block
		let pending_broadcast = (0..2).any(|n| !nodes[n].tx_broadcaster.txn_broadcasted.lock().unwrap().is_empty());
		if pending_broadcast {
			continue;
		}

		// ------------------------------------------------------------ the miner
		let new_height = w.height + 1;
		let mut chosen: Vec<Transaction> = Vec::new();
		let mut in_block: BTreeSet<Txid> = BTreeSet::new();
		let mut block_spent: BTreeSet<OutPoint> = BTreeSet::new();
		let mut order: Vec<usize> = (0..w.mempool.len()).collect();
		order.sort_by_key(|i| w.mempool[*i].prio);
		let mut progress = true;
		while progress {
			progress = false;
			for &i in order.iter() {
				let m = &w.mempool[i];
				let txid = m.tx.compute_txid();
				if in_block.contains(&txid) || m.ready > new_height {
					continue;
				}
				let inputs_ok = m.tx.input.iter().all(|inp| {
					w.unspent(&inp.previous_output)
						&& !block_spent.contains(&inp.previous_output)
						&& match w.outputs.get(&inp.previous_output) {
							Some((_, Some(_))) => true,
							_ => in_block.contains(&inp.previous_output.txid),
						}
				});
				if !inputs_ok || w.final_at(&m.tx, new_height, &in_block).is_err() {
					continue;
				}
				for inp in &m.tx.input {
					block_spent.insert(inp.previous_output);
				}
				in_block.insert(txid);
				chosen.push(m.tx.clone());
				progress = true;
			}
		}
		for n in 0..2 {
			let block = create_dummy_block(nodes[n].best_block_hash(), new_height, chosen.clone());
			connect_block(&nodes[n], &block);
			sweepers[n].block_connected(&block, new_height);
		}
		w.height = new_height;
		st.blocks += 1;
		for tx in chosen.iter() {
			let txid = tx.compute_txid();
			w.confirmed.insert(txid, new_height);
			w.add_outputs(tx, Some(new_height));
			for inp in &tx.input {
				w.spent.insert(inp.previous_output, (txid, new_height));
			}
			if trace {
				println!("T h={} mined {} owner={:?}", new_height, &txid.to_string()[..8], w.owner.get(&txid));
			}
			if tx.input.iter().any(|i| i.previous_output.txid == ctxid) {
				st.claims_confirmed += 1;
			}
			let spends_funding = tx.input.len() == 1 && tx.input[0].previous_output == funding_outpoint;
			if spends_funding && commit_height.is_none() {
				commit_height = Some(new_height);
				if txid != ctxid {
					if prev_mode {
						return fail("harness: a different commitment confirmed in previous-commitment mode", String::new());
					}
					ctxid = txid;
					c = *w.owner.get(&txid).unwrap_or(&c);
				}
				// map the commitment's outputs
				let mut rest: Vec<u32> = Vec::new();
				for (v, o) in tx.output.iter().enumerate() {
					let val = o.value.to_sat();
					let cand: Vec<usize> = htlcs.iter().enumerate().filter(|(_, h)| h.amt_msat / 1000 == val && o.script_pubkey.is_p2wsh()).map(|(i, _)| i).collect();
					if cand.len() == 1 && val >= 354 {
						htlc_by_vout.insert(v as u32, cand[0]);
					} else if (val == 330 && o.script_pubkey.is_p2wsh() && cfg.chan_type == 1) || o.script_pubkey == shared_anchor_script_pubkey() {
					} else {
						rest.push(v as u32);
					}
				}
				for (v, i) in htlc_by_vout.iter() {
					htlcs[*i].vout = Some(*v);
				}
				st.htlc_outputs = htlc_by_vout.len() as u32;
				*descr = describe(&cfg, &htlcs);
				if rest.len() > 2 {
					return fail("harness: cannot map commitment outputs", format!("{:?}", tx.output));
				}
				// expected main balances (coarse, independent of the monitor): initial minus own pending HTLCs
				let mut exp = init_sat;
				for h in htlcs.iter() {
					exp[h.from] -= (h.amt_msat / 1000) as i64;
				}
				let val = |v: u32| tx.output[v as usize].value.to_sat() as i64;
				let mut best: Option<(i64, [Option<u32>; 2])> = None;
				let opts: Vec<[Option<u32>; 2]> = match rest.len() {
					0 => vec![[None, None]],
					1 => vec![[Some(rest[0]), None], [None, Some(rest[0])]],
					_ => vec![[Some(rest[0]), Some(rest[1])], [Some(rest[1]), Some(rest[0])]],
				};
				for o in opts {
					let d: i64 = (0..2).map(|n| o[n].map(|v| (val(v) - exp[n]).abs()).unwrap_or(exp[n].abs().min(6000))).sum();
					if best.as_ref().map(|b| d < b.0).unwrap_or(true) {
						best = Some((d, o));
					}
				}
				let (d, o) = best.unwrap();
				if d > 12_000 {
					return fail("(e) main outputs of the commitment do not match the channel balances", format!("expected about {:?}, outputs {:?}", exp, tx.output.iter().map(|o| o.value.to_sat()).collect::<Vec<_>>()));
				}
				for n in 0..2 {
					mains[n] = o[n].map(|v| OutPoint { txid: ctxid, vout: v });
				}
				for n in 0..2 {
					let mut hash_ids: Vec<PaymentHash> = Vec::new();
					let hs: Vec<String> = htlcs.iter().map(|h| {
						let hid = match hash_ids.iter().position(|x| *x == h.hash) { Some(p) => p, None => { hash_ids.push(h.hash); hash_ids.len() - 1 } };
						format!("{}.{}.{}.{}.{}", (h.from == n) as u8, h.amt_msat / 1000, h.expiry, h.vout.is_some() as u8, hid)
					}).collect();
					for (hi, h) in htlcs.iter().enumerate() {
						if h.from != n && knows[n].contains(&h.hash) {
							mknown[n].insert(hi);
						}
					}
					mtrace[n].push(format!(
						"H{}|{}|{}|{}|{}|{}",
						if n == c { "holder" } else { "counterparty" },
						new_height,
						mains[n].map(|m| tx.output[m.vout as usize].value.to_sat()).unwrap_or(0),
						// the delay on the holder's own outputs is the one its PEER chose
						to_self_delay[1 - n],
						hs.join(","),
						mknown[n].iter().map(|x| x.to_string()).collect::<Vec<_>>().join(",")
					));
				}
				if trace {
					println!("T commitment {} confirmed at {}: htlc outputs {:?} mains {:?}", &ctxid.to_string()[..8], new_height, htlc_by_vout, o);
				}
			}
		}
		if commit_height.is_some() {
			// spends of HTLC outputs in this block (`S`: in the commitment's own block, `B`: a later block)
			let tag = if commit_height == Some(new_height) { "S" } else { "B" };
			for n in 0..2 {
				let mut sp: Vec<String> = Vec::new();
				for tx in chosen.iter() {
					for inp in &tx.input {
						if inp.previous_output.txid == ctxid {
							if let Some(hi) = htlc_by_vout.get(&inp.previous_output.vout) {
								let owner = w.owner.get(&tx.compute_txid()).copied().unwrap_or(9);
								sp.push(format!("{}.{}.{}", hi, (owner == n) as u8, (owner != htlcs[*hi].from) as u8));
							}
						}
					}
				}
				if tag == "B" || !sp.is_empty() {
					mtrace[n].push(format!("{}{}", tag, sp.join(",")));
				}
			}
		}
		w.mempool.retain(|m| !w.confirmed.contains_key(&m.tx.compute_txid()));
		if w.height - start_height > 40 && commit_height.is_none() {
			return fail("harness: commitment never confirmed", String::new());
		}
	}

	// ---------------------------------------------------------------- final judges
	for (vout, hi) in htlc_by_vout.iter() {
		let op = OutPoint { txid: ctxid, vout: *vout };
		match w.spent.get(&op) {
			None => return fail("(a) an HTLC output was never claimed by anyone", format!("htlc {} {}", hi, short(&op))),
			Some((by, _)) => {
				if w.owner.get(by) != Some(&htlcs[*hi].from) && !knows[1 - htlcs[*hi].from].contains(&htlcs[*hi].hash) {
					return fail("harness: HTLC claimed with a preimage nobody was given", format!("htlc {}", hi));
				}
				if w.owner.get(by) != Some(&htlcs[*hi].from) {
					// recipient won
				} else if knows[1 - htlcs[*hi].from].contains(&htlcs[*hi].hash) {
					st.lost_to_counterparty += 1;
				}
			},
		}
	}
	for n in 0..2 {
		if !judged(n, c) {
			continue;
		}
		// (e) the descriptors are exactly the final outputs the node owns
		let mut owned: BTreeSet<OutPoint> = BTreeSet::new();
		if let Some(m) = mains[n] {
			owned.insert(m);
		}
		for (txid, _) in w.confirmed.iter() {
			if w.owner.get(txid) != Some(&n) || *txid == ctxid || sweep_txids.contains(txid) {
				continue;
			}
			let tx = &w.txs[txid];
			let from_chan = tx.input.iter().any(|i| gross_of(&w, &ctxid, &htlc_by_vout, &htlcs, &i.previous_output).is_some() && (htlc_by_vout.contains_key(&i.previous_output.vout) || i.previous_output.txid != ctxid));
			if !from_chan {
				continue;
			}
			for (v, o) in tx.output.iter().enumerate() {
				let op = OutPoint { txid: *txid, vout: v as u32 };
				if wallet_scripts.contains(&o.script_pubkey) || o.script_pubkey.is_op_return() {
					continue;
				}
				if gross_of(&w, &ctxid, &htlc_by_vout, &htlcs, &op).is_none() {
					continue;
				}
				// second stage outputs claimed onwards by the node itself are not final
				if let Some((by, _)) = w.spent.get(&op) {
					if w.owner.get(by) == Some(&n) && !sweep_txids.contains(by) {
						continue;
					}
				}
				owned.insert(op);
			}
		}
		if owned != desc_outpoints[n] {
			let missing: Vec<String> = owned.difference(&desc_outpoints[n]).map(short).collect();
			let extra: Vec<String> = desc_outpoints[n].difference(&owned).map(short).collect();
			return fail(
				"(e) SpendableOutputs do not cover exactly the outputs the node owns on chain",
				format!("node {}: never announced {:?}, announced but not owned {:?}", n, missing, extra),
			);
		}
		// the real OutputSweeper tracked exactly the announced descriptors (of every channel) and each of
		// them was spent by one of its transactions, confirmed on chain
		let tracked: BTreeSet<OutPoint> = sweepers[n].tracked_spendable_outputs().iter().map(|o| desc_op(&o.descriptor)).collect();
		let announced: BTreeSet<OutPoint> = all_desc[n].iter().map(|x| x.0).collect();
		if tracked != announced {
			return fail("(e) the OutputSweeper does not track exactly the announced spendable outputs", format!("node {}: {:?} vs {:?}", n, tracked, announced));
		}
		for (op, _) in all_desc[n].iter() {
			match w.spent.get(op) {
				Some((by, _)) if sweep_txids.contains(by) && w.owner.get(by) == Some(&n) => {},
				other => return fail("(e) a spendable output was not swept by the node's OutputSweeper", format!("node {} {}: {:?}", n, short(op), other)),
			}
		}
		// all of them together, in one sweep
		if !descriptors[n].is_empty() {
			let refs: Vec<&SpendableOutputDescriptor> = descriptors[n].iter().collect();
			let sweep = nodes[n].keys_manager.backing.spend_spendable_outputs(&refs, Vec::new(), ScriptBuf::new_op_return(&[0u8; 4]), 253, None, &secp);
			let sweep = match sweep {
				Ok(t) => t,
				Err(()) => return fail("(e) sweeping all spendable outputs failed", format!("node {}", n)),
			};
			if let Err(e) = sweep.verify(|o| w.outputs.get(o).map(|x| x.0.clone())) {
				return fail("(e) sweep of all spendable outputs is not consensus-valid", format!("node {}: {:?}", n, e));
			}
			let total: u64 = descriptors[n].iter().map(|d| match d {
				SpendableOutputDescriptor::StaticOutput { output, .. } => output.value.to_sat(),
				SpendableOutputDescriptor::DelayedPaymentOutput(x) => x.output.value.to_sat(),
				SpendableOutputDescriptor::StaticPaymentOutput(x) => x.output.value.to_sat(),
			}).sum();
			let out: u64 = sweep.output.iter().map(|o| o.value.to_sat()).sum();
			if out > total || total - out > total / 2 + 2_000 {
				return fail("(e) sweep value inconsistent with the descriptors", format!("node {} descriptors {} swept {}", n, total, out));
			}
		}
	}
	st.findings = findings.into_iter().collect();
	for n in 0..2 {
		if judged(n, c) {
			st.model.push(mtrace[n].join(" "));
		}
	}
	Ok(st)
}

fn run_one(seed: u64, thorough: bool, trace: bool, model: bool) -> String {
	let mut descr = String::from("null");
	let r = panic::catch_unwind(AssertUnwindSafe(|| scenario(seed, thorough, trace, &mut descr)));
	let tier = if thorough { "thorough" } else { "quick" };
	match r {
		Ok(Ok(st)) => format!(
			"R {{\"seed\":{},\"tier\":\"{}\",\"ok\":true,\"cfg\":{},\"stats\":{{\"blocks\":{},\"broadcasts\":{},\"claims_confirmed\":{},\"replacements\":{},\"bumps\":{},\"spendable_events\":{},\"bump_events\":{},\"htlc_outputs\":{},\"lost_to_counterparty\":{},\"spend_checked\":{},\"findings\":[{}]}}{}}}",
			seed, tier, descr, st.blocks, st.broadcasts, st.claims_confirmed, st.replacements, st.bumps, st.spendable_events, st.bump_events, st.htlc_outputs, st.lost_to_counterparty, st.spend_checked,
			st.findings.iter().map(|f| jstr(f)).collect::<Vec<_>>().join(","),
			if model { format!(",\"model\":[{}]", st.model.iter().map(|m| jstr(m)).collect::<Vec<_>>().join(",")) } else { String::new() }
		),
		Ok(Err(f)) if f.why.starts_with("KNOWN:") => format!(
			"R {{\"seed\":{},\"tier\":\"{}\",\"ok\":true,\"aborted\":true,\"cfg\":{},\"stats\":{{\"findings\":[{}]}},\"detail\":{}}}",
			seed, tier, descr, jstr(&f.why[6..]), jstr(&f.detail)
		),
		Ok(Err(f)) => format!(
			"R {{\"seed\":{},\"tier\":\"{}\",\"ok\":false,\"why\":{},\"detail\":{},\"cfg\":{}}}",
			seed, tier, jstr(&f.why), jstr(&f.detail), descr
		),
		Err(_) => {
			let msg = PANIC_MSG.lock().unwrap().clone();
			// Known behaviour F2 (see known_findings.json): duplicate aggregated time-locked HTLC
			// claim on a holder commitment after a late preimage; a debug assertion in debug builds.
			if msg.contains("onchaintx.rs") && msg.contains("self.pending_claim_requests.get(&claim_id).is_none()") {
				return format!(
					"R {{\"seed\":{},\"tier\":\"{}\",\"ok\":true,\"aborted\":true,\"cfg\":{},\"stats\":{{\"findings\":[\"F2-duplicate-timelocked-holder-htlc-claim-after-late-preimage\"]}},\"detail\":{}}}",
					seed, tier, descr, jstr(&msg)
				);
			}
			format!(
				"R {{\"seed\":{},\"tier\":\"{}\",\"ok\":false,\"why\":{},\"detail\":{},\"cfg\":{}}}",
				seed, tier, jstr("panic inside the library or its test utilities"), jstr(&msg), descr
			)
		},
	}
}

fn main() {
	panic::set_hook(Box::new(|info| {
		let mut m = PANIC_MSG.lock().unwrap();
		*m = format!("{}", info);
	}));
	let args: Vec<String> = std::env::args().collect();
	if args.len() >= 4 && args[1] == "run" {
		let first: u64 = args[2].parse().unwrap();
		let count: u64 = args[3].parse().unwrap();
		let thorough = args.get(4).map(|s| s == "thorough").unwrap_or(false);
		let model = args.get(5).map(|s| s == "model").unwrap_or(false);
		// optional time budget (seconds): scenarios not started before it elapsed are reported as skipped
		let budget: Option<u64> = std::env::var("VERIF_DEADLINE_S").ok().and_then(|v| v.parse().ok());
		let t0 = std::time::Instant::now();
		for s in first..first + count {
			if budget.map(|b| t0.elapsed().as_secs() >= b).unwrap_or(false) {
				println!("R {{\"seed\":{},\"ok\":true,\"skipped\":true}}", s);
				continue;
			}
			println!("{}", run_one(s, thorough, false, model));
		}
	} else if args.len() >= 3 && args[1] == "replay" {
		let seed: u64 = args[2].parse().unwrap();
		let thorough = args.get(3).map(|s| s == "thorough").unwrap_or(false);
		println!("{}", run_one(seed, thorough, true, true));
	} else {
		eprintln!("usage: h_onchain run <first_seed> <count> [quick|thorough] | replay <seed> [quick|thorough]");
		std::process::exit(2);
	}
}
