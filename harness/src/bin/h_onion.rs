//! C14 correspondence and implementation-side judge: payment onions, raw Sphinx packets, failure
//! packets, attribution data. One JSON object per input line.
//!
//!   consts
//!   pay sess=<hex32> prng=<hex32> hash=<hex32> height=<u32> hops=<seed:scid:fee:cltv>,.. secret=<hex32|-> total=<u64>
//!       meta=<hex|-> tlvs=<type:hex;..|-> keysend=<hex32|-> tamper=<hop,hop|-> tstep=<k>
//!   raw noise=<hex> ad=<hex32|-> hops=<ss:payload>,..            (payload: serialized, with its length prefix)
//!   peel ss=<hex32> ad=<hex32|-> data=<hex> hmac=<hex32>
//!   keys sess=<hex32> hops=<seed:scid>,..
//!   fail sess=<hex32> hops=<seed:scid>,.. at=<i> code=<u16> data=<hex> holds=<t0,..,ti> tstep=<k|0>
//!   fulfill sess=<hex32> hops=<seed:scid>,.. holds=<t0,..>
use std::collections::HashMap;

use bitcoin::hashes::hmac::{Hmac, HmacEngine};
use bitcoin::hashes::sha256::Hash as Sha256;
use bitcoin::hashes::{Hash, HashEngine};
use bitcoin::secp256k1::{PublicKey, Secp256k1, SecretKey};

use lightning::ln::channelmanager::PendingHTLCRouting;
use lightning::ln::msgs::{OnionPacket, UpdateAddHTLC};
use lightning::ln::onion_payment::peel_payment_onion;
use lightning::ln::onion_utils::verif_hooks_onion as vh;
use lightning::ln::onion_utils::create_payment_onion;
use lightning::ln::outbound_payment::{RecipientCustomTlvs, RecipientOnionFields};
use lightning::ln::types::ChannelId;
use lightning::routing::router::{Path, RouteHop};
use lightning::sign::{KeysManager, NodeSigner, Recipient};
use lightning::types::features::{ChannelFeatures, NodeFeatures};
use lightning::types::payment::{PaymentHash, PaymentPreimage, PaymentSecret};
use lightning::util::logger::{Logger, Record};

use verif_harness::*;

/// A logger that drops everything (stdout carries the result lines).
struct NoLog;
impl Logger for NoLog {
	fn log(&self, _record: Record) {}
}

/// A logger that keeps the messages, to read which node the sender names in "Onion Error[from <node>: ..".
struct CapLog(std::sync::Mutex<Vec<String>>);
impl Logger for CapLog {
	fn log(&self, record: Record) {
		self.0.lock().unwrap().push(format!("{}", record.args));
	}
}
impl CapLog {
	fn new() -> Self {
		CapLog(std::sync::Mutex::new(Vec::new()))
	}
	/// index in `path` of the node named by the last "Onion Error[from ..", "Unreadable failure from .." or
	/// "Missing error code in failure from .." message
	fn blamed(&self, path: &Path) -> Option<usize> {
		let msgs = self.0.lock().unwrap();
		for m in msgs.iter().rev() {
			for pat in ["Onion Error[from ", "Unreadable failure from ", "Missing error code in failure from "] {
				if let Some(pos) = m.find(pat) {
					let node = &m[pos + pat.len()..];
					let node: String = node.chars().take_while(|c| c.is_ascii_hexdigit()).collect();
					return path.hops.iter().position(|h| hex(&h.pubkey.serialize()) == node);
				}
			}
		}
		None
	}
}

fn kv(l: &str) -> HashMap<String, String> {
	l.split_whitespace()
		.skip(1)
		.filter_map(|t| t.split_once('=').map(|(a, b)| (a.to_string(), b.to_string())))
		.collect()
}

fn arr32(s: &str) -> [u8; 32] {
	let v = unhex(s);
	let mut a = [0u8; 32];
	a.copy_from_slice(&v[..32]);
	a
}

fn opt_hex(s: &str) -> Option<Vec<u8>> {
	if s == "-" {
		None
	} else {
		Some(unhex(s))
	}
}

fn js(s: &str) -> String {
	format!("\"{}\"", s)
}

fn jopt(o: &Option<Vec<u8>>) -> String {
	match o {
		Some(v) => js(&hex(v)),
		None => "null".to_string(),
	}
}

fn jlist(v: &[String]) -> String {
	format!("[{}]", v.join(","))
}

struct Node {
	km: KeysManager,
	id: PublicKey,
}

fn node(seed_hex: &str) -> Node {
	let km = KeysManager::new(&arr32(seed_hex), 42, 42, true);
	let id = km.get_node_id(Recipient::Node).unwrap();
	Node { km, id }
}

fn route_hop(n: &Node, scid: u64, fee: u64, cltv: u32) -> RouteHop {
	RouteHop {
		pubkey: n.id,
		node_features: NodeFeatures::empty(),
		short_channel_id: scid,
		channel_features: ChannelFeatures::empty(),
		fee_msat: fee,
		cltv_expiry_delta: cltv,
		maybe_announced_channel: true,
	}
}

fn gen_key(tag: &[u8], ss: &[u8; 32]) -> [u8; 32] {
	let mut h = HmacEngine::<Sha256>::new(tag);
	h.input(ss);
	Hmac::from_engine(h).to_byte_array()
}

fn update_add(amount_msat: u64, cltv_expiry: u32, hash: PaymentHash, onion: OnionPacket) -> UpdateAddHTLC {
	UpdateAddHTLC {
		channel_id: ChannelId([0; 32]),
		htlc_id: 0,
		amount_msat,
		payment_hash: hash,
		cltv_expiry,
		skimmed_fee_msat: None,
		onion_routing_packet: onion,
		blinding_point: None,
		hold_htlc: None,
		accountable: None,
	}
}

/// Flips every `step`-th bit of (version | pubkey | hop_data | hmac | payment_hash) of the HTLC that
/// arrives at `n`; returns (bits tried, positions that were NOT rejected).
fn tamper(msg: &UpdateAddHTLC, n: &Node, height: u32, step: usize) -> (usize, Vec<String>) {
	let secp = Secp256k1::new();
	let logger = NoLog;
	let pk = msg.onion_routing_packet.public_key.unwrap().serialize();
	let mut flat: Vec<u8> = vec![msg.onion_routing_packet.version];
	flat.extend_from_slice(&pk);
	flat.extend_from_slice(&msg.onion_routing_packet.hop_data);
	flat.extend_from_slice(&msg.onion_routing_packet.hmac);
	flat.extend_from_slice(&msg.payment_hash.0);
	let nbits = flat.len() * 8;
	let mut tried = 0;
	let mut accepted = Vec::new();
	let mut bit = 0;
	while bit < nbits {
		let mut f = flat.clone();
		f[bit / 8] ^= 1 << (bit % 8);
		let mut m = msg.clone();
		m.onion_routing_packet.version = f[0];
		m.onion_routing_packet.public_key = PublicKey::from_slice(&f[1..34]);
		m.onion_routing_packet.hop_data.copy_from_slice(&f[34..34 + 1300]);
		m.onion_routing_packet.hmac.copy_from_slice(&f[1334..1366]);
		m.payment_hash.0.copy_from_slice(&f[1366..1398]);
		tried += 1;
		if peel_payment_onion(&m, &n.km, &logger, &secp, height, false).is_ok() {
			let field = if bit < 8 {
				"version"
			} else if bit < 34 * 8 {
				"pubkey"
			} else if bit < 1334 * 8 {
				"hop_data"
			} else if bit < 1366 * 8 {
				"hmac"
			} else {
				"payment_hash"
			};
			accepted.push(format!("\"{}:{}\"", field, bit));
		}
		bit += step;
	}
	(tried, accepted)
}

fn do_pay(a: &HashMap<String, String>) -> String {
	let secp = Secp256k1::new();
	let logger = NoLog;
	let sess = SecretKey::from_slice(&arr32(&a["sess"])).unwrap();
	let prng = arr32(&a["prng"]);
	let hash = PaymentHash(arr32(&a["hash"]));
	let height: u32 = a["height"].parse().unwrap();
	let mut nodes = Vec::new();
	let mut hops = Vec::new();
	for h in a["hops"].split(',') {
		let p: Vec<&str> = h.split(':').collect();
		let n = node(p[0]);
		hops.push(route_hop(&n, p[1].parse().unwrap(), p[2].parse().unwrap(), p[3].parse().unwrap()));
		nodes.push(n);
	}
	let path = Path { hops: hops.clone(), blinded_tail: None };
	let total: u64 = a["total"].parse().unwrap();
	let mut rof = match a["secret"].as_str() {
		"-" => RecipientOnionFields::spontaneous_empty(total),
		s => RecipientOnionFields::secret_only(PaymentSecret(arr32(s)), total),
	};
	rof.payment_metadata = opt_hex(&a["meta"]);
	if a["tlvs"] != "-" {
		let tlvs: Vec<(u64, Vec<u8>)> = a["tlvs"]
			.split(';')
			.map(|t| {
				let (ty, v) = t.split_once(':').unwrap();
				(ty.parse().unwrap(), unhex(v))
			})
			.collect();
		match RecipientCustomTlvs::new(tlvs) {
			Ok(t) => rof = rof.with_custom_tlvs(t),
			Err(()) => return "{\"kind\":\"pay\",\"built\":false,\"why\":\"custom tlvs refused\"}".to_string(),
		}
	}
	let keysend = if a["keysend"] == "-" { None } else { Some(PaymentPreimage(arr32(&a["keysend"]))) };

	let (keys, keys2) = vh::hop_keys(&secp, &path, &sess);
	let keys_json: Vec<String> = keys
		.iter()
		.map(|k| {
			format!(
				"{{\"ss\":{},\"eph\":{},\"rho\":{},\"mu\":{}}}",
				js(&hex(&k.shared_secret)),
				js(&hex(&k.ephemeral_pubkey.serialize())),
				js(&hex(&k.rho)),
				js(&hex(&k.mu))
			)
		})
		.collect();
	let mut judge: Vec<String> = Vec::new();
	for (k, (eph, rho, mu)) in keys.iter().zip(keys2.iter()) {
		if k.ephemeral_pubkey != *eph || k.rho != *rho || k.mu != *mu {
			judge.push(js("construct_onion_keys disagrees with construct_onion_keys_generic"));
		}
	}
	let payloads = vh::payment_payloads(&path, &rof, height, &keysend);
	let (payloads_json, payload_total) = match &payloads {
		Ok((p, _, _)) => (
			jlist(&p.iter().map(|x| js(&hex(x))).collect::<Vec<_>>()),
			p.iter().map(|x| x.len() + 32).sum::<usize>(),
		),
		Err(_) => ("null".to_string(), 0),
	};
	let onion = create_payment_onion(&secp, &path, &sess, &rof, height, &hash, &keysend, None, prng);
	let (packet, htlc_msat, htlc_cltv) = match onion {
		Ok(x) => x,
		Err(e) => {
			// judge: building may fail only when the payloads do not fit (or payloads refused)
			let fits = payloads.is_ok() && payload_total <= 1300;
			if fits {
				judge.push(js("create_payment_onion failed although the payloads fit"));
			}
			return format!(
				"{{\"kind\":\"pay\",\"built\":false,\"why\":{},\"keys\":{},\"payloads\":{},\"payload_total\":{},\"judge\":{}}}",
				js(&format!("{:?}", e).replace('"', "'")),
				jlist(&keys_json),
				payloads_json,
				payload_total,
				jlist(&judge)
			);
		},
	};
	if payload_total > 1300 {
		judge.push(js("create_payment_onion succeeded although the payloads exceed the packet"));
	}
	if packet.public_key != Ok(keys[0].ephemeral_pubkey) {
		judge.push(js("packet ephemeral key is not the first hop's"));
	}
	// expected per-hop instructions, computed from the route alone
	let n = hops.len();
	let mut exp_amt = vec![0u64; n];
	let mut exp_cltv = vec![0u32; n];
	for i in 0..n {
		exp_amt[i] = if i + 1 < n { hops[i + 1..].iter().map(|h| h.fee_msat).sum() } else { hops[n - 1].fee_msat };
		exp_cltv[i] = if i + 1 < n {
			height + hops[i + 1..].iter().map(|h| h.cltv_expiry_delta).sum::<u32>()
		} else {
			height + hops[n - 1].cltv_expiry_delta
		};
	}
	if htlc_msat != hops.iter().map(|h| h.fee_msat).sum::<u64>() {
		judge.push(js("first-hop amount is not the sum of the hop fees and the final value"));
	}
	if htlc_cltv != height + hops.iter().map(|h| h.cltv_expiry_delta).sum::<u32>() {
		judge.push(js("first-hop cltv is not height + sum of deltas"));
	}
	let tamper_hops: Vec<usize> =
		if a["tamper"] == "-" { vec![] } else { a["tamper"].split(',').map(|x| x.parse().unwrap()).collect() };
	let tstep: usize = a.get("tstep").map(|s| s.parse().unwrap()).unwrap_or(1);
	let mut tamper_json = Vec::new();
	// walk the route
	let mut msg = update_add(htlc_msat, htlc_cltv, hash, packet.clone());
	let mut peels = Vec::new();
	for i in 0..n {
		if msg.onion_routing_packet.hop_data.len() != 1300 {
			judge.push(js("packet size changed in flight"));
		}
		if tamper_hops.contains(&i) {
			let (tried, acc) = tamper(&msg, &nodes[i], height, tstep);
			if !acc.is_empty() {
				judge.push(format!("\"hop {} accepted {} corrupted packets\"", i, acc.len()));
			}
			tamper_json.push(format!("{{\"hop\":{},\"tried\":{},\"accepted\":{}}}", i, tried, jlist(&acc)));
		}
		// raw peel of the same packet (payload bytes and next packet, uninterpreted)
		let raw = vh::decode_next_hop_raw(
			keys[i].shared_secret,
			&msg.onion_routing_packet.hop_data,
			msg.onion_routing_packet.hmac,
			Some(hash.0),
		);
		let raw_json = match &raw {
			Ok((p, None)) => format!("{{\"payload\":{},\"next\":null}}", js(&hex(p))),
			Ok((p, Some((h, d)))) => {
				format!("{{\"payload\":{},\"next\":{}}}", js(&hex(p)), js(&format!("{}:{}", hex(d), hex(h))))
			},
			Err(e) => format!("{{\"err\":{}}}", js(e)),
		};
		let res = peel_payment_onion(&msg, &nodes[i].km, &logger, &secp, height, false);
		match res {
			Err(e) => {
				judge.push(format!("\"hop {} rejected the authentic packet: {:?} {}\"", i, e.reason, e.msg));
				peels.push(format!("{{\"hop\":{},\"raw\":{},\"err\":{}}}", i, raw_json, js(&format!("{:?}", e.reason))));
				break;
			},
			Ok(info) => {
				if info.incoming_shared_secret != keys[i].shared_secret {
					judge.push(format!("\"hop {} derived a different shared secret than the sender\"", i));
				}
				match info.routing {
					PendingHTLCRouting::Forward { onion_packet, short_channel_id, .. } => {
						if i + 1 >= n {
							judge.push(js("last hop was told to forward"));
						} else {
							if short_channel_id != hops[i + 1].short_channel_id {
								judge.push(format!("\"hop {} got scid {} instead of {}\"", i, short_channel_id, hops[i + 1].short_channel_id));
							}
							if onion_packet.public_key != Ok(keys[i + 1].ephemeral_pubkey) {
								judge.push(format!("\"hop {} computed a next ephemeral key the sender did not\"", i));
							}
						}
						if info.outgoing_amt_msat != exp_amt[i] {
							judge.push(format!("\"hop {} got amount {} instead of {}\"", i, info.outgoing_amt_msat, exp_amt[i]));
						}
						if info.outgoing_cltv_value != exp_cltv[i] {
							judge.push(format!("\"hop {} got cltv {} instead of {}\"", i, info.outgoing_cltv_value, exp_cltv[i]));
						}
						if let Ok((_, Some((h, d)))) = &raw {
							if h[..] != onion_packet.hmac[..] || d[..] != onion_packet.hop_data[..] {
								judge.push(format!("\"hop {}: peel_payment_onion and decode_next_hop produce different next packets\"", i));
							}
						} else {
							judge.push(format!("\"hop {}: raw decode did not forward\"", i));
						}
						peels.push(format!(
							"{{\"hop\":{},\"raw\":{},\"fwd\":{{\"scid\":{},\"amt\":{},\"cltv\":{},\"next\":{}}}}}",
							i,
							raw_json,
							short_channel_id,
							info.outgoing_amt_msat,
							info.outgoing_cltv_value,
							js(&format!("{}:{}", hex(&onion_packet.hop_data), hex(&onion_packet.hmac)))
						));
						msg = update_add(info.outgoing_amt_msat, info.outgoing_cltv_value, hash, onion_packet);
					},
					PendingHTLCRouting::Receive { payment_data, payment_metadata, custom_tlvs, .. } => {
						if i + 1 != n {
							judge.push(format!("\"hop {} believed to be final\"", i));
						}
						if Some(payment_data.payment_secret) != rof.payment_secret || payment_data.total_msat != total {
							judge.push(js("final hop got a different payment secret / total"));
						}
						if payment_metadata != rof.payment_metadata {
							judge.push(js("final hop got different payment metadata"));
						}
						if &custom_tlvs != rof.custom_tlvs() {
							judge.push(js("final hop got different custom TLVs"));
						}
						if info.outgoing_amt_msat != exp_amt[i] || info.outgoing_cltv_value != exp_cltv[i] {
							judge.push(js("final hop got a different amount / expiry"));
						}
						if !matches!(raw, Ok((_, None))) {
							judge.push(js("raw decode of the final packet is not final"));
						}
						peels.push(format!(
							"{{\"hop\":{},\"raw\":{},\"recv\":{{\"amt\":{},\"cltv\":{},\"meta\":{},\"ntlvs\":{}}}}}",
							i,
							raw_json,
							info.outgoing_amt_msat,
							info.outgoing_cltv_value,
							jopt(&payment_metadata),
							custom_tlvs.len()
						));
						break;
					},
					PendingHTLCRouting::ReceiveKeysend { payment_preimage, payment_metadata, custom_tlvs, payment_data, .. } => {
						if i + 1 != n {
							judge.push(format!("\"hop {} believed to be final\"", i));
						}
						if Some(payment_preimage) != keysend {
							judge.push(js("final hop got a different keysend preimage"));
						}
						if payment_data.map(|d| d.payment_secret) != rof.payment_secret {
							judge.push(js("final hop got a different payment secret"));
						}
						if payment_metadata != rof.payment_metadata || &custom_tlvs != rof.custom_tlvs() {
							judge.push(js("final hop got different metadata / custom TLVs"));
						}
						if info.outgoing_amt_msat != exp_amt[i] || info.outgoing_cltv_value != exp_cltv[i] {
							judge.push(js("final hop got a different amount / expiry"));
						}
						peels.push(format!(
							"{{\"hop\":{},\"raw\":{},\"keysend\":{{\"amt\":{},\"cltv\":{}}}}}",
							i, raw_json, info.outgoing_amt_msat, info.outgoing_cltv_value
						));
						break;
					},
					_ => {
						judge.push(format!("\"hop {} got an unexpected routing kind\"", i));
						break;
					},
				}
			},
		}
	}
	if peels.len() != n {
		judge.push(js("the route was not walked to its end"));
	}
	format!(
		"{{\"kind\":\"pay\",\"built\":true,\"keys\":{},\"payloads\":{},\"payload_total\":{},\"packet\":{},\"htlc_msat\":{},\"htlc_cltv\":{},\"peels\":{},\"tamper\":{},\"judge\":{}}}",
		jlist(&keys_json),
		payloads_json,
		payload_total,
		js(&format!("{}:{}", hex(&packet.hop_data), hex(&packet.hmac))),
		htlc_msat,
		htlc_cltv,
		jlist(&peels),
		jlist(&tamper_json),
		jlist(&judge)
	)
}

fn do_raw(a: &HashMap<String, String>) -> String {
	let noise = unhex(&a["noise"]);
	let ad = opt_hex(&a["ad"]).map(|v| arr32(&hex(&v)));
	let mut sss = Vec::new();
	let mut payloads = Vec::new();
	if a["hops"] != "-" {
		for h in a["hops"].split(',') {
			let (ss, p) = h.split_once(':').unwrap();
			sss.push(arr32(ss));
			payloads.push(unhex(p));
		}
	}
	let rho_mu: Vec<([u8; 32], [u8; 32])> = sss.iter().map(|ss| (gen_key(b"rho", ss), gen_key(b"mu", ss))).collect();
	let total: usize = payloads.iter().map(|p| p.len() + 32).sum();
	let mut judge: Vec<String> = Vec::new();
	let built = vh::construct_raw(payloads.clone(), rho_mu, noise.clone(), ad);
	let fits = !payloads.is_empty() && total <= noise.len();
	match built {
		Err(()) => {
			if fits {
				judge.push(js("construction failed although the payloads fit"));
			}
			format!("{{\"kind\":\"raw\",\"built\":false,\"judge\":{}}}", jlist(&judge))
		},
		Ok((data, hmac)) => {
			if !fits {
				judge.push(js("construction succeeded although the payloads do not fit"));
			}
			let packet = format!("{}:{}", hex(&data), hex(&hmac));
			let mut peels = Vec::new();
			let (mut d, mut h) = (data, hmac);
			for i in 0..sss.len() {
				if d.len() != noise.len() {
					judge.push(js("packet size changed in flight"));
				}
				match vh::decode_next_hop_raw(sss[i], &d, h, ad) {
					Err(e) => {
						judge.push(format!("\"hop {} rejected the authentic packet: {}\"", i, e));
						peels.push(js(&format!("E:{}", e)));
						break;
					},
					Ok((p, next)) => {
						// the payload as serialized by the sender is BigSize(len) | content
						let want = &payloads[i];
						let mut framed = Vec::new();
						framed.extend_from_slice(&want[..want.len() - p.len().min(want.len())]);
						framed.extend_from_slice(&p);
						if &framed != want {
							judge.push(format!("\"hop {} decoded a payload the sender did not put there\"", i));
						}
						match next {
							None => {
								if i + 1 != sss.len() {
									judge.push(format!("\"hop {} believed to be final\"", i));
								}
								peels.push(js(&format!("F:{}", hex(&p))));
								break;
							},
							Some((nh, nd)) => {
								if i + 1 == sss.len() {
									judge.push(js("last hop was told to forward"));
								}
								peels.push(js(&format!("N:{}:{}:{}", hex(&p), hex(&nd), hex(&nh))));
								d = nd;
								h = nh;
							},
						}
					},
				}
			}
			if peels.len() != sss.len() {
				judge.push(js("the route was not walked to its end"));
			}
			format!(
				"{{\"kind\":\"raw\",\"built\":true,\"packet\":{},\"peels\":{},\"judge\":{}}}",
				js(&packet),
				jlist(&peels),
				jlist(&judge)
			)
		},
	}
}

/// `peel ss=<hex32> ad=<hex32|-> data=<hex> hmac=<hex32>`: one `decode_next_hop` on explicit bytes.
fn do_peel(a: &HashMap<String, String>) -> String {
	let ad = opt_hex(&a["ad"]).map(|v| arr32(&hex(&v)));
	let r = match vh::decode_next_hop_raw(arr32(&a["ss"]), &unhex(&a["data"]), arr32(&a["hmac"]), ad) {
		Err(e) => format!("E:{}", e),
		Ok((p, None)) => format!("F:{}", hex(&p)),
		Ok((p, Some((nh, nd)))) => format!("N:{}:{}:{}", hex(&p), hex(&nd), hex(&nh)),
	};
	format!("{{\"kind\":\"peel\",\"res\":{}}}", js(&r))
}

fn parse_path(a: &HashMap<String, String>) -> (Vec<Node>, Path) {
	let mut nodes = Vec::new();
	let mut hops = Vec::new();
	for h in a["hops"].split(',') {
		let p: Vec<&str> = h.split(':').collect();
		let n = node(p[0]);
		hops.push(route_hop(&n, p[1].parse().unwrap(), 1000, 50));
		nodes.push(n);
	}
	(nodes, Path { hops, blinded_tail: None })
}

/// `keys sess=<hex32> hops=<seed:scid>,..`: the per-hop shared secrets of a path.
fn do_keys(a: &HashMap<String, String>) -> String {
	let secp = Secp256k1::new();
	let sess = SecretKey::from_slice(&arr32(&a["sess"])).unwrap();
	let (_nodes, path) = parse_path(a);
	let (keys, _) = vh::hop_keys(&secp, &path, &sess);
	format!("{{\"kind\":\"keys\",\"ss\":{}}}", jlist(&keys.iter().map(|k| js(&hex(&k.shared_secret))).collect::<Vec<_>>()))
}

fn decoded_json(d: &vh::DecodedFailure, path: &Path, blamed: Option<usize>) -> (String, Option<usize>, Vec<String>) {
	// Which hop does the sender blame?  Primary: the node named in its log line.  The public fields of the
	// result must be consistent with that hop.
	let n = path.hops.len();
	let by_node = d.failed_node.and_then(|id| path.hops.iter().position(|h| h.pubkey == id));
	let mut inconsistent = Vec::new();
	if let Some(i) = blamed {
		if let Some(b) = by_node {
			if b != i {
				inconsistent.push(js("network update names a different node than the log"));
			}
		}
		let own = path.hops[i].short_channel_id;
		let next = if i + 1 < n { path.hops[i + 1].short_channel_id } else { own };
		if let Some(c) = d.failed_channel {
			if c != next {
				inconsistent.push(js("channel failure names a channel that is not the blamed hop's outbound channel"));
			}
		}
		if let Some(c) = d.short_channel_id {
			if c != own && c != next {
				inconsistent.push(js("short_channel_id is not a channel of the blamed hop"));
			}
		}
		if !d.hold_times.is_empty() && d.hold_times.len() != (i + 1).min(20) {
			inconsistent.push(js("number of hold times does not match the blamed hop"));
		}
	}
	(
		format!(
			"{{\"code\":{},\"data\":{},\"hold_times\":[{}],\"scid\":{},\"failed_node_idx\":{},\"failed_chan\":{},\"perm\":{},\"unattributed\":{},\"hop\":{}}}",
			d.code.map(|c| c.to_string()).unwrap_or("null".into()),
			jopt(&d.data),
			d.hold_times.iter().map(|t| t.to_string()).collect::<Vec<_>>().join(","),
			d.short_channel_id.map(|c| c.to_string()).unwrap_or("null".into()),
			by_node.map(|c| c.to_string()).unwrap_or("null".into()),
			d.failed_channel.map(|c| c.to_string()).unwrap_or("null".into()),
			d.payment_failed_permanently,
			d.unattributed,
			blamed.map(|c| c.to_string()).unwrap_or("null".into())
		),
		blamed,
		inconsistent,
	)
}

fn do_fail(a: &HashMap<String, String>) -> String {
	let secp = Secp256k1::new();
	let logger = NoLog;
	let sess = SecretKey::from_slice(&arr32(&a["sess"])).unwrap();
	let (_nodes, path) = parse_path(a);
	let at: usize = a["at"].parse().unwrap();
	let code: u16 = a["code"].parse().unwrap();
	let data = unhex(&a["data"]);
	let holds: Vec<u32> = a["holds"].split(',').map(|x| x.parse().unwrap()).collect();
	let tstep: usize = a.get("tstep").map(|s| s.parse().unwrap()).unwrap_or(0);
	let (keys, _) = vh::hop_keys(&secp, &path, &sess);
	let mut judge: Vec<String> = Vec::new();
	let mut stages = Vec::new();
	let (mut d, mut at_data) = vh::build_failure(&keys[at].shared_secret, code, &data, holds[at]);
	stages.push(js(&format!("{}:{}", hex(&d), at_data.as_ref().map(|x| hex(x)).unwrap_or("-".into()))));
	for j in (0..at).rev() {
		let via = vh::wrap_failure_via_reason(&keys[j].shared_secret, d.clone(), at_data.clone(), holds[j]);
		let (d2, a2) = vh::wrap_failure(&keys[j].shared_secret, d, at_data, holds[j]);
		if via != (d2.clone(), a2.clone()) {
			judge.push(js("get_encrypted_failure_packet differs from process_failure_packet + crypt_failure_packet"));
		}
		d = d2;
		at_data = a2;
		stages.push(js(&format!("{}:{}", hex(&d), at_data.as_ref().map(|x| hex(x)).unwrap_or("-".into()))));
	}
	let cap = CapLog::new();
	let dec = vh::process_failure(&secp, &cap, &path, &sess, d.clone(), at_data.clone());
	let (dec_json, hop, inconsistent) = decoded_json(&dec, &path, cap.blamed(&path));
	judge.extend(inconsistent);
	if dec.unattributed {
		judge.push(js("the sender could not attribute an authentic failure"));
	}
	if dec.code != Some(code) {
		judge.push(format!("\"sender decoded code {:?} instead of {}\"", dec.code, code));
	}
	if dec.data.as_ref() != Some(&data) {
		judge.push(js("sender decoded different failure data"));
	}
	if hop != Some(at) {
		judge.push(format!("\"failure of hop {} attributed to {:?}\"", at, hop));
	}
	let want_holds: Vec<u32> = holds[..=at].iter().cloned().take(20).collect();
	if at_data.is_some() && dec.hold_times != want_holds {
		judge.push(format!("\"hold times {:?} instead of {:?}\"", dec.hold_times, want_holds));
	}
	// corrupted failure packets must not be attributed with a valid HMAC
	let mut tampered = 0;
	let mut tamper_bad = Vec::new();
	if tstep > 0 {
		let mut bit = 0;
		while bit < d.len() * 8 {
			let mut f = d.clone();
			f[bit / 8] ^= 1 << (bit % 8);
			let r = vh::process_failure(&secp, &logger, &path, &sess, f, at_data.clone());
			tampered += 1;
			if !r.unattributed {
				tamper_bad.push(bit.to_string());
			}
			bit += tstep;
		}
		if !tamper_bad.is_empty() {
			judge.push(format!("\"{} corrupted failure packets were attributed to a hop\"", tamper_bad.len()));
		}
	}
	format!(
		"{{\"kind\":\"fail\",\"stages\":{},\"decoded\":{},\"tampered\":{},\"tamper_attributed\":{},\"judge\":{}}}",
		jlist(&stages),
		dec_json,
		tampered,
		jlist(&tamper_bad),
		jlist(&judge)
	)
}

fn do_decode(a: &HashMap<String, String>) -> String {
	let secp = Secp256k1::new();
	let sess = SecretKey::from_slice(&arr32(&a["sess"])).unwrap();
	let (_nodes, path) = parse_path(a);
	let cap = CapLog::new();
	let dec = vh::process_failure(&secp, &cap, &path, &sess, unhex(&a["data"]), opt_hex(&a["attr"]));
	let (dec_json, _, _) = decoded_json(&dec, &path, cap.blamed(&path));
	format!("{{\"kind\":\"decode\",\"decoded\":{}}}", dec_json)
}

fn do_fulfill(a: &HashMap<String, String>) -> String {
	let secp = Secp256k1::new();
	let logger = NoLog;
	let sess = SecretKey::from_slice(&arr32(&a["sess"])).unwrap();
	let (_nodes, path) = parse_path(a);
	let holds: Vec<u32> = a["holds"].split(',').map(|x| x.parse().unwrap()).collect();
	let (keys, _) = vh::hop_keys(&secp, &path, &sess);
	let n = path.hops.len();
	let mut judge: Vec<String> = Vec::new();
	let mut stages = Vec::new();
	let mut cur: Option<Vec<u8>> = None;
	for j in (0..n).rev() {
		let next = vh::fulfill_attribution(cur, &keys[j].shared_secret, holds[j]);
		stages.push(js(&hex(&next)));
		cur = Some(next);
	}
	let got = vh::decode_fulfill(&secp, &logger, &path, &sess, cur.unwrap());
	let want: Vec<u32> = holds.iter().cloned().take(20).collect();
	if got != want {
		judge.push(format!("\"fulfil hold times {:?} instead of {:?}\"", got, want));
	}
	format!(
		"{{\"kind\":\"fulfill\",\"stages\":{},\"hold_times\":[{}],\"judge\":{}}}",
		jlist(&stages),
		got.iter().map(|t| t.to_string()).collect::<Vec<_>>().join(","),
		jlist(&judge)
	)
}

fn main() {
	for_each_case(|l| {
		let cmd = l.split_whitespace().next().unwrap();
		let a = kv(l);
		match cmd {
			"consts" => format!(
				"{{{}}}",
				vh::constants().iter().map(|(n, v)| format!("\"{}\":{}", n, v)).collect::<Vec<_>>().join(",")
			),
			"pay" => do_pay(&a),
			"raw" => do_raw(&a),
			"peel" => do_peel(&a),
			"keys" => do_keys(&a),
			"fail" => do_fail(&a),
			"decode" => do_decode(&a),
			"fulfill" => do_fulfill(&a),
			_ => "{\"kind\":\"badcmd\"}".to_string(),
		}
	});
}
