//! C14 correspondence and implementation-side judge: payment onions, raw Sphinx packets, failure
//! packets, attribution data. One JSON object per input line.
//!
//!   consts
//!   pay sess=<hex32> prng=<hex32> hash=<hex32> height=<u32> hops=<seed:scid:fee:cltv>,.. secret=<hex32|-> total=<u64>
//!       meta=<hex|-> tlvs=<type:hex;..|-> keysend=<hex32|-> tamper=<hop,hop|-> tstep=<k>
//!   raw noise=<hex> ad=<hex32|-> hops=<ss:payload>,..            (payload: serialized, with its length prefix)
//!   peel ss=<hex32> ad=<hex32|-> data=<hex> hmac=<hex32>
//!   keys sess=<hex32> hops=<seed:scid>,..
//!   fail sess=<hex32> hops=<seed:scid>,.. at=<i> code=<u16> data=<hex> holds=<t0,..,ti> tstep=<k|0>
//!   failb sess=<hex32> hops=<seed:scid>,.. at=<i> code=<u16> plen=<n> legacy=<0|1> holds=<t0,..,ti>
//!   rcpt ..  (see do_rcpt; excess=<u32> is the route's excess_final_cltv_expiry_delta)
//!   fulfill sess=<hex32> hops=<seed:scid>,.. holds=<t0,..>
use std::collections::HashMap;

use bitcoin::hashes::hmac::{Hmac, HmacEngine};
use bitcoin::hashes::sha256::Hash as Sha256;
use bitcoin::hashes::{Hash, HashEngine};
use bitcoin::secp256k1::{PublicKey, Secp256k1, SecretKey};

use lightning::blinded_path::payment::{
	BlindedPaymentPath, Bolt12RefundContext, ForwardTlvs, PaymentConstraints, PaymentContext,
	PaymentForwardNode, PaymentRelay, ReceiveTlvs,
};
use lightning::ln::channelmanager::{PaymentId, PendingHTLCRouting};
use lightning::ln::inbound_payment::ExpandedKey;
use lightning::offers::invoice_request::InvoiceRequest;
use lightning::offers::nonce::Nonce;
use lightning::offers::offer::OfferBuilder;
use lightning::routing::router::BlindedTail;
use lightning::types::features::BlindedHopFeatures;
use lightning::util::ser::Writeable;
use lightning::ln::msgs::{OnionPacket, UpdateAddHTLC};
use lightning::ln::onion_payment::peel_payment_onion;
use lightning::ln::onion_utils::verif_hooks_onion as vh;
use lightning::ln::onion_utils::create_payment_onion;
use lightning::ln::outbound_payment::{RecipientCustomTlvs, RecipientOnionFields};
use lightning::ln::types::ChannelId;
use lightning::routing::router::{Path, RouteHop};
use lightning::sign::{KeysManager, NodeSigner, Recipient};
use lightning::types::features::{ChannelFeatures, NodeFeatures};
use lightning::types::payment::{PaymentHash, PaymentPreimage, PaymentSecret};
use lightning::util::logger::{Logger, Record};

use verif_harness::*;

/// A logger that drops everything (stdout carries the result lines).
struct NoLog;
impl Logger for NoLog {
	fn log(&self, _record: Record) {}
}

/// A logger that keeps the messages, to read which node the sender names in "Onion Error[from <node>: ..".
struct CapLog(std::sync::Mutex<Vec<String>>);
impl Logger for CapLog {
	fn log(&self, record: Record) {
		self.0.lock().unwrap().push(format!("{}", record.args));
	}
}
impl CapLog {
	fn new() -> Self {
		CapLog(std::sync::Mutex::new(Vec::new()))
	}
	/// index in `path` of the node named by the last "Onion Error[from ..", "Unreadable failure from .." or
	/// "Missing error code in failure from .." message
	fn blamed(&self, path: &Path) -> Option<usize> {
		let msgs = self.0.lock().unwrap();
		for m in msgs.iter().rev() {
			for pat in ["Onion Error[from ", "Unreadable failure from ", "Missing error code in failure from "] {
				if let Some(pos) = m.find(pat) {
					let node = &m[pos + pat.len()..];
					let node: String = node.chars().take_while(|c| c.is_ascii_hexdigit()).collect();
					return path.hops.iter().position(|h| hex(&h.pubkey.serialize()) == node);
				}
			}
		}
		None
	}
}

fn kv(l: &str) -> HashMap<String, String> {
	l.split_whitespace()
		.skip(1)
		.filter_map(|t| t.split_once('=').map(|(a, b)| (a.to_string(), b.to_string())))
		.collect()
}

fn arr32(s: &str) -> [u8; 32] {
	let v = unhex(s);
	let mut a = [0u8; 32];
	a.copy_from_slice(&v[..32]);
	a
}

fn opt_hex(s: &str) -> Option<Vec<u8>> {
	if s == "-" {
		None
	} else {
		Some(unhex(s))
	}
}

fn js(s: &str) -> String {
	format!("\"{}\"", s)
}

fn jopt(o: &Option<Vec<u8>>) -> String {
	match o {
		Some(v) => js(&hex(v)),
		None => "null".to_string(),
	}
}

fn jlist(v: &[String]) -> String {
	format!("[{}]", v.join(","))
}

struct Node {
	km: KeysManager,
	id: PublicKey,
}

fn node(seed_hex: &str) -> Node {
	let km = KeysManager::new(&arr32(seed_hex), 42, 42, true);
	let id = km.get_node_id(Recipient::Node).unwrap();
	Node { km, id }
}

fn route_hop(n: &Node, scid: u64, fee: u64, cltv: u32) -> RouteHop {
	RouteHop {
		pubkey: n.id,
		node_features: NodeFeatures::empty(),
		short_channel_id: scid,
		channel_features: ChannelFeatures::empty(),
		fee_msat: fee,
		cltv_expiry_delta: cltv,
		maybe_announced_channel: true,
	}
}

fn gen_key(tag: &[u8], ss: &[u8; 32]) -> [u8; 32] {
	let mut h = HmacEngine::<Sha256>::new(tag);
	h.input(ss);
	Hmac::from_engine(h).to_byte_array()
}

fn update_add(amount_msat: u64, cltv_expiry: u32, hash: PaymentHash, onion: OnionPacket) -> UpdateAddHTLC {
	UpdateAddHTLC {
		channel_id: ChannelId([0; 32]),
		htlc_id: 0,
		amount_msat,
		payment_hash: hash,
		cltv_expiry,
		skimmed_fee_msat: None,
		onion_routing_packet: onion,
		blinding_point: None,
		hold_htlc: None,
		accountable: None,
	}
}

/// Flips every `step`-th bit of (version | pubkey | hop_data | hmac | payment_hash) of the HTLC that
/// arrives at `n`; returns (bits tried, positions that were NOT rejected).
fn tamper(msg: &UpdateAddHTLC, n: &Node, height: u32, step: usize) -> (usize, Vec<String>) {
	let secp = Secp256k1::new();
	let logger = NoLog;
	let pk = msg.onion_routing_packet.public_key.unwrap().serialize();
	let mut flat: Vec<u8> = vec![msg.onion_routing_packet.version];
	flat.extend_from_slice(&pk);
	flat.extend_from_slice(&msg.onion_routing_packet.hop_data);
	flat.extend_from_slice(&msg.onion_routing_packet.hmac);
	flat.extend_from_slice(&msg.payment_hash.0);
	let nbits = flat.len() * 8;
	let mut tried = 0;
	let mut accepted = Vec::new();
	let mut bit = 0;
	while bit < nbits {
		let mut f = flat.clone();
		f[bit / 8] ^= 1 << (bit % 8);
		let mut m = msg.clone();
		m.onion_routing_packet.version = f[0];
		m.onion_routing_packet.public_key = PublicKey::from_slice(&f[1..34]);
		m.onion_routing_packet.hop_data.copy_from_slice(&f[34..34 + 1300]);
		m.onion_routing_packet.hmac.copy_from_slice(&f[1334..1366]);
		m.payment_hash.0.copy_from_slice(&f[1366..1398]);
		tried += 1;
		if peel_payment_onion(&m, &n.km, &logger, &secp, height, false).is_ok() {
			let field = if bit < 8 {
				"version"
			} else if bit < 34 * 8 {
				"pubkey"
			} else if bit < 1334 * 8 {
				"hop_data"
			} else if bit < 1366 * 8 {
				"hmac"
			} else {
				"payment_hash"
			};
			accepted.push(format!("\"{}:{}\"", field, bit));
		}
		bit += step;
	}
	(tried, accepted)
}

fn do_pay(a: &HashMap<String, String>) -> String {
	let secp = Secp256k1::new();
	let logger = NoLog;
	let sess = SecretKey::from_slice(&arr32(&a["sess"])).unwrap();
	let prng = arr32(&a["prng"]);
	let hash = PaymentHash(arr32(&a["hash"]));
	let height: u32 = a["height"].parse().unwrap();
	let mut nodes = Vec::new();
	let mut hops = Vec::new();
	for h in a["hops"].split(',') {
		let p: Vec<&str> = h.split(':').collect();
		let n = node(p[0]);
		hops.push(route_hop(&n, p[1].parse().unwrap(), p[2].parse().unwrap(), p[3].parse().unwrap()));
		nodes.push(n);
	}
	let path = Path { hops: hops.clone(), blinded_tail: None };
	let total: u64 = a["total"].parse().unwrap();
	let mut rof = match a["secret"].as_str() {
		"-" => RecipientOnionFields::spontaneous_empty(total),
		s => RecipientOnionFields::secret_only(PaymentSecret(arr32(s)), total),
	};
	rof.payment_metadata = opt_hex(&a["meta"]);
	if a["tlvs"] != "-" {
		let tlvs: Vec<(u64, Vec<u8>)> = a["tlvs"]
			.split(';')
			.map(|t| {
				let (ty, v) = t.split_once(':').unwrap();
				(ty.parse().unwrap(), unhex(v))
			})
			.collect();
		match RecipientCustomTlvs::new(tlvs) {
			Ok(t) => rof = rof.with_custom_tlvs(t),
			Err(()) => return "{\"kind\":\"pay\",\"built\":false,\"why\":\"custom tlvs refused\"}".to_string(),
		}
	}
	let keysend = if a["keysend"] == "-" { None } else { Some(PaymentPreimage(arr32(&a["keysend"]))) };

	let (keys, keys2) = vh::hop_keys(&secp, &path, &sess);
	let keys_json: Vec<String> = keys
		.iter()
		.map(|k| {
			format!(
				"{{\"ss\":{},\"eph\":{},\"rho\":{},\"mu\":{}}}",
				js(&hex(&k.shared_secret)),
				js(&hex(&k.ephemeral_pubkey.serialize())),
				js(&hex(&k.rho)),
				js(&hex(&k.mu))
			)
		})
		.collect();
	let mut judge: Vec<String> = Vec::new();
	for (k, (eph, rho, mu)) in keys.iter().zip(keys2.iter()) {
		if k.ephemeral_pubkey != *eph || k.rho != *rho || k.mu != *mu {
			judge.push(js("construct_onion_keys disagrees with construct_onion_keys_generic"));
		}
	}
	let payloads = vh::payment_payloads(&path, &rof, height, &keysend, None);
	let (payloads_json, payload_total) = match &payloads {
		Ok((p, _, _)) => (
			jlist(&p.iter().map(|x| js(&hex(x))).collect::<Vec<_>>()),
			p.iter().map(|x| x.len() + 32).sum::<usize>(),
		),
		Err(_) => ("null".to_string(), 0),
	};
	let onion = create_payment_onion(&secp, &path, &sess, &rof, height, &hash, &keysend, None, prng);
	let (packet, htlc_msat, htlc_cltv) = match onion {
		Ok(x) => x,
		Err(e) => {
			// judge: building may fail only when the payloads do not fit (or payloads refused)
			let fits = payloads.is_ok() && payload_total <= 1300;
			if fits {
				judge.push(js("create_payment_onion failed although the payloads fit"));
			}
			return format!(
				"{{\"kind\":\"pay\",\"built\":false,\"why\":{},\"keys\":{},\"payloads\":{},\"payload_total\":{},\"judge\":{}}}",
				js(&format!("{:?}", e).replace('"', "'")),
				jlist(&keys_json),
				payloads_json,
				payload_total,
				jlist(&judge)
			);
		},
	};
	if payload_total > 1300 {
		judge.push(js("create_payment_onion succeeded although the payloads exceed the packet"));
	}
	if packet.public_key != Ok(keys[0].ephemeral_pubkey) {
		judge.push(js("packet ephemeral key is not the first hop's"));
	}
	// expected per-hop instructions, computed from the route alone
	let n = hops.len();
	let mut exp_amt = vec![0u64; n];
	let mut exp_cltv = vec![0u32; n];
	for i in 0..n {
		exp_amt[i] = if i + 1 < n { hops[i + 1..].iter().map(|h| h.fee_msat).sum() } else { hops[n - 1].fee_msat };
		exp_cltv[i] = if i + 1 < n {
			height + hops[i + 1..].iter().map(|h| h.cltv_expiry_delta).sum::<u32>()
		} else {
			height + hops[n - 1].cltv_expiry_delta
		};
	}
	if htlc_msat != hops.iter().map(|h| h.fee_msat).sum::<u64>() {
		judge.push(js("first-hop amount is not the sum of the hop fees and the final value"));
	}
	if htlc_cltv != height + hops.iter().map(|h| h.cltv_expiry_delta).sum::<u32>() {
		judge.push(js("first-hop cltv is not height + sum of deltas"));
	}
	let tamper_hops: Vec<usize> =
		if a["tamper"] == "-" { vec![] } else { a["tamper"].split(',').map(|x| x.parse().unwrap()).collect() };
	let tstep: usize = a.get("tstep").map(|s| s.parse().unwrap()).unwrap_or(1);
	let mut tamper_json = Vec::new();
	// walk the route
	let mut msg = update_add(htlc_msat, htlc_cltv, hash, packet.clone());
	let mut peels = Vec::new();
	for i in 0..n {
		if msg.onion_routing_packet.hop_data.len() != 1300 {
			judge.push(js("packet size changed in flight"));
		}
		if tamper_hops.contains(&i) {
			let (tried, acc) = tamper(&msg, &nodes[i], height, tstep);
			if !acc.is_empty() {
				judge.push(format!("\"hop {} accepted {} corrupted packets\"", i, acc.len()));
			}
			tamper_json.push(format!("{{\"hop\":{},\"tried\":{},\"accepted\":{}}}", i, tried, jlist(&acc)));
		}
		// raw peel of the same packet (payload bytes and next packet, uninterpreted)
		let raw = vh::decode_next_hop_raw(
			keys[i].shared_secret,
			&msg.onion_routing_packet.hop_data,
			msg.onion_routing_packet.hmac,
			Some(hash.0),
		);
		let raw_json = match &raw {
			Ok((p, None)) => format!("{{\"payload\":{},\"next\":null}}", js(&hex(p))),
			Ok((p, Some((h, d)))) => {
				format!("{{\"payload\":{},\"next\":{}}}", js(&hex(p)), js(&format!("{}:{}", hex(d), hex(h))))
			},
			Err(e) => format!("{{\"err\":{}}}", js(e)),
		};
		let res = peel_payment_onion(&msg, &nodes[i].km, &logger, &secp, height, false);
		match res {
			Err(e) => {
				judge.push(format!("\"hop {} rejected the authentic packet: {:?} {}\"", i, e.reason, e.msg));
				peels.push(format!("{{\"hop\":{},\"raw\":{},\"err\":{}}}", i, raw_json, js(&format!("{:?}", e.reason))));
				break;
			},
			Ok(info) => {
				if info.incoming_shared_secret != keys[i].shared_secret {
					judge.push(format!("\"hop {} derived a different shared secret than the sender\"", i));
				}
				match info.routing {
					PendingHTLCRouting::Forward { onion_packet, short_channel_id, .. } => {
						if i + 1 >= n {
							judge.push(js("last hop was told to forward"));
						} else {
							if short_channel_id != hops[i + 1].short_channel_id {
								judge.push(format!("\"hop {} got scid {} instead of {}\"", i, short_channel_id, hops[i + 1].short_channel_id));
							}
							if onion_packet.public_key != Ok(keys[i + 1].ephemeral_pubkey) {
								judge.push(format!("\"hop {} computed a next ephemeral key the sender did not\"", i));
							}
						}
						if info.outgoing_amt_msat != exp_amt[i] {
							judge.push(format!("\"hop {} got amount {} instead of {}\"", i, info.outgoing_amt_msat, exp_amt[i]));
						}
						if info.outgoing_cltv_value != exp_cltv[i] {
							judge.push(format!("\"hop {} got cltv {} instead of {}\"", i, info.outgoing_cltv_value, exp_cltv[i]));
						}
						if let Ok((_, Some((h, d)))) = &raw {
							if h[..] != onion_packet.hmac[..] || d[..] != onion_packet.hop_data[..] {
								judge.push(format!("\"hop {}: peel_payment_onion and decode_next_hop produce different next packets\"", i));
							}
						} else {
							judge.push(format!("\"hop {}: raw decode did not forward\"", i));
						}
						peels.push(format!(
							"{{\"hop\":{},\"raw\":{},\"fwd\":{{\"scid\":{},\"amt\":{},\"cltv\":{},\"next\":{}}}}}",
							i,
							raw_json,
							short_channel_id,
							info.outgoing_amt_msat,
							info.outgoing_cltv_value,
							js(&format!("{}:{}", hex(&onion_packet.hop_data), hex(&onion_packet.hmac)))
						));
						msg = update_add(info.outgoing_amt_msat, info.outgoing_cltv_value, hash, onion_packet);
					},
					PendingHTLCRouting::Receive { payment_data, payment_metadata, custom_tlvs, .. } => {
						if i + 1 != n {
							judge.push(format!("\"hop {} believed to be final\"", i));
						}
						if Some(payment_data.payment_secret) != rof.payment_secret || payment_data.total_msat != total {
							judge.push(js("final hop got a different payment secret / total"));
						}
						if payment_metadata != rof.payment_metadata {
							judge.push(js("final hop got different payment metadata"));
						}
						if &custom_tlvs != rof.custom_tlvs() {
							judge.push(js("final hop got different custom TLVs"));
						}
						if info.outgoing_amt_msat != exp_amt[i] || info.outgoing_cltv_value != exp_cltv[i] {
							judge.push(js("final hop got a different amount / expiry"));
						}
						if !matches!(raw, Ok((_, None))) {
							judge.push(js("raw decode of the final packet is not final"));
						}
						peels.push(format!(
							"{{\"hop\":{},\"raw\":{},\"recv\":{{\"amt\":{},\"cltv\":{},\"meta\":{},\"ntlvs\":{}}}}}",
							i,
							raw_json,
							info.outgoing_amt_msat,
							info.outgoing_cltv_value,
							jopt(&payment_metadata),
							custom_tlvs.len()
						));
						break;
					},
					PendingHTLCRouting::ReceiveKeysend { payment_preimage, payment_metadata, custom_tlvs, payment_data, .. } => {
						if i + 1 != n {
							judge.push(format!("\"hop {} believed to be final\"", i));
						}
						if Some(payment_preimage) != keysend {
							judge.push(js("final hop got a different keysend preimage"));
						}
						if payment_data.map(|d| d.payment_secret) != rof.payment_secret {
							judge.push(js("final hop got a different payment secret"));
						}
						if payment_metadata != rof.payment_metadata || &custom_tlvs != rof.custom_tlvs() {
							judge.push(js("final hop got different metadata / custom TLVs"));
						}
						if info.outgoing_amt_msat != exp_amt[i] || info.outgoing_cltv_value != exp_cltv[i] {
							judge.push(js("final hop got a different amount / expiry"));
						}
						peels.push(format!(
							"{{\"hop\":{},\"raw\":{},\"keysend\":{{\"amt\":{},\"cltv\":{}}}}}",
							i, raw_json, info.outgoing_amt_msat, info.outgoing_cltv_value
						));
						break;
					},
					_ => {
						judge.push(format!("\"hop {} got an unexpected routing kind\"", i));
						break;
					},
				}
			},
		}
	}
	if peels.len() != n {
		judge.push(js("the route was not walked to its end"));
	}
	format!(
		"{{\"kind\":\"pay\",\"built\":true,\"keys\":{},\"payloads\":{},\"payload_total\":{},\"packet\":{},\"htlc_msat\":{},\"htlc_cltv\":{},\"peels\":{},\"tamper\":{},\"judge\":{}}}",
		jlist(&keys_json),
		payloads_json,
		payload_total,
		js(&format!("{}:{}", hex(&packet.hop_data), hex(&packet.hmac))),
		htlc_msat,
		htlc_cltv,
		jlist(&peels),
		jlist(&tamper_json),
		jlist(&judge)
	)
}

/// BigSize at the start of `b`: (value, bytes used).
fn read_bigsize(b: &[u8]) -> Option<(u64, usize)> {
	match *b.first()? {
		0xff => Some((u64::from_be_bytes(b.get(1..9)?.try_into().ok()?), 9)),
		0xfe => Some((u32::from_be_bytes(b.get(1..5)?.try_into().ok()?) as u64, 5)),
		0xfd => Some((u16::from_be_bytes(b.get(1..3)?.try_into().ok()?) as u64, 3)),
		x => Some((x as u64, 1)),
	}
}

/// The TLV records of a payload (without its length prefix), independent of LDK's decoder.
fn tlv_records(mut b: &[u8]) -> Option<Vec<(u64, Vec<u8>)>> {
	let mut out = Vec::new();
	while !b.is_empty() {
		let (t, n) = read_bigsize(b)?;
		b = &b[n..];
		let (l, n) = read_bigsize(b)?;
		b = &b[n..];
		let v = b.get(..l as usize)?.to_vec();
		b = &b[l as usize..];
		out.push((t, v));
	}
	Some(out)
}

fn test_invoice_request(sess: &[u8; 32]) -> InvoiceRequest {
	let secp = Secp256k1::new();
	let km = KeysManager::new(sess, 7, 7, true);
	let signing = km.get_node_id(Recipient::Node).unwrap();
	let offer = OfferBuilder::new(signing).amount_msats(1000).build().unwrap();
	let expanded_key = ExpandedKey::new([42; 32]);
	let nonce = Nonce::from_entropy_source(&km);
	offer
		.request_invoice(&expanded_key, nonce, &secp, PaymentId([1; 32]))
		.unwrap()
		.build_and_sign()
		.unwrap()
}

/// `rcpt sess= prng= hash= height= hops=<seed:scid:fee:cltv>,.. blinded=<k> secret=<hex32|-> bsecret=<hex32> total=
///       meta=<hex|-> tlvs=<type:hex;..|-> keysend=<hex32|-> invreq=<0|1>`
/// The last `k` nodes form a blinded path created by the recipient (k = 1: the recipient is its own
/// introduction node).  Every hop peels with the real code; the final hop must decode exactly what was sent.
fn do_rcpt(a: &HashMap<String, String>) -> String {
	let secp = Secp256k1::new();
	let logger = NoLog;
	let sess = SecretKey::from_slice(&arr32(&a["sess"])).unwrap();
	let prng = arr32(&a["prng"]);
	let hash = PaymentHash(arr32(&a["hash"]));
	let height: u32 = a["height"].parse().unwrap();
	let k: usize = a["blinded"].parse().unwrap();
	// the router's shadow offset: added to the last hop's delta and (blinded tails) told to the recipient
	let excess: u32 = a.get("excess").map(|x| x.parse().unwrap()).unwrap_or(0);
	let mut nodes = Vec::new();
	let (mut scid, mut fee, mut cltv) = (Vec::new(), Vec::new(), Vec::new());
	for h in a["hops"].split(',') {
		let p: Vec<&str> = h.split(':').collect();
		nodes.push(node(p[0]));
		scid.push(p[1].parse::<u64>().unwrap());
		fee.push(p[2].parse::<u64>().unwrap());
		cltv.push(p[3].parse::<u32>().unwrap());
	}
	let n = nodes.len();
	let final_value = fee[n - 1];
	let total: u64 = a["total"].parse().unwrap();
	let bsecret = PaymentSecret(arr32(&a["bsecret"]));
	let mut judge: Vec<String> = Vec::new();
	let mut enc_tlvs_json = Vec::new();
	let mut bp_json = "null".to_string();
	// the route
	let mut hops = Vec::new();
	let mut tail = None;
	if k == 0 {
		for i in 0..n {
			hops.push(route_hop(&nodes[i], scid[i], fee[i], cltv[i]));
		}
	} else {
		let recipient = &nodes[n - 1];
		let constraints = PaymentConstraints { max_cltv_expiry: u32::MAX, htlc_minimum_msat: 1 };
		let payee_tlvs = ReceiveTlvs {
			payment_secret: bsecret,
			payment_constraints: constraints,
			payment_context: PaymentContext::Bolt12Refund(Bolt12RefundContext { payment_metadata: None }),
		};
		let intermediates: Vec<PaymentForwardNode> = (n - k..n - 1)
			.map(|j| PaymentForwardNode {
				tlvs: ForwardTlvs {
					short_channel_id: scid[j + 1],
					payment_relay: PaymentRelay {
						cltv_expiry_delta: cltv[j] as u16,
						fee_proportional_millionths: 0,
						fee_base_msat: fee[j] as u32,
					},
					payment_constraints: constraints,
					features: BlindedHopFeatures::empty(),
					next_blinding_override: None,
				},
				node_id: nodes[j].id,
				htlc_maximum_msat: 2_000_000_000_000_000,
			})
			.collect();
		let auth = recipient.km.get_receive_auth_key();
		let bpath = if k == 1 {
			BlindedPaymentPath::one_hop(recipient.id, auth, payee_tlvs, cltv[n - 1] as u16, &recipient.km, &secp)
		} else {
			BlindedPaymentPath::new(
				&intermediates,
				recipient.id,
				auth,
				payee_tlvs,
				2_000_000_000_000_000,
				cltv[n - 1] as u16,
				&recipient.km,
				&secp,
			)
		};
		let bpath = match bpath {
			Ok(b) => b,
			Err(()) => return "{\"kind\":\"rcpt\",\"built\":false,\"why\":\"blinded path refused\",\"judge\":[]}".to_string(),
		};
		for i in 0..n - k {
			hops.push(route_hop(&nodes[i], scid[i], fee[i], cltv[i]));
		}
		hops.push(route_hop(
			&nodes[n - k],
			scid[n - k],
			bpath.payinfo.fee_base_msat as u64,
			bpath.payinfo.cltv_expiry_delta as u32 + excess,
		));
		for h in bpath.blinded_hops() {
			enc_tlvs_json.push(js(&hex(&h.encrypted_payload)));
		}
		bp_json = js(&hex(&bpath.blinding_point().serialize()));
		tail = Some(BlindedTail {
			trampoline_hops: vec![],
			hops: bpath.blinded_hops().to_vec(),
			blinding_point: bpath.blinding_point(),
			excess_final_cltv_expiry_delta: excess,
			final_value_msat: final_value,
		});
	}
	let path = Path { hops: hops.clone(), blinded_tail: tail };
	let mut rof = match a["secret"].as_str() {
		"-" => RecipientOnionFields::spontaneous_empty(total),
		s => RecipientOnionFields::secret_only(PaymentSecret(arr32(s)), total),
	};
	rof.payment_metadata = opt_hex(&a["meta"]);
	let mut sent_custom: Vec<(u64, Vec<u8>)> = Vec::new();
	if a["tlvs"] != "-" {
		let tlvs: Vec<(u64, Vec<u8>)> = a["tlvs"]
			.split(';')
			.map(|t| {
				let (ty, v) = t.split_once(':').unwrap();
				(ty.parse().unwrap(), unhex(v))
			})
			.collect();
		match RecipientCustomTlvs::new(tlvs) {
			Ok(t) => {
				sent_custom = t.as_slice().to_vec();
				rof = rof.with_custom_tlvs(t)
			},
			Err(()) => return "{\"kind\":\"rcpt\",\"built\":false,\"why\":\"custom tlvs refused\",\"judge\":[]}".to_string(),
		}
	}
	let keysend = if a["keysend"] == "-" { None } else { Some(PaymentPreimage(arr32(&a["keysend"]))) };
	let invreq = if a["invreq"] == "1" { Some(test_invoice_request(&arr32(&a["sess"]))) } else { None };
	let invreq_bytes = invreq.as_ref().map(|r| r.encode());

	let (keys, _) = vh::hop_keys(&secp, &path, &sess);
	let keys_json: Vec<String> = keys
		.iter()
		.map(|kk| format!("{{\"ss\":{},\"eph\":{}}}", js(&hex(&kk.shared_secret)), js(&hex(&kk.ephemeral_pubkey.serialize()))))
		.collect();
	let payloads = vh::payment_payloads(&path, &rof, height, &keysend, invreq.as_ref());
	let (payloads_json, payload_total) = match &payloads {
		Ok((p, _, _)) => {
			(jlist(&p.iter().map(|x| js(&hex(x))).collect::<Vec<_>>()), p.iter().map(|x| x.len() + 32).sum::<usize>())
		},
		Err(_) => ("null".to_string(), 0),
	};
	let extra = format!("\"enc_tlvs\":{},\"bp\":{},\"invreq\":{}", jlist(&enc_tlvs_json), bp_json, jopt(&invreq_bytes));
	let onion = create_payment_onion(&secp, &path, &sess, &rof, height, &hash, &keysend, invreq.as_ref(), prng);
	let (packet, htlc_msat, htlc_cltv) = match onion {
		Ok(x) => x,
		Err(e) => {
			let legit = payloads.is_err() || payload_total > 1300 || (k > 0 && rof.payment_metadata.is_some());
			if !legit {
				judge.push(js("create_payment_onion failed although the route and the recipient fields are admissible"));
			}
			return format!(
				"{{\"kind\":\"rcpt\",\"built\":false,\"why\":{},\"keys\":{},\"payloads\":{},\"payload_total\":{},{},\"judge\":{}}}",
				js(&format!("{:?}", e).replace('"', "'")),
				jlist(&keys_json),
				payloads_json,
				payload_total,
				extra,
				jlist(&judge)
			);
		},
	};
	if payload_total > 1300 || (k > 0 && rof.payment_metadata.is_some()) {
		judge.push(js("create_payment_onion succeeded on an inadmissible input"));
	}
	let payloads = payloads.unwrap().0;
	// every payload is a strictly ascending TLV stream; the final one carries exactly what was sent
	for (i, p) in payloads.iter().enumerate() {
		let content = read_bigsize(p).map(|(_, used)| &p[used..]);
		match content.and_then(tlv_records) {
			None => judge.push(format!("\"payload {} is not a TLV stream\"", i)),
			Some(recs) => {
				if !recs.windows(2).all(|w| w[0].0 < w[1].0) {
					judge.push(format!(
						"\"payload {} is not strictly ascending: types {:?}\"",
						i,
						recs.iter().map(|r| r.0).collect::<Vec<_>>()
					));
				}
				if i + 1 == payloads.len() {
					let mut want: Vec<(u64, Vec<u8>)> = sent_custom.clone();
					if let Some(pre) = &keysend {
						want.push((5482373484, pre.0.to_vec()));
					}
					if let (Some(b), true) = (&invreq_bytes, k > 0) {
						want.push((77_777, b.clone()));
					}
					want.sort_by_key(|t| t.0);
					let got: Vec<(u64, Vec<u8>)> = recs.iter().filter(|r| r.0 >= 1 << 16).cloned().collect();
					if got != want {
						judge.push(js("the final payload's custom / keysend / invoice-request records are not those sent"));
					}
				}
			},
		}
	}
	// walk the route
	let m = keys.len();
	let mut msg = update_add(htlc_msat, htlc_cltv, hash, packet.clone());
	let mut peels = Vec::new();
	let mut final_kind = "none".to_string();
	for i in 0..m {
		let in_amt = msg.amount_msat;
		let in_cltv = msg.cltv_expiry;
		let raw = vh::decode_next_hop_raw(
			keys[i].shared_secret,
			&msg.onion_routing_packet.hop_data,
			msg.onion_routing_packet.hmac,
			Some(hash.0),
		);
		let raw_json = match &raw {
			Ok((p, None)) => format!("{{\"payload\":{},\"next\":null}}", js(&hex(p))),
			Ok((p, Some((h, d)))) => {
				format!("{{\"payload\":{},\"next\":{}}}", js(&hex(p)), js(&format!("{}:{}", hex(d), hex(h))))
			},
			Err(e) => format!("{{\"err\":{}}}", js(e)),
		};
		let res = peel_payment_onion(&msg, &nodes[i].km, &logger, &secp, height, false);
		let info = match res {
			Err(e) => {
				judge.push(format!("\"hop {} rejected the authentic packet: {:?} {}\"", i, e.reason, e.msg));
				peels.push(format!("{{\"hop\":{},\"raw\":{},\"err\":{}}}", i, raw_json, js(&format!("{:?}", e.reason))));
				break;
			},
			Ok(info) => info,
		};
		let blinded_hop = k > 0 && i >= n - k;
		let (want_amt, want_cltv) = if i + 1 == m {
			// what the ROUTE says the recipient is told: blinded: current height + excess; else height + final delta
			(final_value, if k > 0 { height + excess } else { height + cltv[n - 1] })
		} else if blinded_hop {
			(in_amt - fee[i], in_cltv - cltv[i])
		} else {
			(
				path.hops[i + 1..].iter().map(|h| h.fee_msat).sum::<u64>() + if k > 0 { final_value } else { 0 },
				height + path.hops[i + 1..].iter().map(|h| h.cltv_expiry_delta).sum::<u32>(),
			)
		};
		if info.outgoing_amt_msat != want_amt {
			judge.push(format!("\"hop {} got amount {} instead of {}\"", i, info.outgoing_amt_msat, want_amt));
		}
		if info.outgoing_cltv_value != want_cltv {
			judge.push(format!("\"hop {} got cltv {} instead of {}\"", i, info.outgoing_cltv_value, want_cltv));
		}
		match info.routing {
			PendingHTLCRouting::Forward { onion_packet, short_channel_id, blinded, .. } => {
				if i + 1 >= m {
					judge.push(js("last hop was told to forward"));
					break;
				}
				if short_channel_id != scid[i + 1] {
					judge.push(format!("\"hop {} got scid {} instead of {}\"", i, short_channel_id, scid[i + 1]));
				}
				if blinded.is_some() != blinded_hop {
					judge.push(format!("\"hop {}: blinded forward flag is {}\"", i, blinded.is_some()));
				}
				if onion_packet.public_key != Ok(keys[i + 1].ephemeral_pubkey) {
					judge.push(format!("\"hop {} computed a next ephemeral key the sender did not\"", i));
				}
				if onion_packet.hop_data.len() != 1300 {
					judge.push(js("packet size changed in flight"));
				}
				if let Ok((_, Some((h, d)))) = &raw {
					if h[..] != onion_packet.hmac[..] || d[..] != onion_packet.hop_data[..] {
						judge.push(format!("\"hop {}: peel_payment_onion and decode_next_hop produce different next packets\"", i));
					}
				}
				peels.push(format!("{{\"hop\":{},\"raw\":{},\"fwd\":{{\"scid\":{},\"amt\":{},\"cltv\":{}}}}}", i, raw_json, short_channel_id, info.outgoing_amt_msat, info.outgoing_cltv_value));
				let next_bp = blinded.and_then(|b| {
					b.next_blinding_override.or_else(|| {
						let ss = nodes[i].km.ecdh(Recipient::Node, &b.inbound_blinding_point, None).unwrap().secret_bytes();
						vh::next_pubkey(&secp, b.inbound_blinding_point, &ss).ok()
					})
				});
				msg = update_add(info.outgoing_amt_msat, info.outgoing_cltv_value, hash, onion_packet);
				msg.blinding_point = next_bp;
			},
			PendingHTLCRouting::Receive { payment_data, payment_metadata, custom_tlvs, payment_context, .. } => {
				final_kind = if k > 0 { "blinded_recv" } else { "recv" }.to_string();
				if i + 1 != m {
					judge.push(format!("\"hop {} believed to be final\"", i));
				}
				if keysend.is_some() {
					judge.push(js("keysend preimage was lost"));
				}
				let want_secret = if k > 0 { Some(bsecret) } else { rof.payment_secret };
				if Some(payment_data.payment_secret) != want_secret || payment_data.total_msat != total {
					judge.push(js("final hop got a different payment secret / total"));
				}
				if payment_metadata != rof.payment_metadata {
					judge.push(js("final hop got different payment metadata"));
				}
				if custom_tlvs != sent_custom {
					judge.push(js("final hop got different custom TLVs"));
				}
				if payment_context.is_some() != (k > 0) {
					judge.push(js("payment context presence is wrong"));
				}
				peels.push(format!("{{\"hop\":{},\"raw\":{},\"recv\":{{\"amt\":{},\"cltv\":{}}}}}", i, raw_json, info.outgoing_amt_msat, info.outgoing_cltv_value));
				break;
			},
			PendingHTLCRouting::ReceiveKeysend { payment_data, payment_preimage, payment_metadata, custom_tlvs, invoice_request, .. } => {
				final_kind = if k > 0 { "blinded_keysend" } else { "keysend" }.to_string();
				if i + 1 != m {
					judge.push(format!("\"hop {} believed to be final\"", i));
				}
				if Some(payment_preimage) != keysend {
					judge.push(js("final hop got a different keysend preimage"));
				}
				let want_secret = if k > 0 { Some(bsecret) } else { rof.payment_secret };
				if payment_data.as_ref().map(|d| d.payment_secret) != want_secret {
					judge.push(js("final hop got a different payment secret"));
				}
				if payment_metadata != rof.payment_metadata || custom_tlvs != sent_custom {
					judge.push(js("final hop got different metadata / custom TLVs"));
				}
				if k > 0 && invoice_request.as_ref().map(|r| r.encode()) != invreq_bytes {
					judge.push(js("final hop got a different invoice request"));
				}
				peels.push(format!("{{\"hop\":{},\"raw\":{},\"keysend\":{{\"amt\":{},\"cltv\":{}}}}}", i, raw_json, info.outgoing_amt_msat, info.outgoing_cltv_value));
				break;
			},
			_ => {
				judge.push(format!("\"hop {} got an unexpected routing kind\"", i));
				break;
			},
		}
	}
	if peels.len() != m {
		judge.push(js("the route was not walked to its end"));
	}
	format!(
		"{{\"kind\":\"rcpt\",\"built\":true,\"final\":{},\"keys\":{},\"payloads\":{},\"payload_total\":{},\"packet\":{},\"htlc_msat\":{},\"htlc_cltv\":{},\"peels\":{},{},\"judge\":{}}}",
		js(&final_kind),
		jlist(&keys_json),
		jlist(&payloads.iter().map(|x| js(&hex(x))).collect::<Vec<_>>()),
		payload_total,
		js(&format!("{}:{}", hex(&packet.hop_data), hex(&packet.hmac))),
		htlc_msat,
		htlc_cltv,
		jlist(&peels),
		extra,
		jlist(&judge)
	)
}

fn do_raw(a: &HashMap<String, String>) -> String {
	let noise = unhex(&a["noise"]);
	let ad = opt_hex(&a["ad"]).map(|v| arr32(&hex(&v)));
	let mut sss = Vec::new();
	let mut payloads = Vec::new();
	if a["hops"] != "-" {
		for h in a["hops"].split(',') {
			let (ss, p) = h.split_once(':').unwrap();
			sss.push(arr32(ss));
			payloads.push(unhex(p));
		}
	}
	let rho_mu: Vec<([u8; 32], [u8; 32])> = sss.iter().map(|ss| (gen_key(b"rho", ss), gen_key(b"mu", ss))).collect();
	let total: usize = payloads.iter().map(|p| p.len() + 32).sum();
	let mut judge: Vec<String> = Vec::new();
	let built = vh::construct_raw(payloads.clone(), rho_mu, noise.clone(), ad);
	let fits = !payloads.is_empty() && total <= noise.len();
	match built {
		Err(()) => {
			if fits {
				judge.push(js("construction failed although the payloads fit"));
			}
			format!("{{\"kind\":\"raw\",\"built\":false,\"judge\":{}}}", jlist(&judge))
		},
		Ok((data, hmac)) => {
			if !fits {
				judge.push(js("construction succeeded although the payloads do not fit"));
			}
			let packet = format!("{}:{}", hex(&data), hex(&hmac));
			let mut peels = Vec::new();
			let (mut d, mut h) = (data, hmac);
			for i in 0..sss.len() {
				if d.len() != noise.len() {
					judge.push(js("packet size changed in flight"));
				}
				match vh::decode_next_hop_raw(sss[i], &d, h, ad) {
					Err(e) => {
						judge.push(format!("\"hop {} rejected the authentic packet: {}\"", i, e));
						peels.push(js(&format!("E:{}", e)));
						break;
					},
					Ok((p, next)) => {
						// the payload as serialized by the sender is BigSize(len) | content
						let want = &payloads[i];
						let mut framed = Vec::new();
						framed.extend_from_slice(&want[..want.len() - p.len().min(want.len())]);
						framed.extend_from_slice(&p);
						if &framed != want {
							judge.push(format!("\"hop {} decoded a payload the sender did not put there\"", i));
						}
						match next {
							None => {
								if i + 1 != sss.len() {
									judge.push(format!("\"hop {} believed to be final\"", i));
								}
								peels.push(js(&format!("F:{}", hex(&p))));
								break;
							},
							Some((nh, nd)) => {
								if i + 1 == sss.len() {
									judge.push(js("last hop was told to forward"));
								}
								peels.push(js(&format!("N:{}:{}:{}", hex(&p), hex(&nd), hex(&nh))));
								d = nd;
								h = nh;
							},
						}
					},
				}
			}
			if peels.len() != sss.len() {
				judge.push(js("the route was not walked to its end"));
			}
			format!(
				"{{\"kind\":\"raw\",\"built\":true,\"packet\":{},\"peels\":{},\"judge\":{}}}",
				js(&packet),
				jlist(&peels),
				jlist(&judge)
			)
		},
	}
}

/// `peel ss=<hex32> ad=<hex32|-> data=<hex> hmac=<hex32>`: one `decode_next_hop` on explicit bytes.
fn do_peel(a: &HashMap<String, String>) -> String {
	let ad = opt_hex(&a["ad"]).map(|v| arr32(&hex(&v)));
	let r = match vh::decode_next_hop_raw(arr32(&a["ss"]), &unhex(&a["data"]), arr32(&a["hmac"]), ad) {
		Err(e) => format!("E:{}", e),
		Ok((p, None)) => format!("F:{}", hex(&p)),
		Ok((p, Some((nh, nd)))) => format!("N:{}:{}:{}", hex(&p), hex(&nd), hex(&nh)),
	};
	format!("{{\"kind\":\"peel\",\"res\":{}}}", js(&r))
}

/// `persist=<all|-|i,j,..>`: the hops at which the failure / attribution data is written and read back
/// (a node restart between receiving and relaying)
fn persists(a: &HashMap<String, String>, hop: usize) -> bool {
	match a.get("persist").map(|s| s.as_str()) {
		None | Some("-") => false,
		Some("all") => true,
		Some(l) => l.split(',').any(|x| x.parse::<usize>() == Ok(hop)),
	}
}

fn parse_path(a: &HashMap<String, String>) -> (Vec<Node>, Path) {
	let mut nodes = Vec::new();
	let mut hops = Vec::new();
	for h in a["hops"].split(',') {
		let p: Vec<&str> = h.split(':').collect();
		let n = node(p[0]);
		hops.push(route_hop(&n, p[1].parse().unwrap(), 1000, 50));
		nodes.push(n);
	}
	(nodes, Path { hops, blinded_tail: None })
}

/// `keys sess=<hex32> hops=<seed:scid>,..`: the per-hop shared secrets of a path.
fn do_keys(a: &HashMap<String, String>) -> String {
	let secp = Secp256k1::new();
	let sess = SecretKey::from_slice(&arr32(&a["sess"])).unwrap();
	let (_nodes, path) = parse_path(a);
	let (keys, _) = vh::hop_keys(&secp, &path, &sess);
	format!("{{\"kind\":\"keys\",\"ss\":{}}}", jlist(&keys.iter().map(|k| js(&hex(&k.shared_secret))).collect::<Vec<_>>()))
}

fn decoded_json(d: &vh::DecodedFailure, path: &Path, blamed: Option<usize>) -> (String, Option<usize>, Vec<String>) {
	// Which hop does the sender blame?  Primary: the node named in its log line.  The public fields of the
	// result must be consistent with that hop.
	let n = path.hops.len();
	let by_node = d.failed_node.and_then(|id| path.hops.iter().position(|h| h.pubkey == id));
	let mut inconsistent = Vec::new();
	if let Some(i) = blamed {
		if let Some(b) = by_node {
			if b != i {
				inconsistent.push(js("network update names a different node than the log"));
			}
		}
		let own = path.hops[i].short_channel_id;
		let next = if i + 1 < n { path.hops[i + 1].short_channel_id } else { own };
		if let Some(c) = d.failed_channel {
			if c != next {
				inconsistent.push(js("channel failure names a channel that is not the blamed hop's outbound channel"));
			}
		}
		if let Some(c) = d.short_channel_id {
			if c != own && c != next {
				inconsistent.push(js("short_channel_id is not a channel of the blamed hop"));
			}
		}
		if !d.hold_times.is_empty() && d.hold_times.len() != (i + 1).min(20) {
			inconsistent.push(js("number of hold times does not match the blamed hop"));
		}
	}
	(
		format!(
			"{{\"code\":{},\"data\":{},\"hold_times\":[{}],\"scid\":{},\"failed_node_idx\":{},\"failed_chan\":{},\"perm\":{},\"unattributed\":{},\"hop\":{}}}",
			d.code.map(|c| c.to_string()).unwrap_or("null".into()),
			jopt(&d.data),
			d.hold_times.iter().map(|t| t.to_string()).collect::<Vec<_>>().join(","),
			d.short_channel_id.map(|c| c.to_string()).unwrap_or("null".into()),
			by_node.map(|c| c.to_string()).unwrap_or("null".into()),
			d.failed_channel.map(|c| c.to_string()).unwrap_or("null".into()),
			d.payment_failed_permanently,
			d.unattributed,
			blamed.map(|c| c.to_string()).unwrap_or("null".into())
		),
		blamed,
		inconsistent,
	)
}

fn do_fail(a: &HashMap<String, String>) -> String {
	let secp = Secp256k1::new();
	let logger = NoLog;
	let sess = SecretKey::from_slice(&arr32(&a["sess"])).unwrap();
	let (_nodes, path) = parse_path(a);
	let at: usize = a["at"].parse().unwrap();
	let code: u16 = a["code"].parse().unwrap();
	let data = unhex(&a["data"]);
	let holds: Vec<u32> = a["holds"].split(',').map(|x| x.parse().unwrap()).collect();
	let tstep: usize = a.get("tstep").map(|s| s.parse().unwrap()).unwrap_or(0);
	let (keys, _) = vh::hop_keys(&secp, &path, &sess);
	let mut judge: Vec<String> = Vec::new();
	let mut stages = Vec::new();
	let (mut d, mut at_data) = vh::build_failure(&keys[at].shared_secret, code, &data, holds[at]);
	if holds[at] == 0 {
		// the way ChannelManager originates a failure (HTLCFailReason::Reason, zero hold time), optionally persisted
		let via = vh::local_failure_via_reason(&keys[at].shared_secret, None, code, data.clone(), persists(a, at));
		if via != (d.clone(), at_data.clone()) {
			judge.push(js("HTLCFailReason::Reason (written and read back) does not produce build_failure_packet's packet"));
		}
	}
	stages.push(js(&format!("{}:{}", hex(&d), at_data.as_ref().map(|x| hex(x)).unwrap_or("-".into()))));
	for j in (0..at).rev() {
		// over the wire to hop j ...
		let (dw, aw) = vh::fail_msg_roundtrip(d.clone(), at_data.clone());
		if (dw.clone(), aw.clone()) != (d.clone(), at_data.clone()) {
			judge.push(js("update_fail_htlc does not carry the failure unchanged"));
		}
		// ... which relays it (possibly after a restart)
		let via = vh::wrap_failure_via_reason(&keys[j].shared_secret, dw, aw, holds[j], persists(a, j));
		let (d2, a2) = vh::wrap_failure(&keys[j].shared_secret, d, at_data, holds[j]);
		if via != (d2.clone(), a2.clone()) {
			judge.push(format!("\"hop {}: get_encrypted_failure_packet (persisted: {}) differs from process_failure_packet + crypt_failure_packet\"", j, persists(a, j)));
		}
		d = via.0;
		at_data = via.1;
		stages.push(js(&format!("{}:{}", hex(&d), at_data.as_ref().map(|x| hex(x)).unwrap_or("-".into()))));
	}
	let cap = CapLog::new();
	let dec = vh::process_failure(&secp, &cap, &path, &sess, d.clone(), at_data.clone());
	let (dec_json, hop, inconsistent) = decoded_json(&dec, &path, cap.blamed(&path));
	judge.extend(inconsistent);
	if dec.unattributed {
		judge.push(js("the sender could not attribute an authentic failure"));
	}
	if dec.code != Some(code) {
		judge.push(format!("\"sender decoded code {:?} instead of {}\"", dec.code, code));
	}
	if dec.data.as_ref() != Some(&data) {
		judge.push(js("sender decoded different failure data"));
	}
	if hop != Some(at) {
		judge.push(format!("\"failure of hop {} attributed to {:?}\"", at, hop));
	}
	let want_holds: Vec<u32> = holds[..=at].iter().cloned().take(20).collect();
	if at_data.is_some() && dec.hold_times != want_holds {
		judge.push(format!("\"hold times {:?} instead of {:?}\"", dec.hold_times, want_holds));
	}
	// corrupted failure packets must not be attributed with a valid HMAC
	let mut tampered = 0;
	let mut tamper_bad = Vec::new();
	if tstep > 0 {
		let mut bit = 0;
		while bit < d.len() * 8 {
			let mut f = d.clone();
			f[bit / 8] ^= 1 << (bit % 8);
			let r = vh::process_failure(&secp, &logger, &path, &sess, f, at_data.clone());
			tampered += 1;
			if !r.unattributed {
				tamper_bad.push(bit.to_string());
			}
			bit += tstep;
		}
		if !tamper_bad.is_empty() {
			judge.push(format!("\"{} corrupted failure packets were attributed to a hop\"", tamper_bad.len()));
		}
	}
	format!(
		"{{\"kind\":\"fail\",\"stages\":{},\"decoded\":{},\"tampered\":{},\"tamper_attributed\":{},\"judge\":{}}}",
		jlist(&stages),
		dec_json,
		tampered,
		jlist(&tamper_bad),
		jlist(&judge)
	)
}

/// `failb sess= hops=<seed:scid>,.. at=<i> code=<u16> plen=<packet data length> legacy=<0|1> holds=<t0,..,ti>`
/// A failure whose packet data has exactly `plen` bytes (failure data of `plen - 38` bytes), built at hop `at`
/// (legacy = 1: as a node without attribution support would, i.e. the attribution data is stripped before the
/// first relay), relayed by the real `process_failure_packet` path through hops `at-1 .. 0`.  Reports, per stage,
/// the data length, whether attribution data is present and the real wire length of the `update_fail_htlc`.
fn do_failb(a: &HashMap<String, String>) -> String {
	let secp = Secp256k1::new();
	let sess = SecretKey::from_slice(&arr32(&a["sess"])).unwrap();
	let (_nodes, path) = parse_path(a);
	let at: usize = a["at"].parse().unwrap();
	let code: u16 = a["code"].parse().unwrap();
	let plen: usize = a["plen"].parse().unwrap();
	let legacy = a["legacy"] == "1";
	let holds: Vec<u32> = a["holds"].split(',').map(|x| x.parse().unwrap()).collect();
	let (keys, _) = vh::hop_keys(&secp, &path, &sess);
	let mut judge: Vec<String> = Vec::new();
	let data: Vec<u8> = (0..plen - 38).map(|i| (i * 7 + 3) as u8).collect();
	let (mut d, mut at_data) = if legacy {
		// what a node without attribution support sends (BOLT 4): hmac | len | code | data | padlen | pad, encrypted
		let mut body = Vec::new();
		body.extend_from_slice(&((2 + data.len()) as u16).to_be_bytes());
		body.extend_from_slice(&code.to_be_bytes());
		body.extend_from_slice(&data);
		let pad = 256usize.saturating_sub(2 + data.len());
		body.extend_from_slice(&(pad as u16).to_be_bytes());
		body.extend(std::iter::repeat(0u8).take(pad));
		let mut h = HmacEngine::<Sha256>::new(&keys[at].um);
		h.input(&body);
		let mut plain = Hmac::from_engine(h).to_byte_array().to_vec();
		plain.extend_from_slice(&body);
		let stream = vh::init_noise(keys[at].ammag, plain.len());
		(plain.iter().zip(stream.iter()).map(|(x, y)| x ^ y).collect::<Vec<u8>>(), None)
	} else {
		let ss = keys[at].shared_secret;
		let (dd, hh) = (data.clone(), holds[at]);
		match std::panic::catch_unwind(move || vh::build_failure(&ss, code, &dd, hh)) {
			Ok(r) => r,
			Err(_) => {
				// the builder's debug assertion: legitimate exactly when the message would not fit
				if plen + 2 + 42 + 924 <= 65535 {
					judge.push(js("the failure builder panicked on a failure that fits into update_fail_htlc"));
				}
				return format!("{{\"kind\":\"failb\",\"built\":false,\"stages\":[],\"judge\":{}}}", jlist(&judge));
			},
		}
	};
	if d.len() != plen {
		judge.push(format!("\"built packet has {} bytes instead of {}\"", d.len(), plen));
	}
	let mut stages = Vec::new();
	// type (2) + channel_id (32) + htlc_id (8) + u16 length prefix + reason + TLV 1 (type, BigSize length 920, value)
	let wire = |d: &Vec<u8>, ad: &Option<Vec<u8>>| {
		(2 + 32 + 8 + 2 + d.len() + ad.as_ref().map_or(0, |b| 1 + 3 + b.len()), vh::fail_wire_len(d.clone(), ad.clone()))
	};
	let (w0, h0) = wire(&d, &at_data);
	if w0 != h0 {
		judge.push(js("update_fail_htlc_wire_len differs from the serialized message length"));
	}
	stages.push(format!("{{\"len\":{},\"attr\":{},\"wire\":{}}}", d.len(), at_data.is_some(), w0));
	let built_with_attr = at_data.is_some();
	for j in (0..at).rev() {
		let (dw, aw) = vh::fail_msg_roundtrip(d.clone(), at_data.clone());
		if (dw.clone(), aw.clone()) != (d.clone(), at_data.clone()) {
			judge.push(js("update_fail_htlc does not carry the failure unchanged"));
		}
		let (d2, a2) = vh::wrap_failure_via_reason(&keys[j].shared_secret, dw, aw, holds[j], persists(a, j));
		d = d2;
		at_data = a2;
		let (w, h) = wire(&d, &at_data);
		if w != h {
			judge.push(js("update_fail_htlc_wire_len differs from the serialized message length"));
		}
		if w > 65535 {
			judge.push(format!("\"relay {} produced an update_fail_htlc of {} bytes\"", j, w));
		}
		// a relayer may drop attribution data only if keeping it would exceed the message size limit
		let with_attr = d.len() + 2 + 42 + 924;
		if at_data.is_none() && with_attr <= 65535 {
			judge.push(format!("\"relay {} dropped attribution data although the message would have had {} bytes\"", j, with_attr));
		}
		stages.push(format!("{{\"len\":{},\"attr\":{},\"wire\":{}}}", d.len(), at_data.is_some(), w));
	}
	let cap = CapLog::new();
	let dec = vh::process_failure(&secp, &cap, &path, &sess, d.clone(), at_data.clone());
	let (_dec_json, hop, inconsistent) = decoded_json(&dec, &path, cap.blamed(&path));
	// with attribution dropped on the way the hold-time count legitimately differs; checked below
	if at_data.is_some() && built_with_attr {
		judge.extend(inconsistent);
	}
	if dec.unattributed || dec.code != Some(code) || dec.data.as_ref() != Some(&data) || hop != Some(at) {
		judge.push(format!("\"failure of hop {} with code {} decoded as hop {:?} code {:?}\"", at, code, hop, dec.code));
	}
	// whenever the failing hop's packet carries attribution data and relaying cannot push the message over the
	// limit, the sender reads every hold time (the first 20)
	let fits = plen + 2 + 42 + 924 <= 65535;
	let want_holds: Vec<u32> = holds[..=at].iter().cloned().take(20).collect();
	if built_with_attr && fits && dec.hold_times != want_holds {
		judge.push(format!("\"hold times {:?} instead of {:?} (packet data {} bytes)\"", dec.hold_times, want_holds, plen));
	}
	format!(
		"{{\"kind\":\"failb\",\"built\":true,\"stages\":{},\"decoded\":{{\"code\":{},\"hop\":{},\"hold_times\":[{}],\"unattributed\":{}}},\"judge\":{}}}",
		jlist(&stages),
		dec.code.map(|c| c.to_string()).unwrap_or("null".into()),
		hop.map(|c| c.to_string()).unwrap_or("null".into()),
		dec.hold_times.iter().map(|t| t.to_string()).collect::<Vec<_>>().join(","),
		dec.unattributed,
		jlist(&judge)
	)
}

fn do_decode(a: &HashMap<String, String>) -> String {
	let secp = Secp256k1::new();
	let sess = SecretKey::from_slice(&arr32(&a["sess"])).unwrap();
	let (_nodes, path) = parse_path(a);
	let cap = CapLog::new();
	let dec = vh::process_failure(&secp, &cap, &path, &sess, unhex(&a["data"]), opt_hex(&a["attr"]));
	let (dec_json, _, _) = decoded_json(&dec, &path, cap.blamed(&path));
	format!("{{\"kind\":\"decode\",\"decoded\":{}}}", dec_json)
}

fn do_fulfill(a: &HashMap<String, String>) -> String {
	let secp = Secp256k1::new();
	let logger = NoLog;
	let sess = SecretKey::from_slice(&arr32(&a["sess"])).unwrap();
	let (_nodes, path) = parse_path(a);
	let holds: Vec<u32> = a["holds"].split(',').map(|x| x.parse().unwrap()).collect();
	let (keys, _) = vh::hop_keys(&secp, &path, &sess);
	let n = path.hops.len();
	let mut judge: Vec<String> = Vec::new();
	let mut stages = Vec::new();
	let mut cur: Option<Vec<u8>> = None;
	for j in (0..n).rev() {
		// what arrived over the wire, kept across a restart while the claim is pending, then processed
		let arrived = vh::fulfill_msg_roundtrip(cur.clone());
		if arrived != cur {
			judge.push(js("update_fulfill_htlc does not carry the attribution data unchanged"));
		}
		let kept = if persists(a, j) { arrived.map(vh::attribution_roundtrip) } else { arrived };
		let next = vh::fulfill_attribution(kept, &keys[j].shared_secret, holds[j]);
		let next = if persists(a, j) { vh::attribution_roundtrip(next) } else { next };
		stages.push(js(&hex(&next)));
		cur = Some(next);
	}
	let got = vh::decode_fulfill(&secp, &logger, &path, &sess, cur.unwrap());
	let want: Vec<u32> = holds.iter().cloned().take(20).collect();
	if got != want {
		judge.push(format!("\"fulfil hold times {:?} instead of {:?}\"", got, want));
	}
	format!(
		"{{\"kind\":\"fulfill\",\"stages\":{},\"hold_times\":[{}],\"judge\":{}}}",
		jlist(&stages),
		got.iter().map(|t| t.to_string()).collect::<Vec<_>>().join(","),
		jlist(&judge)
	)
}

fn main() {
	for_each_case(|l| {
		let cmd = l.split_whitespace().next().unwrap();
		let a = kv(l);
		match cmd {
			"consts" => format!(
				"{{{}}}",
				vh::constants().iter().map(|(n, v)| format!("\"{}\":{}", n, v)).collect::<Vec<_>>().join(",")
			),
			"pay" => do_pay(&a),
			"raw" => do_raw(&a),
			"rcpt" => do_rcpt(&a),
			"failb" => do_failb(&a),
			"peel" => do_peel(&a),
			"keys" => do_keys(&a),
			"fail" => do_fail(&a),
			"decode" => do_decode(&a),
			"fulfill" => do_fulfill(&a),
			_ => "{\"kind\":\"badcmd\"}".to_string(),
		}
	});
}
