//! C01 trace harness: two real `ChannelManager`s (functional_test_utils), driven by a schedule of labels
//! with ONE wire message delivered at a time from per-direction FIFOs. After every primitive step a
//! canonical record is produced: wire messages emitted, events, every commitment / closing transaction
//! any signer saw (sign_counterparty / validate_holder / sign_closing), the `ChanDump` of both channels,
//! the `ChannelDetails` limits.
//!
//! usage: h_chan <scenario-file> <out-file>
//! One scenario per line:
//!   scn <id> ct=<0|1|2> value=<sat> push=<msat> fee=<sat/kw> resppm=<ppm> zr=<0..3> maxacc=<n> infl=<pct> hmin=<msat> | <label>;<label>;...
//! Labels:
//!   send <x> abs <msat> | send <x> lim <off> | send <x> min <off> | send <x> frac <permille> | send <x> dust <side> <off>
//!   claim <x> <k> | fail <x> <k> | fee <rate> | tick <x> | deliver <x> | disc | reconn | process <x>
//!   probe <x> over|under|atlimit|atmin | quiesce | close <x>
//! Output: one line `R <json>` per scenario in <out-file> (stdout carries LDK's TestLogger output).
use std::collections::VecDeque;
use std::fmt::Write as FmtWrite;
use std::io::Write;
use std::panic::{self, AssertUnwindSafe};

use bitcoin::hashes::sha256::Hash as Sha256;
use bitcoin::hashes::Hash;
use bitcoin::secp256k1::PublicKey;

use lightning::events::{ClosureReason, Event, PathFailure};
use lightning::ln::chan_utils::CommitmentTransaction;
use lightning::ln::channelmanager::{PaymentId, TrustedChannelFeatures};
use lightning::ln::outbound_payment::RecipientOnionFields;
use lightning::ln::functional_test_utils::*;
use lightning::ln::msgs::{self, BaseMessageHandler, ChannelMessageHandler, ErrorAction, MessageSendEvent};
use lightning::ln::types::ChannelId;
use lightning::ln::verif_hooks as vh;
use lightning::routing::router::{Path, PaymentParameters, Route, RouteHop, RouteParameters};
use lightning::types::features::{ChannelFeatures, NodeFeatures};
use lightning::types::payment::{PaymentHash, PaymentPreimage, PaymentSecret};
use lightning::util::config::UserConfig;

use verif_harness::hex;

#[derive(Clone, Debug)]
enum Wire {
	Add(msgs::UpdateAddHTLC),
	Fulfill(msgs::UpdateFulfillHTLC),
	FailH(msgs::UpdateFailHTLC),
	Malformed(msgs::UpdateFailMalformedHTLC),
	Fee(msgs::UpdateFee),
	Commit(msgs::CommitmentSigned),
	Raa(msgs::RevokeAndACK),
	Reest(msgs::ChannelReestablish),
	Ready(msgs::ChannelReady),
	AnnSigs(msgs::AnnouncementSignatures),
	Shutdown(msgs::Shutdown),
	ClosingSigned(msgs::ClosingSigned),
}

impl Wire {
	fn js(&self) -> String {
		match self {
			Wire::Add(m) => format!("[\"add\",{},{},{},\"{}\"]", m.htlc_id, m.amount_msat, m.cltv_expiry, &hex(&m.payment_hash.0)[..8]),
			Wire::Fulfill(m) => format!("[\"fulfill\",{}]", m.htlc_id),
			Wire::FailH(m) => format!("[\"fail\",{}]", m.htlc_id),
			Wire::Malformed(m) => format!("[\"malformed\",{}]", m.htlc_id),
			Wire::Fee(m) => format!("[\"fee\",{}]", m.feerate_per_kw),
			Wire::Commit(m) => format!("[\"commit\",{}]", m.htlc_signatures.len()),
			Wire::Raa(_) => "[\"raa\"]".to_string(),
			Wire::Reest(m) => format!("[\"reest\",{},{}]", m.next_local_commitment_number, m.next_remote_commitment_number),
			Wire::Ready(_) => "[\"ready\"]".to_string(),
			Wire::AnnSigs(_) => "[\"annsigs\"]".to_string(),
			Wire::Shutdown(m) => format!("[\"shutdown\",{}]", m.scriptpubkey.len()),
			Wire::ClosingSigned(m) => format!("[\"closing_signed\",{}]", m.fee_satoshis),
		}
	}
}

thread_local! {
	/// Step records of the scenario being run (kept outside `Env` so that they survive a panic).
	static STEPS: std::cell::RefCell<Vec<String>> = std::cell::RefCell::new(Vec::new());
	static HEAD: std::cell::RefCell<String> = std::cell::RefCell::new(String::new());
}

struct Pay {
	hash: PaymentHash,
	preimage: PaymentPreimage,
	amt: u64,
	from: usize,
	/// 0 sent, 1 claimable at receiver, 2 claim requested, 3 fail requested, 4 refused locally
	st: u8,
}

struct Cfg {
	id: String,
	ct: u8,
	value: u64,
	push: u64,
	fee: u32,
	resppm: u32,
	zr: u8,
	maxacc: u16,
	infl: u8,
	hmin: u64,
	/// node-1 overrides (0 / absent = same as node 0)
	resppm_b: u32,
	maxacc_b: u16,
	infl_b: u8,
	hmin_b: u64,
	/// dust limits advertised in open_channel / accept_channel (0 = the built-in 354)
	hd: [u64; 2],
	/// force_close_avoidance_max_fee_satoshis per node
	fcamax: [u64; 2],
	upfront: bool,
	/// our_to_self_delay per node (0 = default)
	tsd: [u16; 2],
}

fn esc(s: &str) -> String {
	let mut o = String::new();
	for c in s.chars() {
		match c {
			'"' => o.push_str("\\\""),
			'\\' => o.push_str("\\\\"),
			'\n' => o.push_str("\\n"),
			c if (c as u32) < 0x20 => o.push(' '),
			c => o.push(c),
		}
	}
	o
}

fn commit_js(kind: &str, who: usize, tx: &CommitmentTransaction) -> String {
	let built = tx.trust().built_transaction().transaction.clone();
	let mut outs: Vec<u64> = built.output.iter().map(|o| o.value.to_sat()).collect();
	outs.sort();
	let htlcs: Vec<String> = tx
		.nondust_htlcs()
		.iter()
		.map(|h| {
			let ok = match h.transaction_output_index {
				Some(i) => built.output.get(i as usize).map(|o| o.value.to_sat()) == Some(h.amount_msat / 1000),
				None => false,
			};
			format!("[{},{},{},\"{}\",{}]", h.offered as u8, h.amount_msat, h.cltv_expiry, &hex(&h.payment_hash.0)[..8], ok as u8)
		})
		.collect();
	format!(
		"{{\"k\":\"{}\",\"who\":{},\"n\":{},\"tb\":{},\"tc\":{},\"fr\":{},\"htlcs\":[{}],\"outs\":[{}],\"txid\":\"{}\"}}",
		kind,
		who,
		tx.commitment_number(),
		tx.to_broadcaster_value_sat(),
		tx.to_countersignatory_value_sat(),
		tx.negotiated_feerate_per_kw(),
		htlcs.join(","),
		outs.iter().map(|x| x.to_string()).collect::<Vec<_>>().join(","),
		&tx.trust().txid().to_string()[..16]
	)
}

fn dump_js(d: &vh::ChanDump) -> String {
	let hl = |v: &Vec<vh::HtlcDump>| -> String {
		v.iter().map(|h| format!("[{},{},{},\"{}\",{}]", h.0, h.1, h.2, &hex(&h.3)[..8], h.4)).collect::<Vec<_>>().join(",")
	};
	format!(
		"{{\"fund\":{},\"v\":{},\"self\":{},\"fr\":{},\"pfee\":{},\"hcfee\":{},\"in\":[{}],\"out\":[{}],\"hc\":[{}],\"nh\":{},\"nc\":{},\"hn\":{},\"cn\":{},\"ready\":{},\"arr\":{},\"disc\":{},\"mon\":{},\"lsd\":{},\"rsd\":{},\"raa1\":{},\"hd\":{},\"cd\":{},\"hres\":{},\"cres\":{},\"hmin\":{},\"cmin\":{},\"hinfl\":{},\"cinfl\":{},\"hacc\":{},\"cacc\":{}}}",
		d.is_outbound as u8,
		d.channel_value_satoshis,
		d.value_to_self_msat,
		d.feerate_per_kw,
		match d.pending_update_fee { Some((f, s)) => format!("[{},{}]", f, s), None => "null".to_string() },
		match d.holding_cell_update_fee { Some(f) => f.to_string(), None => "null".to_string() },
		hl(&d.inbound),
		hl(&d.outbound),
		d.holding_cell.iter().map(|(k, v)| format!("[{},{}]", k, v)).collect::<Vec<_>>().join(","),
		d.next_holder_htlc_id,
		d.next_counterparty_htlc_id,
		d.holder_next_commitment_number,
		d.counterparty_next_commitment_number,
		d.channel_ready as u8,
		d.awaiting_remote_revoke as u8,
		d.peer_disconnected as u8,
		d.monitor_update_in_progress as u8,
		d.local_shutdown_sent as u8,
		d.remote_shutdown_sent as u8,
		d.resend_raa_first as u8,
		d.holder_dust_limit_satoshis,
		d.counterparty_dust_limit_satoshis,
		d.holder_selected_channel_reserve_satoshis,
		match d.counterparty_selected_channel_reserve_satoshis { Some(x) => x.to_string(), None => "null".to_string() },
		d.holder_htlc_minimum_msat,
		d.counterparty_htlc_minimum_msat,
		d.holder_max_htlc_value_in_flight_msat,
		d.counterparty_max_htlc_value_in_flight_msat,
		d.holder_max_accepted_htlcs,
		d.counterparty_max_accepted_htlcs
	)
}

struct Env<'a, 'b, 'c, 'd> {
	nodes: &'a Vec<Node<'b, 'c, 'd>>,
	ids: [PublicKey; 2],
	chan_id: ChannelId,
	scid: u64,
	q: [VecDeque<Wire>; 2],
	connected: bool,
	pays: Vec<Pay>,
	keys: [[u8; 32]; 2],
	closed: [bool; 2],
	seed: u64,
	ct: u8,
	nbroadcast: [usize; 2],
}

impl<'a, 'b, 'c, 'd> Env<'a, 'b, 'c, 'd> {
	fn who(&self, k: &[u8; 32]) -> usize {
		if *k == self.keys[0] {
			0
		} else if *k == self.keys[1] {
			1
		} else {
			9
		}
	}

	fn dump(&self, x: usize) -> Option<vh::ChanDump> {
		vh::chan_dump(self.nodes[x].node, &self.ids[1 - x], &self.chan_id).map(|(_, d)| d)
	}

	fn details_js(&self, x: usize) -> String {
		for d in self.nodes[x].node.list_channels() {
			if d.channel_id == self.chan_id {
				return format!(
					"{{\"lim\":{},\"min\":{},\"ocap\":{},\"icap\":{},\"usable\":{},\"dustexp\":{}}}",
					d.next_outbound_htlc_limit_msat,
					d.next_outbound_htlc_minimum_msat,
					d.outbound_capacity_msat,
					d.inbound_capacity_msat,
					d.is_usable as u8,
					d.current_dust_exposure_msat.unwrap_or(0)
				);
			}
		}
		"null".to_string()
	}

	/// `[all targets, ChannelCloseMinimum override or -1, NonAnchorChannelFee override or -1]`
	fn est_js(&self, x: usize) -> String {
		use lightning::chain::chaininterface::ConfirmationTarget as CT;
		let fe = self.nodes[x].fee_estimator;
		let ov = fe.target_override.lock().unwrap();
		let g = |t: CT| ov.get(&t).map(|v| *v as i64).unwrap_or(-1);
		format!("[{},{},{}]", *fe.sat_per_kw.lock().unwrap(), g(CT::ChannelCloseMinimum), g(CT::NonAnchorChannelFee))
	}

	fn estimators_agree(&self) -> bool {
		let a = *self.nodes[0].fee_estimator.sat_per_kw.lock().unwrap();
		let b = *self.nodes[1].fee_estimator.sat_per_kw.lock().unwrap();
		a == b
			&& self.nodes[0].fee_estimator.target_override.lock().unwrap().is_empty()
			&& self.nodes[1].fee_estimator.target_override.lock().unwrap().is_empty()
	}

	fn limits(&self, x: usize) -> Option<(u64, u64, bool)> {
		for d in self.nodes[x].node.list_channels() {
			if d.channel_id == self.chan_id {
				return Some((d.next_outbound_htlc_limit_msat, d.next_outbound_htlc_minimum_msat, d.is_usable));
			}
		}
		None
	}

	/// Collects everything the two nodes produced since the last call and appends one step record.
	fn record(&mut self, label: &str, extra: &str) {
		let mut emitted: [Vec<String>; 2] = [Vec::new(), Vec::new()];
		let mut errs: Vec<String> = Vec::new();
		let mut want_disconnect = false;
		for x in 0..2 {
			let evs = self.nodes[x].node.get_and_clear_pending_msg_events();
			for ev in evs {
				let push = |w: Wire, q: &mut VecDeque<Wire>, em: &mut Vec<String>| {
					em.push(w.js());
					q.push_back(w);
				};
				let (q, em) = (&mut self.q[x], &mut emitted[x]);
				match ev {
					MessageSendEvent::UpdateHTLCs { updates, .. } => {
						for m in updates.update_add_htlcs {
							push(Wire::Add(m), q, em);
						}
						for m in updates.update_fulfill_htlcs {
							push(Wire::Fulfill(m), q, em);
						}
						for m in updates.update_fail_htlcs {
							push(Wire::FailH(m), q, em);
						}
						for m in updates.update_fail_malformed_htlcs {
							push(Wire::Malformed(m), q, em);
						}
						if let Some(m) = updates.update_fee {
							push(Wire::Fee(m), q, em);
						}
						for m in updates.commitment_signed {
							push(Wire::Commit(m), q, em);
						}
					},
					MessageSendEvent::SendRevokeAndACK { msg, .. } => push(Wire::Raa(msg), q, em),
					MessageSendEvent::SendChannelReestablish { msg, .. } => push(Wire::Reest(msg), q, em),
					MessageSendEvent::SendChannelReady { msg, .. } => push(Wire::Ready(msg), q, em),
					MessageSendEvent::SendAnnouncementSignatures { msg, .. } => push(Wire::AnnSigs(msg), q, em),
					MessageSendEvent::SendShutdown { msg, .. } => push(Wire::Shutdown(msg), q, em),
					MessageSendEvent::SendClosingSigned { msg, .. } => push(Wire::ClosingSigned(msg), q, em),
					MessageSendEvent::HandleError { action, .. } => match action {
						ErrorAction::SendErrorMessage { msg } => errs.push(format!("[{},\"error\",\"{}\"]", x, esc(&msg.data))),
						ErrorAction::SendWarningMessage { msg, .. } => errs.push(format!("[{},\"warning\",\"{}\"]", x, esc(&msg.data))),
						ErrorAction::DisconnectPeer { msg } => {
							want_disconnect = true;
							match msg {
								Some(m) => errs.push(format!("[{},\"error\",\"{}\"]", x, esc(&m.data))),
								None => errs.push(format!("[{},\"disconnect\",\"\"]", x)),
							}
						},
						ErrorAction::DisconnectPeerWithWarning { msg } => {
							want_disconnect = true;
							errs.push(format!("[{},\"disconnect_warning\",\"{}\"]", x, esc(&msg.data)));
						},
						_ => {},
					},
					// gossip: not part of the channel protocol
					MessageSendEvent::SendChannelUpdate { .. }
					| MessageSendEvent::BroadcastChannelUpdate { .. }
					| MessageSendEvent::BroadcastChannelAnnouncement { .. }
					| MessageSendEvent::BroadcastNodeAnnouncement { .. }
					| MessageSendEvent::SendChannelAnnouncement { .. } => {},
					other => errs.push(format!("[{},\"unexpected_msg_event\",\"{}\"]", x, esc(&format!("{:?}", other)[..60.min(format!("{:?}", other).len())]))),
				}
			}
		}
		let mut events: Vec<String> = Vec::new();
		for x in 0..2 {
			for ev in self.nodes[x].node.get_and_clear_pending_events() {
				match ev {
					Event::PaymentClaimable { payment_hash, amount_msat, .. } => {
						events.push(format!("[{},\"claimable\",\"{}\",{}]", x, &hex(&payment_hash.0)[..8], amount_msat));
						for p in self.pays.iter_mut() {
							if p.hash == payment_hash && p.st == 0 {
								p.st = 1;
							}
						}
					},
					Event::PaymentClaimed { payment_hash, amount_msat, .. } => {
						events.push(format!("[{},\"claimed\",\"{}\",{}]", x, &hex(&payment_hash.0)[..8], amount_msat))
					},
					Event::PaymentSent { payment_hash, .. } => events.push(format!("[{},\"sent\",\"{}\"]", x, &hex(&payment_hash.0)[..8])),
					Event::PaymentFailed { payment_hash, .. } => {
						events.push(format!("[{},\"payfailed\",\"{}\"]", x, payment_hash.map(|h| hex(&h.0)[..8].to_string()).unwrap_or_default()))
					},
					Event::PaymentPathFailed { payment_hash, failure, .. } => {
						let initial = matches!(failure, PathFailure::InitialSend { .. });
						let why = match failure {
							PathFailure::InitialSend { err } => format!("{:?}", err),
							PathFailure::OnPath { .. } => "onpath".to_string(),
						};
						events.push(format!("[{},\"pathfailed\",\"{}\",{},\"{}\"]", x, &hex(&payment_hash.0)[..8], initial as u8, esc(&why[..why.len().min(160)])));
						if initial {
							for p in self.pays.iter_mut() {
								if p.hash == payment_hash {
									p.st = 4;
								}
							}
						}
					},
					Event::PaymentPathSuccessful { .. } => {},
					Event::HTLCHandlingFailed { failure_type, failure_reason, .. } => events.push(format!(
						"[{},\"htlc_handling_failed\",\"{}\",\"{}\"]",
						x,
						esc(&format!("{:?}", failure_type)[..format!("{:?}", failure_type).len().min(40)]),
						esc(&format!("{:?}", failure_reason)[..format!("{:?}", failure_reason).len().min(80)])
					)),
					Event::ChannelClosed { reason, last_local_balance_msat, .. } => {
						let coop = matches!(
							reason,
							ClosureReason::LegacyCooperativeClosure
								| ClosureReason::CounterpartyInitiatedCooperativeClosure
								| ClosureReason::LocallyInitiatedCooperativeClosure
						);
						self.closed[x] = true;
						events.push(format!(
							"[{},\"closed\",{},\"{}\",{}]",
							x,
							coop as u8,
							esc(&format!("{}", reason)[..format!("{}", reason).len().min(120)]),
							last_local_balance_msat.unwrap_or(0)
						));
					},
					Event::ChannelReady { .. } | Event::ChannelPending { .. } => {},
					other => {
						let s = format!("{:?}", other);
						events.push(format!("[{},\"other\",\"{}\"]", x, esc(&s[..s.len().min(50)])));
					},
				}
			}
		}
		let mut commits: Vec<String> = Vec::new();
		for (k, seen) in vh::commit_log::take() {
			let who = self.who(&k);
			match seen {
				vh::commit_log::SeenTx::Commitment(kind, tx) => commits.push(commit_js(kind, who, &tx)),
				vh::commit_log::SeenTx::Closing(tx) => commits.push(format!(
					"{{\"k\":\"closing\",\"who\":{},\"th\":{},\"tcp\":{},\"outs\":[{}]}}",
					who,
					tx.to_holder_value_sat(),
					tx.to_counterparty_value_sat(),
					tx.trust().built_transaction().output.iter().map(|o| o.value.to_sat().to_string()).collect::<Vec<_>>().join(",")
				)),
			}
		}
		let mut bcast: Vec<String> = Vec::new();
		for x in 0..2 {
			let txs = self.nodes[x].tx_broadcaster.txn_broadcasted.lock().unwrap();
			for tx in txs.iter().skip(self.nbroadcast[x]) {
				bcast.push(format!("[{},[{}],{}]", x, tx.output.iter().map(|o| o.value.to_sat().to_string()).collect::<Vec<_>>().join(","), tx.input.len()));
			}
			self.nbroadcast[x] = txs.len();
		}
		for x in 0..2 {
			self.nodes[x].chain_monitor.added_monitors.lock().unwrap().clear();
		}
		let d0 = self.dump(0);
		let d1 = self.dump(1);
		let mut s = String::new();
		write!(
			s,
			"{{\"l\":\"{}\"{},\"em\":[[{}],[{}]],\"errs\":[{}],\"ev\":[{}],\"commits\":[{}],\"bcast\":[{}],\"d\":[{},{}],\"det\":[{},{}],\"ql\":[{},{}],\"conn\":{},\"est\":[{},{}]}}",
			esc(label),
			extra,
			emitted[0].join(","),
			emitted[1].join(","),
			errs.join(","),
			events.join(","),
			commits.join(","),
			bcast.join(","),
			d0.as_ref().map(dump_js).unwrap_or("null".to_string()),
			d1.as_ref().map(dump_js).unwrap_or("null".to_string()),
			self.details_js(0),
			self.details_js(1),
			self.q[0].len(),
			self.q[1].len(),
			self.connected as u8,
			self.est_js(0),
			self.est_js(1)
		)
		.unwrap();
		STEPS.with(|v| v.borrow_mut().push(s));
		if want_disconnect && self.connected {
			self.do_disconnect("disc(auto)");
		}
	}

	fn do_disconnect(&mut self, label: &str) {
		if !self.connected {
			self.record(label, ",\"skip\":1");
			return;
		}
		self.nodes[0].node.peer_disconnected(self.ids[1]);
		self.nodes[1].node.peer_disconnected(self.ids[0]);
		self.connected = false;
		// whatever was in flight is lost
		self.record(label, "");
		self.q[0].clear();
		self.q[1].clear();
	}

	fn do_reconnect(&mut self) {
		if self.connected || self.closed[0] || self.closed[1] {
			self.record("reconn", ",\"skip\":1");
			return;
		}
		let init0 = msgs::Init { features: self.nodes[0].node.init_features(), networks: None, remote_network_address: None };
		let init1 = msgs::Init { features: self.nodes[1].node.init_features(), networks: None, remote_network_address: None };
		self.nodes[0].node.peer_connected(self.ids[1], &init1, true).unwrap();
		self.nodes[1].node.peer_connected(self.ids[0], &init0, false).unwrap();
		self.connected = true;
		self.record("reconn", "");
	}

	fn do_deliver(&mut self, x: usize, tag: &str) -> bool {
		let m = match self.q[x].pop_front() {
			Some(m) => m,
			None => {
				self.record(&format!("deliver {}", x), ",\"skip\":1");
				return false;
			},
		};
		let y = 1 - x;
		let from = self.ids[x];
		let n = self.nodes[y].node;
		let js = m.js();
		match m {
			Wire::Add(m) => n.handle_update_add_htlc(from, &m),
			Wire::Fulfill(m) => n.handle_update_fulfill_htlc(from, m),
			Wire::FailH(m) => n.handle_update_fail_htlc(from, &m),
			Wire::Malformed(m) => n.handle_update_fail_malformed_htlc(from, &m),
			Wire::Fee(m) => n.handle_update_fee(from, &m),
			Wire::Commit(m) => n.handle_commitment_signed(from, &m),
			Wire::Raa(m) => n.handle_revoke_and_ack(from, &m),
			Wire::Reest(m) => n.handle_channel_reestablish(from, &m),
			Wire::Ready(m) => n.handle_channel_ready(from, &m),
			Wire::AnnSigs(m) => n.handle_announcement_signatures(from, &m),
			Wire::Shutdown(m) => n.handle_shutdown(from, &m),
			Wire::ClosingSigned(m) => n.handle_closing_signed(from, &m),
		}
		self.record(&format!("deliver {}", x), &format!(",\"msg\":{}{}", js, tag));
		true
	}

	fn dust_threshold_msat(&self, x: usize, side: u64) -> u64 {
		let d = match self.dump(x) {
			Some(d) => d,
			None => return 354_000,
		};
		let fr = d.feerate_per_kw as u64;
		let (ws, wt) = if self.ct == 1 { (0, 0) } else if self.ct == 2 { (0, 0) } else { (703, 663) };
		if side == 0 {
			// on the sender's own commitment the HTLC is offered: timeout tx fee
			(d.holder_dust_limit_satoshis + fr * wt / 1000) * 1000
		} else {
			(d.counterparty_dust_limit_satoshis + fr * ws / 1000) * 1000
		}
	}

	/// Returns true iff the sender did not refuse the HTLC locally.
	fn do_send(&mut self, x: usize, amt: u64, tag: &str) -> bool {
		let y = 1 - x;
		let i = self.pays.len() as u64;
		let mut pre = [0u8; 32];
		pre[..8].copy_from_slice(&self.seed.to_be_bytes());
		pre[8..16].copy_from_slice(&i.to_be_bytes());
		pre[16] = 0xC1;
		let preimage = PaymentPreimage(pre);
		let hash = PaymentHash(Sha256::hash(&pre).to_byte_array());
		let secret: PaymentSecret = match self.nodes[y].node.create_inbound_payment_for_hash(hash, None, 7200, None, None) {
			Ok((s, _)) => s,
			Err(_) => {
				self.record(&format!("send {} {}", x, amt), ",\"skip\":1");
				return false;
			},
		};
		let payment_params = PaymentParameters::from_node_id(self.ids[y], TEST_FINAL_CLTV)
			.with_bolt11_features(self.nodes[y].node.bolt11_invoice_features())
			.unwrap();
		let route_params = RouteParameters::from_payment_params_and_value(payment_params, amt);
		let route = Route {
			paths: vec![Path {
				hops: vec![RouteHop {
					pubkey: self.ids[y],
					node_features: NodeFeatures::empty(),
					short_channel_id: self.scid,
					channel_features: ChannelFeatures::empty(),
					fee_msat: amt,
					cltv_expiry_delta: TEST_FINAL_CLTV,
					maybe_announced_channel: true,
				}],
				blinded_tail: None,
			}],
			route_params,
		};
		let onion = RecipientOnionFields::secret_only(secret, amt);
		let res = self.nodes[x].node.send_payment_with_route(route, hash, onion, PaymentId(hash.0));
		self.pays.push(Pay { hash, preimage, amt, from: x, st: 0 });
		let idx = self.pays.len() - 1;
		let r = match &res {
			Ok(()) => "ok".to_string(),
			Err(e) => format!("{:?}", e),
		};
		if res.is_err() {
			self.pays[idx].st = 4;
		}
		self.record(&format!("send {} {}", x, amt), &format!(",\"hash\":\"{}\",\"res\":\"{}\"{}", &hex(&hash.0)[..8], esc(&r), tag));
		self.pays[idx].st != 4
	}

	fn claimables(&self, x: usize) -> Vec<usize> {
		(0..self.pays.len()).filter(|&i| self.pays[i].from == 1 - x && self.pays[i].st == 1).collect()
	}

	fn quiesce(&mut self, tag: &str) {
		for _ in 0..400 {
			if self.q[0].is_empty() && self.q[1].is_empty() {
				let mut did = false;
				for x in 0..2 {
					if self.nodes[x].node.needs_pending_htlc_processing() {
						self.nodes[x].node.process_pending_htlc_forwards();
						self.record(&format!("process {}", x), tag);
						did = true;
					}
				}
				if !did {
					break;
				}
				continue;
			}
			let x = if !self.q[0].is_empty() { 0 } else { 1 };
			self.do_deliver(x, tag);
		}
	}

	fn in_sync(&self) -> bool {
		if !self.connected || !self.q[0].is_empty() || !self.q[1].is_empty() {
			return false;
		}
		for x in 0..2 {
			match self.dump(x) {
				Some(d) => {
					if d.awaiting_remote_revoke
						|| d.peer_disconnected || d.monitor_update_in_progress
						|| !d.holding_cell.is_empty() || d.pending_update_fee.is_some()
						|| d.holding_cell_update_fee.is_some()
						|| d.local_shutdown_sent || d.remote_shutdown_sent
						|| d.inbound.iter().any(|h| h.4 != 3)
						|| d.outbound.iter().any(|h| h.4 != 1)
					{
						return false;
					}
				},
				None => return false,
			}
		}
		true
	}

	fn run_label(&mut self, l: &str) {
		let t: Vec<&str> = l.split_whitespace().collect();
		if t.is_empty() {
			return;
		}
		let num = |i: usize| -> i128 { t.get(i).and_then(|s| s.parse::<i128>().ok()).unwrap_or(0) };
		match t[0] {
			"send" => {
				let x = num(1) as usize & 1;
				let (lim, min, _) = self.limits(x).unwrap_or((0, 0, false));
				let amt: i128 = match t[2] {
					"abs" => num(3),
					"lim" => lim as i128 + num(3),
					"min" => min as i128 + num(3),
					"frac" => (lim as i128) * num(3) / 1000,
					"dust" => self.dust_threshold_msat(x, num(3) as u64) as i128 + num(4),
					_ => 0,
				};
				let amt = amt.max(0).min(u64::MAX as i128 / 4) as u64;
				if amt == 0 {
					// a zero-value payment is an API misuse of the router, not a channel operation
					self.record(&format!("send {} 0", x), ",\"skip\":1");
					return;
				}
				self.do_send(x, amt, "");
			},
			"claim" | "fail" => {
				let x = num(1) as usize & 1;
				let c = self.claimables(x);
				if c.is_empty() {
					self.record(&format!("{} {}", t[0], x), ",\"skip\":1");
					return;
				}
				let i = c[(num(2) as usize) % c.len()];
				let h = hex(&self.pays[i].hash.0)[..8].to_string();
				if t[0] == "claim" {
					self.nodes[x].node.claim_funds(self.pays[i].preimage);
					self.pays[i].st = 2;
				} else {
					self.nodes[x].node.fail_htlc_backwards(&self.pays[i].hash);
					self.pays[i].st = 3;
				}
				self.record(&format!("{} {}", t[0], x), &format!(",\"hash\":\"{}\",\"amt\":{}", h, self.pays[i].amt));
			},
			"fee" => {
				let r = num(1) as u32;
				// Environment assumption: the two nodes' fee estimators agree whenever an update_fee is
				// processed (otherwise the receiver legitimately closes with "feerate much too low"), so
				// the estimate only moves while no fee update is pending anywhere.
				let busy = (0..2).any(|x| match self.dump(x) {
					Some(d) => d.pending_update_fee.is_some() || d.holding_cell_update_fee.is_some(),
					None => true,
				}) || self.q.iter().any(|q| q.iter().any(|m| matches!(m, Wire::Fee(_))));
				if busy {
					self.record(&format!("fee {}", r), ",\"skip\":1");
					return;
				}
				for x in 0..2 {
					*self.nodes[x].fee_estimator.sat_per_kw.lock().unwrap() = r;
					self.nodes[x].fee_estimator.target_override.lock().unwrap().clear();
				}
				self.record(&format!("fee {}", r), "");
			},
			"tick" => {
				let x = num(1) as usize & 1;
				// with scripted, disagreeing estimators a fee update would legitimately be refused
				// ("feerate much too low"): those scripts are for the closing negotiation only
				if !self.estimators_agree() {
					self.record(&format!("tick {}", x), ",\"skip\":1");
					return;
				}
				self.nodes[x].node.timer_tick_occurred();
				self.record(&format!("tick {}", x), "");
			},
			"est" => {
				// one node's estimator, all confirmation targets
				let x = num(1) as usize & 1;
				let r = num(2) as u32;
				let busy = (0..2).any(|y| match self.dump(y) {
					Some(d) => d.pending_update_fee.is_some() || d.holding_cell_update_fee.is_some(),
					None => false,
				}) || self.q.iter().any(|q| q.iter().any(|m| matches!(m, Wire::Fee(_))));
				if busy {
					self.record(&format!("est {} {}", x, r), ",\"skip\":1");
					return;
				}
				*self.nodes[x].fee_estimator.sat_per_kw.lock().unwrap() = r;
				self.record(&format!("est {} {}", x, r), "");
			},
			"estt" => {
				// one node's estimate for one confirmation target
				use lightning::chain::chaininterface::ConfirmationTarget as CT;
				let x = num(1) as usize & 1;
				let r = num(3) as u32;
				let t = match t.get(2).cloned().unwrap_or("") {
					"closemin" => Some(CT::ChannelCloseMinimum),
					"normal" => Some(CT::NonAnchorChannelFee),
					_ => None,
				};
				match t {
					Some(t) => {
						self.nodes[x].fee_estimator.target_override.lock().unwrap().insert(t, r);
						self.record(l, "");
					},
					None => self.record(l, ",\"skip\":1,\"badlabel\":1"),
				}
			},
			"deliver" => {
				let x = num(1) as usize & 1;
				self.do_deliver(x, "");
			},
			"disc" => self.do_disconnect("disc"),
			"reconn" => self.do_reconnect(),
			"process" => {
				let x = num(1) as usize & 1;
				self.nodes[x].node.process_pending_htlc_forwards();
				self.record(&format!("process {}", x), "");
			},
			"quiesce" => self.quiesce(""),
			"close" => {
				let x = num(1) as usize & 1;
				let r = self.nodes[x].node.close_channel(&self.chan_id, &self.ids[1 - x]);
				self.record(&format!("close {}", x), &format!(",\"res\":\"{}\"", esc(&format!("{:?}", r))));
			},
			"probe" => {
				let x = num(1) as usize & 1;
				let mode = t.get(2).cloned().unwrap_or("over");
				let (lim, min, usable) = match self.limits(x) {
					Some(l) => l,
					None => {
						self.record(&format!("probe {} {}", x, mode), ",\"skip\":1");
						return;
					},
				};
				if !usable || !self.connected {
					self.record(&format!("probe {} {}", x, mode), ",\"skip\":1");
					return;
				}
				let sync = self.in_sync();
				let pre = format!(",\"probe\":\"{}\",\"lim\":{},\"min\":{},\"sync\":{}", mode, lim, min, sync as u8);
				match mode {
					"over" => {
						self.do_send(x, lim + 1, &pre);
					},
					"under" => {
						if min >= 2 {
							self.do_send(x, min - 1, &pre);
						} else {
							self.record(&format!("probe {} {}", x, mode), ",\"skip\":1");
						}
					},
					"atlimit" | "atmin" => {
						let amt = if mode == "atlimit" { lim } else { min };
						if lim < min || amt == 0 {
							self.record(&format!("probe {} {}", x, mode), ",\"skip\":1");
							return;
						}
						let accepted = self.do_send(x, amt, &pre);
						if accepted && sync {
							// the peer is in sync and has nothing of its own in flight: it must take the HTLC
							let tag = format!(",\"probe\":\"{}-follow\"", mode);
							self.quiesce(&tag);
						}
					},
					_ => {},
				}
			},
			_ => self.record(l, ",\"skip\":1,\"badlabel\":1"),
		}
	}
}

fn parse_cfg(head: &str) -> Cfg {
	let mut c = Cfg {
		id: "?".to_string(), ct: 0, value: 100_000, push: 0, fee: 253, resppm: 10_000, zr: 0, maxacc: 50, infl: 100, hmin: 1,
		resppm_b: 0, maxacc_b: 0, infl_b: 0, hmin_b: u64::MAX, hd: [0, 0], fcamax: [1000, 1000], upfront: true, tsd: [0, 0],
	};
	let t: Vec<&str> = head.split_whitespace().collect();
	if t.len() > 1 {
		c.id = t[1].to_string();
	}
	for kv in t.iter().skip(2) {
		if let Some((k, v)) = kv.split_once('=') {
			let n = v.parse::<u64>().unwrap_or(0);
			match k {
				"ct" => c.ct = n as u8,
				"value" => c.value = n,
				"push" => c.push = n,
				"fee" => c.fee = n as u32,
				"resppm" => c.resppm = n as u32,
				"zr" => c.zr = n as u8,
				"maxacc" => c.maxacc = n as u16,
				"infl" => c.infl = n as u8,
				"hmin" => c.hmin = n,
				"resppmb" => c.resppm_b = n as u32,
				"maxaccb" => c.maxacc_b = n as u16,
				"inflb" => c.infl_b = n as u8,
				"hminb" => c.hmin_b = n,
				"hd0" => c.hd[0] = n,
				"hd1" => c.hd[1] = n,
				"fcamax0" => c.fcamax[0] = n,
				"fcamax1" => c.fcamax[1] = n,
				"upfront" => c.upfront = n != 0,
				"tsd0" => c.tsd[0] = n as u16,
				"tsd1" => c.tsd[1] = n as u16,
				_ => {},
			}
		}
	}
	c
}

fn run_scenario(line: &str) -> String {
	let (head, labels) = match line.split_once('|') {
		Some(x) => x,
		None => (line, ""),
	};
	let c = parse_cfg(head);
	STEPS.with(|v| v.borrow_mut().clear());
	HEAD.with(|h| *h.borrow_mut() = format!("\"id\":\"{}\"", esc(&c.id)));
	let mut user_cfg: UserConfig = if c.ct == 0 { test_legacy_channel_config() } else { test_default_channel_config() };
	if c.ct == 2 {
		user_cfg.channel_handshake_config.negotiate_anchors_zero_fee_htlc_tx = false;
		user_cfg.channel_handshake_config.negotiate_anchor_zero_fee_commitments = true;
	}
	user_cfg.channel_handshake_config.their_channel_reserve_proportional_millionths = c.resppm;
	user_cfg.channel_handshake_config.our_max_accepted_htlcs = c.maxacc;
	user_cfg.channel_handshake_config.announced_channel_max_inbound_htlc_value_in_flight_percentage = c.infl;
	user_cfg.channel_handshake_config.our_htlc_minimum_msat = c.hmin;
	user_cfg.channel_handshake_config.commit_upfront_shutdown_pubkey = c.upfront;
	user_cfg.channel_config.force_close_avoidance_max_fee_satoshis = c.fcamax[0];
	let mut user_cfg_b = user_cfg.clone();
	if c.tsd[0] != 0 {
		user_cfg.channel_handshake_config.our_to_self_delay = c.tsd[0];
	}
	if c.tsd[1] != 0 {
		user_cfg_b.channel_handshake_config.our_to_self_delay = c.tsd[1];
	}
	if c.resppm_b != 0 {
		user_cfg_b.channel_handshake_config.their_channel_reserve_proportional_millionths = c.resppm_b;
	}
	if c.maxacc_b != 0 {
		user_cfg_b.channel_handshake_config.our_max_accepted_htlcs = c.maxacc_b;
	}
	if c.infl_b != 0 {
		user_cfg_b.channel_handshake_config.announced_channel_max_inbound_htlc_value_in_flight_percentage = c.infl_b;
	}
	if c.hmin_b != u64::MAX {
		user_cfg_b.channel_handshake_config.our_htlc_minimum_msat = c.hmin_b;
	}
	user_cfg_b.channel_config.force_close_avoidance_max_fee_satoshis = c.fcamax[1];
	let chanmon_cfgs = create_chanmon_cfgs(2);
	for i in 0..2 {
		*chanmon_cfgs[i].fee_estimator.sat_per_kw.lock().unwrap() = c.fee;
	}
	let node_cfgs = create_node_cfgs(2, &chanmon_cfgs);
	let node_chanmgrs = create_node_chanmgrs(2, &node_cfgs, &[Some(user_cfg), Some(user_cfg_b)]);
	let nodes = create_network(2, &node_cfgs, &node_chanmgrs);
	for i in 0..2 {
		*nodes[i].connect_style.borrow_mut() = ConnectStyle::BestBlockFirst;
	}
	let ids = [nodes[0].node.get_our_node_id(), nodes[1].node.get_our_node_id()];
	let _ = vh::commit_log::take();
	// ---- open the channel, node 0 funds
	let temp_res = if c.zr & 1 == 1 && c.ct != 0 {
		nodes[0].node.create_channel_to_trusted_peer_0reserve(ids[1], c.value, c.push, 42, None, None)
	} else {
		nodes[0].node.create_channel(ids[1], c.value, c.push, 42, None, None)
	};
	let temp = match temp_res {
		Ok(t) => t,
		Err(e) => {
			// the configuration does not describe a channel the library agrees to open
			std::mem::forget(nodes);
			return format!("{{\"id\":\"{}\",\"openfail\":\"{}\",\"steps\":[]}}", esc(&c.id), esc(&format!("{:?}", e)));
		},
	};
	let open = nodes[0]
		.node
		.get_and_clear_pending_msg_events()
		.into_iter()
		.find_map(|e| if let MessageSendEvent::SendOpenChannel { msg, .. } = e { Some(msg) } else { None })
		.unwrap();
	let mut open = open;
	if c.hd[0] != 0 {
		open.common_fields.dust_limit_satoshis = c.hd[0];
		assert!(vh::set_holder_dust_limit(nodes[0].node, &ids[1], &temp, c.hd[0]));
	}
	nodes[1].node.handle_open_channel(ids[0], &open);
	for ev in nodes[1].node.get_and_clear_pending_events() {
		if let Event::OpenChannelRequest { temporary_channel_id, counterparty_node_id, .. } = ev {
			if c.zr & 2 == 2 && c.ct != 0 {
				nodes[1]
					.node
					.accept_inbound_channel_from_trusted_peer(&temporary_channel_id, &counterparty_node_id, 43, TrustedChannelFeatures::ZeroReserve, None)
					.unwrap();
			} else {
				nodes[1].node.accept_inbound_channel(&temporary_channel_id, &counterparty_node_id, 43, None).unwrap();
			}
		}
	}
	let accept = nodes[1]
		.node
		.get_and_clear_pending_msg_events()
		.into_iter()
		.find_map(|e| if let MessageSendEvent::SendAcceptChannel { msg, .. } = e { Some(msg) } else { None });
	let accept = match accept {
		Some(a) => a,
		None => {
			std::mem::forget(nodes);
			return format!("{{\"id\":\"{}\",\"openfail\":\"open_channel refused by the acceptor\",\"steps\":[]}}", esc(&c.id));
		},
	};
	let mut accept = accept;
	if c.hd[1] != 0 {
		accept.common_fields.dust_limit_satoshis = c.hd[1];
		assert!(vh::set_holder_dust_limit(nodes[1].node, &ids[0], &temp, c.hd[1]));
	}
	nodes[0].node.handle_accept_channel(ids[1], &accept);
	let tx = sign_funding_transaction(&nodes[0], &nodes[1], c.value, temp);
	let (msgs_ready, chan_id) = create_chan_between_nodes_with_value_confirm(&nodes[0], &nodes[1], &tx);
	let _ = create_chan_between_nodes_with_value_b(&nodes[0], &nodes[1], &msgs_ready);
	for x in 0..2 {
		nodes[x].node.get_and_clear_pending_msg_events();
		nodes[x].node.get_and_clear_pending_events();
	}
	// the opener's signer made the first recorded call
	let log = vh::commit_log::take();
	let k0 = vh::chan_dump(nodes[0].node, &ids[1], &chan_id).map(|(k, _)| k).unwrap();
	let k1 = vh::chan_dump(nodes[1].node, &ids[0], &chan_id).map(|(k, _)| k).unwrap();
	let scid = nodes[0].node.list_channels().iter().find(|d| d.channel_id == chan_id).and_then(|d| d.short_channel_id).unwrap();
	let ctname = nodes[0].node.list_channels()[0].channel_type.as_ref().map(|t| format!("{}", t)).unwrap_or_default();
	let mut seed: u64 = 0xC01;
	for b in c.id.bytes() {
		seed = seed.wrapping_mul(131).wrapping_add(b as u64);
	}
	let mut env = Env {
		nodes: &nodes,
		ids,
		chan_id,
		scid,
		q: [VecDeque::new(), VecDeque::new()],
		connected: true,
		pays: Vec::new(),
		keys: [k0, k1],
		closed: [false, false],
		seed,
		ct: c.ct,
		nbroadcast: [nodes[0].tx_broadcaster.txn_broadcasted.lock().unwrap().len(), nodes[1].tx_broadcaster.txn_broadcasted.lock().unwrap().len()],
	};
	let mut init_commits: Vec<String> = Vec::new();
	for (k, seen) in log {
		if let vh::commit_log::SeenTx::Commitment(kind, tx) = seen {
			init_commits.push(commit_js(kind, env.who(&k), &tx));
		}
	}
	HEAD.with(|h| {
		*h.borrow_mut() = format!(
			"\"id\":\"{}\",\"cfg\":{{\"ct\":{},\"value\":{},\"push\":{},\"fee\":{},\"resppm\":{},\"zr\":{},\"maxacc\":{},\"infl\":{},\"hmin\":{},\"hd\":[{},{}],\"fcamax\":[{},{}],\"upfront\":{},\"ctname\":\"{}\"}},\"init_commits\":[{}]",
			esc(&c.id),
			c.ct,
			c.value,
			c.push,
			c.fee,
			c.resppm,
			c.zr,
			c.maxacc,
			c.infl,
			c.hmin,
			c.hd[0],
			c.hd[1],
			c.fcamax[0],
			c.fcamax[1],
			c.upfront as u8,
			esc(&ctname),
			init_commits.join(",")
		)
	});
	env.record("init", "");
	for l in labels.split(';') {
		let l = l.trim();
		if l.is_empty() {
			continue;
		}
		if env.closed[0] && env.closed[1] {
			break;
		}
		env.run_label(l);
	}
	let steps = STEPS.with(|v| v.borrow().join(","));
	let out = format!("{{{},\"steps\":[{}]}}", HEAD.with(|h| h.borrow().clone()), steps);
	drop(env);
	std::mem::forget(nodes);
	out
}

fn main() {
	let args: Vec<String> = std::env::args().collect();
	if args.len() < 3 {
		eprintln!("usage: h_chan <scenario-file> <out-file>");
		std::process::exit(2);
	}
	let input = std::fs::read_to_string(&args[1]).unwrap();
	let mut out = std::io::BufWriter::new(std::fs::File::create(&args[2]).unwrap());
	let last_panic = std::sync::Arc::new(std::sync::Mutex::new(String::new()));
	let lp = last_panic.clone();
	panic::set_hook(Box::new(move |info| {
		*lp.lock().unwrap() = format!("{}", info);
	}));
	for line in input.lines() {
		let line = line.trim();
		if line.is_empty() || line.starts_with('#') {
			continue;
		}
		let r = panic::catch_unwind(AssertUnwindSafe(|| run_scenario(line)));
		match r {
			Ok(s) => writeln!(out, "R {}", s).unwrap(),
			Err(_) => {
				let msg = last_panic.lock().unwrap().clone();
				let _ = vh::commit_log::take();
				let steps = STEPS.with(|v| v.borrow().join(","));
				let head = HEAD.with(|h| h.borrow().clone());
				writeln!(out, "R {{{},\"steps\":[{}],\"panic\":\"{}\"}}", head, steps, esc(&msg[..msg.len().min(600)])).unwrap()
			},
		}
		out.flush().unwrap();
	}
}
