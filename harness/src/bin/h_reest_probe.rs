//! C05 probe: what does a node do when, while it is NOT awaiting a revoke_and_ack, the peer's
//! channel_reestablish claims `next_local_commitment_number = (number of the last
//! commitment_signed we sent)`, i.e. one less than what an in-sync peer says?
//!
//! `h_reest_probe a`: the peer then stays silent and the node makes an ordinary update.
//! `h_reest_probe b`: the peer (unmodified code as well) accepts what it is sent; its new holder
//!                    commitment then confirms on the node's chain.
//! Output: lines starting with `P `.
use bitcoin::hashes::Hash;
use bitcoin::secp256k1::PublicKey;
use lightning::ln::functional_test_utils::*;
use lightning::ln::msgs::{BaseMessageHandler, ChannelMessageHandler, Init, MessageSendEvent};
use lightning::ln::types::ChannelId;
use lightning::ln::verif_hooks as vh;
use lightning::routing::router::{Path, PaymentParameters, Route, RouteHop, RouteParameters};

fn view(nodes: &Vec<Node>, n: usize, ids: &[PublicKey; 2], chan: &ChannelId) -> String {
	match vh::revocation_view(nodes[n].node, &ids[1 - n], chan) {
		Some((_, v)) => format!(
			"holder_next={} counterparty_next={} awaiting_remote_revoke={} disconnected={}",
			v.holder_next, v.counterparty_next, v.awaiting_remote_revoke, v.peer_disconnected
		),
		None => "channel gone from the manager".to_string(),
	}
}

fn dump_log(tag: &str, ids: &[usize; 2]) {
	for c in vh::signer_log::take() {
		let n = if c.state_id == ids[0] {
			0
		} else if c.state_id == ids[1] {
			1
		} else {
			9
		};
		println!(
			"P [{}] signer of node{}: {}({}) {}",
			tag,
			n,
			c.kind,
			c.number,
			c.commitment_txid.map(|t| t.to_string()).unwrap_or_default()
		);
	}
}

fn main() {
	let mode = std::env::args().nth(1).unwrap_or_else(|| "a".to_string());
	let chanmon_cfgs = create_chanmon_cfgs(2);
	let node_cfgs = create_node_cfgs(2, &chanmon_cfgs);
	let node_chanmgrs = create_node_chanmgrs(2, &node_cfgs, &[None, None]);
	let nodes = create_network(2, &node_cfgs, &node_chanmgrs);
	*nodes[0].connect_style.borrow_mut() = ConnectStyle::BestBlockFirst;
	*nodes[1].connect_style.borrow_mut() = ConnectStyle::BestBlockFirst;
	let ids = [nodes[0].node.get_our_node_id(), nodes[1].node.get_our_node_id()];
	nodes[0].keys_manager.set_next_keys_id([0xc0; 32]);
	nodes[1].keys_manager.set_next_keys_id([0xc1; 32]);
	let (_, _, chan_id, _) = create_announced_chan_between_nodes_with_value(&nodes, 0, 1, 1_000_000, 400_000_000);
	let mut sid = [0usize; 2];
	for n in 0..2 {
		use lightning::sign::SignerProvider;
		let (kid, _) = vh::revocation_view(nodes[n].node, &ids[1 - n], &chan_id).unwrap();
		let s = nodes[n].keys_manager.derive_channel_signer(kid);
		sid[n] = std::sync::Arc::as_ptr(&s.state) as usize;
	}
	// one complete payment so that numbers have advanced, then one HTLC 0 -> 1 left pending
	let (preimage, _, _, _) = route_payment(&nodes[0], &[&nodes[1]], 5_000_000);
	claim_payment(&nodes[0], &[&nodes[1]], preimage);
	let _pending = route_payment(&nodes[0], &[&nodes[1]], 7_000_000);
	let _ = vh::signer_log::take();
	println!("P before: node0 {}", view(&nodes, 0, &ids, &chan_id));
	println!("P before: node1 {}", view(&nodes, 1, &ids, &chan_id));
	let mons_before = nodes[0].chain_monitor.added_monitors.lock().unwrap().len();

	nodes[0].node.peer_disconnected(ids[1]);
	nodes[1].node.peer_disconnected(ids[0]);
	let init = |n: usize| Init { features: nodes[n].node.init_features(), networks: None, remote_network_address: None };
	nodes[0].node.peer_connected(ids[1], &init(1), true).unwrap();
	nodes[1].node.peer_connected(ids[0], &init(0), false).unwrap();
	let mut r10 = None;
	for e in nodes[1].node.get_and_clear_pending_msg_events() {
		if let MessageSendEvent::SendChannelReestablish { msg, .. } = e {
			r10 = Some(msg);
		}
	}
	let mut r01 = None;
	for e in nodes[0].node.get_and_clear_pending_msg_events() {
		if let MessageSendEvent::SendChannelReestablish { msg, .. } = e {
			r01 = Some(msg);
		}
	}
	// node 1 gets node 0's honest reestablish: nothing to retransmit
	nodes[1].node.handle_channel_reestablish(ids[0], &r01.unwrap());
	let _ = nodes[1].node.get_and_clear_pending_msg_events();
	let mut msg = r10.expect("reestablish from node 1");
	println!(
		"P node1's own channel_reestablish: next_local_commitment_number={} next_remote_commitment_number={}",
		msg.next_local_commitment_number, msg.next_remote_commitment_number
	);
	msg.next_local_commitment_number -= 1;
	println!("P delivered to node0 with next_local_commitment_number={}", msg.next_local_commitment_number);
	nodes[0].node.handle_channel_reestablish(ids[1], &msg);
	dump_log("reestablish handled by node0", &sid);
	let mut cs_msgs = Vec::new();
	for e in nodes[0].node.get_and_clear_pending_msg_events() {
		match e {
			MessageSendEvent::UpdateHTLCs { updates, .. } => {
				println!(
					"P node0 -> node1: update_add={} update_fulfill={} update_fail={} update_fee={} commitment_signed={}",
					updates.update_add_htlcs.len(),
					updates.update_fulfill_htlcs.len(),
					updates.update_fail_htlcs.len(),
					updates.update_fee.is_some(),
					updates.commitment_signed.len()
				);
				cs_msgs = updates.commitment_signed.clone();
			},
			MessageSendEvent::HandleError { action, .. } => println!("P node0 error action {:?}", action),
			_ => {},
		}
	}
	dump_log("node0 events drained", &sid);
	let mons_after = nodes[0].chain_monitor.added_monitors.lock().unwrap().len();
	println!("P ChannelMonitorUpdates applied by node0 for this: {}", mons_after - mons_before);
	println!("P after: node0 {}", view(&nodes, 0, &ids, &chan_id));

	if mode == "a" {
		let amt = 9_000_000u64;
		let scid = nodes[0].node.list_channels().iter().find(|d| d.channel_id == chan_id).and_then(|d| d.short_channel_id).unwrap();
		let hops = vec![RouteHop {
			pubkey: ids[1],
			node_features: nodes[1].node.node_features(),
			short_channel_id: scid,
			channel_features: nodes[1].node.channel_features(),
			fee_msat: amt,
			cltv_expiry_delta: TEST_FINAL_CLTV,
			maybe_announced_channel: true,
		}];
		let pre = [0x42u8; 32];
		let hash = lightning::types::payment::PaymentHash(bitcoin::hashes::sha256::Hash::hash(&pre).to_byte_array());
		let secret = nodes[1].node.create_inbound_payment_for_hash(hash, None, 7200, None, None).unwrap().0;
		let route_params = RouteParameters::from_payment_params_and_value(PaymentParameters::from_node_id(ids[1], TEST_FINAL_CLTV), amt);
		let route = Route { paths: vec![Path { hops, blinded_tail: None }], route_params };
		let res = nodes[0]
			.node
			.send_payment_with_route(
				route,
				hash,
				lightning::ln::outbound_payment::RecipientOnionFields::secret_only(secret, amt),
				lightning::ln::channelmanager::PaymentId(hash.0),
			)
			.map_err(|e| format!("{:?}", e));
		println!("P node0 send_payment (an ordinary update): {:?}", res);
		let _ = nodes[0].node.get_and_clear_pending_msg_events();
		dump_log("ordinary update by node0", &sid);
		println!("P final: node0 {}", view(&nodes, 0, &ids, &chan_id));
	} else {
		let before = lightning::get_local_commitment_txn!(nodes[1], chan_id)[0].compute_txid();
		let _ = vh::signer_log::take();
		println!("P node1 holder commitment before: {}", before);
		nodes[1].node.handle_commitment_signed_batch_test(ids[0], &cs_msgs);
		dump_log("commitment_signed handled by node1", &sid);
		let txn = lightning::get_local_commitment_txn!(nodes[1], chan_id);
		let _ = vh::signer_log::take();
		println!(
			"P node1 holder commitment now:    {} ({} outputs, {} HTLC txs)",
			txn[0].compute_txid(),
			txn[0].output.len(),
			txn.len() - 1
		);
		println!("P after: node1 {}", view(&nodes, 1, &ids, &chan_id));
		// that transaction confirms on node 0's chain
		nodes[0].tx_broadcaster.txn_broadcasted.lock().unwrap().clear();
		mine_transaction(&nodes[0], &txn[0]);
		let b = nodes[0].tx_broadcaster.txn_broadcasted.lock().unwrap().clone();
		println!("P node0 broadcasts after that commitment confirmed: {}", b.len());
		for t in b.iter() {
			println!(
				"P   tx {} spending {:?}",
				t.compute_txid(),
				t.input.iter().map(|i| format!("{}:{}", i.previous_output.txid, i.previous_output.vout)).collect::<Vec<_>>()
			);
		}
		{
			let mon = nodes[0].chain_monitor.chain_monitor.get_monitor(chan_id).unwrap();
			println!("P node0 claimable balances: {:?}", mon.get_claimable_balances());
		}
		nodes[0].tx_broadcaster.txn_broadcasted.lock().unwrap().clear();
		connect_blocks(&nodes[0], 200);
		let b = nodes[0].tx_broadcaster.txn_broadcasted.lock().unwrap().clone();
		println!("P node0 broadcasts during 200 more blocks (the 7000 sat HTLC expired long ago): {}", b.len());
		for t in b.iter() {
			println!(
				"P   tx {} spending {:?}",
				t.compute_txid(),
				t.input.iter().map(|i| format!("{}:{}", i.previous_output.txid, i.previous_output.vout)).collect::<Vec<_>>()
			);
		}
		let mon = nodes[0].chain_monitor.chain_monitor.get_monitor(chan_id).unwrap();
		println!("P node0 claimable balances: {:?}", mon.get_claimable_balances());
	}
	std::mem::forget(nodes);
}
