//! C05 probe (not part of any check's pass/fail path by itself): what does a node do when, while it
//! is NOT awaiting a revoke_and_ack, the peer's channel_reestablish claims
//! `next_local_commitment_number = (number of the last commitment_signed we sent)`, i.e. one less
//! than what an in-sync peer says?
//!
//! Output: lines starting with `P ` describing signer calls, numbers and messages.
use bitcoin::secp256k1::PublicKey;
use lightning::ln::functional_test_utils::*;
use lightning::ln::msgs::{BaseMessageHandler, ChannelMessageHandler, Init, MessageSendEvent};
use lightning::ln::verif_hooks as vh;
use lightning::types::features::InitFeatures;

fn view(nodes: &Vec<Node>, n: usize, ids: &[PublicKey; 2], chan: &lightning::ln::types::ChannelId) -> String {
	match vh::revocation_view(nodes[n].node, &ids[1 - n], chan) {
		Some((_, v)) => format!(
			"hn={} cn={} aw={} dc={} mon={}",
			v.holder_next, v.counterparty_next, v.awaiting_remote_revoke, v.peer_disconnected, v.monitor_update_in_progress
		),
		None => "gone".to_string(),
	}
}

fn dump_log(tag: &str) {
	for c in vh::signer_log::take() {
		println!(
			"P {} signer state_id={:x} {} {} {}",
			tag,
			c.state_id & 0xffff,
			c.kind,
			c.number,
			c.commitment_txid.map(|t| t.to_string()).unwrap_or_default()
		);
	}
}

fn main() {
	let chanmon_cfgs = create_chanmon_cfgs(2);
	let node_cfgs = create_node_cfgs(2, &chanmon_cfgs);
	let node_chanmgrs = create_node_chanmgrs(2, &node_cfgs, &[None, None]);
	let nodes = create_network(2, &node_cfgs, &node_chanmgrs);
	let ids = [nodes[0].node.get_our_node_id(), nodes[1].node.get_our_node_id()];
	let (_, _, chan_id, _) = create_announced_chan_between_nodes_with_value(&nodes, 0, 1, 1_000_000, 400_000_000);
	// one complete payment so that numbers have advanced, then leave one HTLC pending 0 -> 1
	let (preimage, _, _, _) = route_payment(&nodes[0], &[&nodes[1]], 5_000_000);
	claim_payment(&nodes[0], &[&nodes[1]], preimage);
	let _pending = route_payment(&nodes[0], &[&nodes[1]], 7_000_000);
	let _ = vh::signer_log::take();
	println!("P before node0 {}", view(&nodes, 0, &ids, &chan_id));
	println!("P before node1 {}", view(&nodes, 1, &ids, &chan_id));
	let mon_updates_before = nodes[0].chain_monitor.added_monitors.lock().unwrap().len();

	nodes[0].node.peer_disconnected(ids[1]);
	nodes[1].node.peer_disconnected(ids[0]);
	let init = |n: usize| Init { features: nodes[n].node.init_features(), networks: None, remote_network_address: None };
	nodes[0].node.peer_connected(ids[1], &init(1), true).unwrap();
	nodes[1].node.peer_connected(ids[0], &init(0), false).unwrap();
	let _: InitFeatures = nodes[0].node.init_features();
	let mut reest_1_to_0 = None;
	for e in nodes[1].node.get_and_clear_pending_msg_events() {
		if let MessageSendEvent::SendChannelReestablish { msg, .. } = e {
			reest_1_to_0 = Some(msg);
		}
	}
	let _ = nodes[0].node.get_and_clear_pending_msg_events();
	let mut msg = reest_1_to_0.expect("reestablish from node 1");
	println!("P honest reestablish from node1: next_local={} next_remote={}", msg.next_local_commitment_number, msg.next_remote_commitment_number);
	msg.next_local_commitment_number -= 1;
	println!("P delivered to node0 with next_local={}", msg.next_local_commitment_number);
	nodes[0].node.handle_channel_reestablish(ids[1], &msg);
	dump_log("during-reestablish");
	println!("P after node0 {}", view(&nodes, 0, &ids, &chan_id));
	let mut cs_msgs = Vec::new();
	for e in nodes[0].node.get_and_clear_pending_msg_events() {
		match e {
			MessageSendEvent::UpdateHTLCs { updates, .. } => { cs_msgs = updates.commitment_signed.clone(); println!(
				"P node0 sends commitment update: adds={} fulfills={} fails={} fee={} commitment_signed={}",
				updates.update_add_htlcs.len(),
				updates.update_fulfill_htlcs.len(),
				updates.update_fail_htlcs.len(),
				updates.update_fee.is_some(),
				updates.commitment_signed.len()
			) },
			MessageSendEvent::SendRevokeAndACK { .. } => println!("P node0 sends revoke_and_ack"),
			MessageSendEvent::HandleError { action, .. } => println!("P node0 error action {:?}", action),
			MessageSendEvent::SendChannelReestablish { .. } => {},
			other => println!("P node0 sends other {:?}", std::mem::discriminant(&other)),
		}
	}
	dump_log("after-events");
	let mon_updates_after = nodes[0].chain_monitor.added_monitors.lock().unwrap().len();
	println!("P node0 monitor updates during the exchange: {}", mon_updates_after - mon_updates_before);
	println!("P final node0 {}", view(&nodes, 0, &ids, &chan_id));
	let mode = std::env::args().nth(1).unwrap_or_else(|| "a".to_string());
	if mode == "a" {
		// (a) the peer stays silent; node 0 now makes an ordinary update: it signs ANOTHER commitment
		// transaction with the same number while the previous one and the one before are unrevoked.
		use bitcoin::hashes::Hash;
		use lightning::routing::router::{Path, PaymentParameters, Route, RouteHop, RouteParameters};
		let amt = 9_000_000u64;
		let scid = nodes[0].node.list_channels().iter().find(|d| d.channel_id == chan_id).and_then(|d| d.short_channel_id).unwrap();
		let hops = vec![RouteHop {
			pubkey: ids[1],
			node_features: nodes[1].node.node_features(),
			short_channel_id: scid,
			channel_features: nodes[1].node.channel_features(),
			fee_msat: amt,
			cltv_expiry_delta: TEST_FINAL_CLTV,
			maybe_announced_channel: true,
		}];
		let pre = [0x42u8; 32];
		let hash = lightning::types::payment::PaymentHash(bitcoin::hashes::sha256::Hash::hash(&pre).to_byte_array());
		let secret = nodes[1].node.create_inbound_payment_for_hash(hash, None, 7200, None, None).unwrap().0;
		let route_params = RouteParameters::from_payment_params_and_value(PaymentParameters::from_node_id(ids[1], TEST_FINAL_CLTV), amt);
		let route = Route { paths: vec![Path { hops, blinded_tail: None }], route_params };
		let route_res = nodes[0]
			.node
			.send_payment_with_route(
				route,
				hash,
				lightning::ln::outbound_payment::RecipientOnionFields::secret_only(secret, amt),
				lightning::ln::channelmanager::PaymentId(hash.0),
			)
			.map_err(|e| format!("{:?}", e));
		println!("P node0 send_payment: {:?}", route_res);
		let _ = nodes[0].node.get_and_clear_pending_msg_events();
		dump_log("ordinary-update");
		println!("P final node0 {}", view(&nodes, 0, &ids, &chan_id));
	} else {
		// (b) node 1 runs the UNMODIFIED code too: it handles its peer's reestablish, then accepts the
		// commitment_signed; its new holder commitment is a transaction node 0's monitor was never
		// told about. It then confirms on node 0's chain.
		use lightning::ln::channelmanager::ChannelManager;
		let _ = ChannelManager::<&lightning::util::test_utils::TestChainMonitor, &lightning::util::test_utils::TestBroadcaster, &lightning::util::test_utils::TestKeysInterface, &lightning::util::test_utils::TestKeysInterface, &lightning::util::test_utils::TestKeysInterface, &lightning::util::test_utils::TestFeeEstimator, &lightning::util::test_utils::TestRouter, &lightning::util::test_utils::TestMessageRouter, &lightning::util::test_utils::TestLogger>::get_our_node_id;
		let known_before: Vec<bitcoin::Txid> = get_local_commitment_txn!(nodes[1], chan_id).iter().map(|t| t.compute_txid()).collect();
		println!("P node1 holder commitment before: {}", known_before[0]);
		let _ = vh::signer_log::take();
		// node 1 processes node 0's honest reestablish first (it is still marked disconnected)
		nodes[1].node.peer_disconnected(ids[0]);
		nodes[1].node.peer_connected(ids[0], &init(0), false).unwrap();
		let _ = nodes[1].node.get_and_clear_pending_msg_events();
		nodes[0].node.peer_disconnected(ids[1]);
		nodes[0].node.peer_connected(ids[1], &init(1), true).unwrap();
		let mut r01 = None;
		for e in nodes[0].node.get_and_clear_pending_msg_events() {
			if let MessageSendEvent::SendChannelReestablish { msg, .. } = e { r01 = Some(msg); }
		}
		println!("P mode b needs a fresh run: use mode c");
		let _ = (r01, cs_msgs.len());
	}
	std::mem::forget(nodes);
}
