//! C05 trace harness ("revoked state is never used and state is never revoked early").
//!
//! Drives REAL two-node channels (lightning::ln::functional_test_utils) under a seeded random
//! scheduler that delivers every peer message individually, and records per node and per action:
//! the signer calls, the channel's commitment-number / flag view, the wire messages emitted and
//! the transactions broadcast. The binary does not judge anything.
//!
//! usage: h_revoke run <seed:u64> <n_scenarios> <max_steps> <flags>
//!        h_revoke replay '{"seed":..,"k":..,"max_steps":..,"flags":".."}'
//! flags: comma list of adv,async,reload,close | all | none
//! stdout: one line `R {json}` per scenario (TestLogger floods stdout with everything else).
//! stderr: histogram at the end.
//!
//! Notes for the consumer of the `R` lines:
//! * every wire message gets a scenario-unique id `"m"`, present in the sender's `sent` entry and in
//!   the args of the `deliver` step; `deliver` args show the message AS DELIVERED (after corruption).
//!   `sent` entries that were never queued (gossip, link down) carry `"drop":true`; an error/warning
//!   after which the sender wants to disconnect carries `"disc":true` (the forced `disconnect` step
//!   follows its delivery).
//! * signer calls are attributed by `SignerCall::state_id` (node-local signer state); the two ends
//!   are also given distinct channel_keys_ids (`keys`).
//! * not reproducible across processes inside LDK (randomly keyed std HashMaps in the on-chain claim
//!   code) and therefore canonicalised here: transactions broadcast within one drain are sorted by
//!   txid; every maximal contiguous run of sign_holder / sign_holder_htlc / unsafe_sign_holder log
//!   entries is sorted. Multisets and positions relative to all other entries are preserved.
//! * per scenario (from the Rng) each destructive family -- corruption, user force-close, stale
//!   reload -- is active with probability 1/2 (injected messages: 2/3) and only from a random start step, so
//!   that channel lifetimes are spread; within that, actions are picked by fixed weights.
//! * flag adv additionally injects messages nobody sent (`deliver` step, args = the wire json of the
//!   message as delivered plus `"corrupt":"<kind>"`, fresh `m`, no matching `sent`); active in 2/3 of
//!   the scenarios, and with probability 1/6 inserted in front of an ordinary delivery (raa kinds):
//!   - `raa_extra`: a revoke_and_ack built from the peer's raw key material "revoking" the peer's
//!     CURRENT commitment (secret of number cn+1, next point of number cn-1) while the receiver is
//!     not awaiting a revocation; the same message while the receiver IS awaiting one is `raa_early`;
//!   - `raa_wrong`: as raa_extra but with the peer's secret of number cn+3 (or the constant 0x11..11
//!     when that number does not exist);
//!   - `raa_stale`: as raa_extra but with a secret the peer already sent in an earlier revoke_and_ack;
//!   - `raa_dup` / `cs_dup`: an exact copy of the last revoke_and_ack / commitment_signed that was
//!     handed to that node (after corruption, if any).
//!   Injections are five times as likely while the receiver has a monitor update in progress, has
//!   sent stfu / is quiescent, or is held (see below).
//! * a (stale) reload replays the blocks the restored manager has not seen before anything else
//!   (args.replayed); a reload switches that node's persister back to synchronous.
//! * `"open"` per scenario: `normal` (helper-driven open, trace starts after channel_ready, ~1/2),
//!   `manual` (open_channel..funding_signed by hand, `"zero_conf"` says whether node 1 accepted
//!   0-conf; the funding tx is confirmed per node by `fund_confirm` steps) or `batch` (node 0 funds
//!   two channels in one transaction -- the second one with a third node that is never looked at
//!   again -- node 1 is a 0-conf acceptor; `batch_complete` delivers the second funding_signed).
//!   In the last two modes `init` is taken before any channel_ready is delivered (`p0` = the first
//!   per-commitment point, `p1` = -1) and `init_sent` lists what the two nodes already queued.
//!   Until both sides are ChannelReady only deliver / fund_confirm / batch_complete / (re)connect /
//!   injected channel_readys are enabled.
//! * VIEW also has `ours`/`theirs`/`wfb` (AwaitingChannelReady flags) and `pc`/`pn` (interned
//!   counterparty current / next point); every OBS has `holder` (re-verification of the monitor's
//!   current holder commitment signatures); `validate_holder` log entries are 5-tuples
//!   `[kind, number, txid8, n_htlc_sigs, n_nondust]`.
//! * further adv kinds: cs_drop_htlc_sigs / cs_empty_htlc_sigs / cs_extra_htlc_sig /
//!   cs_swap_htlc_sigs / cs_corrupt_htlc_sig (a cs carrying HTLC signatures is corrupted with
//!   probability 1/2, nh in the args is the count AS DELIVERED); ready_dup_same / ready_dup_diff
//!   (injected channel_ready, `deliver` step without matching `sent`); raa_subst (after an accepted
//!   ready_dup_diff, the sender's next RAA carries the secret of the substituted point). Messages
//!   are only corrupted while the receiver still has the channel.
//! * VIEW also has `sl` / `sr` / `qu` (LOCAL_STFU_SENT / REMOTE_STFU_SENT / QUIESCENT). The stfu
//!   message travels as `{"t":"stfu","m":..,"initiator":bool}` and is never corrupted. Acts (flag
//!   adv, 1/3 of the scenarios): `quiesce` (node calls maybe_propose_quiescence; args.err = null or
//!   the APIError; the stfu may be sent later, once no update is pending; only offered while the
//!   node's channel object holds no earlier, still unconsumed proposal) and `exit_quiesce` (node
//!   calls exit_quiescence while its view says `qu`; args.res = Debug of the Result).
//! * every OBS has `mon`: the ChannelMonitorUpdates for the observed channel which that node's chain
//!   monitor was handed by the manager during the step, in order, each as
//!   `{"id":update_id,"kinds":[step variant names in order of first occurrence],"cp":[commitment
//!   numbers of the counterparty commitment transactions the node's current monitor rebuilds from
//!   the update; [] when the monitor is gone],"sec":[idx of every CommitmentSecret step]}`.
//!   Updates of the channel open (before the trace starts) are not reported. `pend` = the update_ids
//!   of that channel whose persistence is still in progress at the end of the step
//!   (ChainMonitor::list_pending_monitor_updates).
//! * flag close adds `mon_broadcast`: node's ChannelMonitor::broadcast_latest_holder_commitment_txn
//!   on the still-open channel (the monitor signs and broadcasts its current holder commitment and
//!   queues a HolderForceClosedWithInfo monitor event). args `"hold":bool` (or `"err":"no monitor"`).
//!   With hold = true (3/4) the node's ChannelManager is HELD from the end of that action: the harness
//!   no longer calls its get_and_clear_pending_msg_events / get_and_clear_pending_events -- the only
//!   places where the manager processes monitor events -- so the manager does not learn of the
//!   broadcast, emits nothing (its `sent` stays empty; messages it generates are only reported once
//!   released) and keeps handling whatever is delivered to it. The node's broadcaster, signer log,
//!   view and `mon` are observed as usual. `process_events` releases the hold (the drain at the end of
//!   that step lets the manager see the monitor event); it is forced once the hold has lasted 4 step
//!   ends (counting the mon_broadcast step itself). While a hold is active only deliver (ordinary and
//!   injected), mon_complete, force_close of the held node and process_events happen; in particular
//!   no disconnect (a forced one is postponed until after the release), reconnect or reload.
//! * FOCUSED scenarios (1/2 of those with flag adv; `"focus":"<state>:<kind>"` in the R line, null
//!   otherwise) aim ONE injected message of the given kind at ONE receiver state: 0 = not awaiting a
//!   revocation, monitor update in progress; 1 = awaiting one, monitor update in progress with our
//!   commitment_signed still pending on it; 2 = our stfu sent; 3 = quiescent; 4 = manager held after
//!   a monitor-API broadcast; 5 = reconnected, no channel_reestablish yet; 6 = idle; 7 = awaiting, no
//!   monitor update (0/1 become 6/7 without flag async, 4 becomes 5 without flag close; states 0-4
//!   also require the peer to be connected and reestablished). Until the message has been delivered
//!   nothing else is injected or corrupted, the scheduler steers towards the state (asynchronous
//!   persistence kept on, stfu proposed, monitor-API broadcast, payments only started from rest for
//!   the not-awaiting states) and the injection has weight 600 as soon as some node is in the state
//!   and the message can be built; for the next 20 steps nothing else is injected or corrupted, then
//!   the scenario goes on as an ordinary one.
//! * stderr additionally has `held_deliveries` (deliver steps whose receiver was held) and
//!   `release_while_locked` (`release` log entries of a node at or after a step in which that node
//!   did mon_broadcast).
//! * everything a scenario allocates is leaked (about 2-3 MB per scenario): run at most a few hundred
//!   scenarios per process.
use std::cell::RefCell;
use std::collections::{BTreeMap, HashMap, VecDeque};
use std::mem::ManuallyDrop;
use std::panic::{self, AssertUnwindSafe};
use std::rc::Rc;
use std::sync::atomic::{AtomicBool, Ordering};

use bitcoin::hashes::sha256::Hash as Sha256;
use bitcoin::hashes::Hash;
use bitcoin::secp256k1::ecdsa::Signature;
use bitcoin::secp256k1::{All, PublicKey, Secp256k1, SecretKey};
use bitcoin::{Amount, Transaction, TxOut, Txid};

use lightning::chain::chaininterface::ConfirmationTarget;
use lightning::chain::chainmonitor::Persist;
use lightning::chain::channelmonitor::{ChannelMonitor, ChannelMonitorUpdate};
use lightning::chain::{BlockLocator, ChannelMonitorUpdateStatus, Listen};
use lightning::events::Event;
use lightning::ln::channelmanager::{ChannelManagerReadArgs, PaymentId, TrustedChannelFeatures};
use lightning::ln::functional_test_utils::*;
use lightning::ln::msgs::{self, BaseMessageHandler, ChannelMessageHandler, ErrorAction, MessageSendEvent};
use lightning::ln::outbound_payment::RecipientOnionFields;
use lightning::ln::types::ChannelId;
use lightning::ln::verif_hooks as vh;
use lightning::ln::verif_hooks::RevocationView;
use lightning::sign::{ChannelSigner, SignerProvider};
use lightning::routing::router::{Path, PaymentParameters, Route, RouteHop, RouteParameters};
use lightning::types::payment::{PaymentHash, PaymentPreimage};
use lightning::util::persist::MonitorName;
use lightning::util::ser::{ReadableArgs, Writeable};
use lightning::util::test_channel_signer::TestChannelSigner;
use lightning::util::test_utils::TestChainMonitor;

use verif_harness::{hex, Rng};

// ------------------------------------------------------------------------------------------
// persister with a switchable verdict
// ------------------------------------------------------------------------------------------
struct ModePersister {
	async_mode: AtomicBool,
}
impl ModePersister {
	fn verdict(&self) -> ChannelMonitorUpdateStatus {
		if self.async_mode.load(Ordering::SeqCst) {
			ChannelMonitorUpdateStatus::InProgress
		} else {
			ChannelMonitorUpdateStatus::Completed
		}
	}
}
impl Persist<TestChannelSigner> for ModePersister {
	fn persist_new_channel(&self, _name: MonitorName, _data: &ChannelMonitor<TestChannelSigner>) -> ChannelMonitorUpdateStatus {
		self.verdict()
	}
	fn update_persisted_channel(
		&self, _name: MonitorName, update: Option<&ChannelMonitorUpdate>, _data: &ChannelMonitor<TestChannelSigner>,
	) -> ChannelMonitorUpdateStatus {
		match update {
			Some(_) => self.verdict(),
			// chain-sync persists are not tracked by ChainMonitor::pending_monitor_updates
			None => ChannelMonitorUpdateStatus::Completed,
		}
	}
	fn archive_persisted_channel(&self, _name: MonitorName) {}
}

// ------------------------------------------------------------------------------------------
// JSON helpers
// ------------------------------------------------------------------------------------------
fn js(s: &str) -> String {
	let mut o = String::with_capacity(s.len() + 2);
	o.push('"');
	for c in s.chars() {
		match c {
			'"' => o.push_str("\\\""),
			'\\' => o.push_str("\\\\"),
			'\n' => o.push_str("\\n"),
			c if (c as u32) < 0x20 => o.push(' '),
			c => o.push(c),
		}
	}
	o.push('"');
	o
}
fn jarr(v: &[String]) -> String {
	format!("[{}]", v.join(","))
}
fn jopt(s: &Option<String>) -> String {
	match s {
		Some(x) => js(x),
		None => "null".to_string(),
	}
}
fn trunc(s: &str, n: usize) -> String {
	s.chars().take(n).collect()
}
fn tx8(t: &Txid) -> String {
	t.to_string()[..8].to_string()
}

// ------------------------------------------------------------------------------------------
// point interning
// ------------------------------------------------------------------------------------------
struct Intern {
	map: HashMap<[u8; 33], i64>,
	secp: Secp256k1<All>,
}
impl Intern {
	fn point(&mut self, pk: &PublicKey) -> i64 {
		let k = pk.serialize();
		let next = self.map.len() as i64;
		*self.map.entry(k).or_insert(next)
	}
	fn opt_point(&mut self, pk: &Option<PublicKey>) -> i64 {
		match pk {
			Some(p) => self.point(p),
			None => -1,
		}
	}
	fn secret(&mut self, s: &[u8; 32]) -> i64 {
		match SecretKey::from_slice(s) {
			Ok(sk) => {
				let pk = PublicKey::from_secret_key(&self.secp, &sk);
				self.point(&pk)
			},
			Err(_) => -1,
		}
	}
}

// ------------------------------------------------------------------------------------------
// wire messages in flight
// ------------------------------------------------------------------------------------------
#[derive(Clone)]
enum Wire {
	Add(msgs::UpdateAddHTLC),
	Fulfill(msgs::UpdateFulfillHTLC),
	FailHtlc(msgs::UpdateFailHTLC),
	FailMalformed(msgs::UpdateFailMalformedHTLC),
	Fee(msgs::UpdateFee),
	CS(msgs::CommitmentSigned),
	RAA(msgs::RevokeAndACK),
	Reest(msgs::ChannelReestablish),
	Ready(msgs::ChannelReady),
	Error(msgs::ErrorMessage),
	Warn(msgs::WarningMessage),
	Shutdown(msgs::Shutdown),
	ClosingSigned(msgs::ClosingSigned),
	Stfu(msgs::Stfu),
	/// never queued: gossip and friends
	Other(String),
}

/// kinds of `Act::Inject`, by index (`raa_extra` is reported as `raa_early` when the receiver is
/// awaiting a revocation)
const INJECT_KINDS: [&'static str; 5] = ["raa_extra", "raa_wrong", "raa_stale", "raa_dup", "cs_dup"];
/// how many of the leading INJECT_KINDS are revoke_and_acks
const INJECT_RAA_KINDS: usize = 4;

const MON_STEP_NAMES: [&'static str; 10] = [
	"LatestHolderCommitmentTXInfo",
	"LatestHolderCommitment",
	"LatestCounterpartyCommitmentTXInfo",
	"LatestCounterpartyCommitment",
	"PaymentPreimage",
	"CommitmentSecret",
	"ChannelForceClosed",
	"ShutdownScript",
	"ReleasePaymentComplete",
	"RenegotiatedFunding",
];

/// Variant names of the update steps in the Debug rendering of a ChannelMonitorUpdate, in order of
/// first occurrence (a name counts when it stands alone: not preceded by an identifier character
/// and followed by a space or `{`), and the `idx` of every CommitmentSecret step.
fn mon_update_kinds(dbg: &str) -> (Vec<&'static str>, Vec<u64>) {
	let b = dbg.as_bytes();
	let mut kinds: Vec<&'static str> = Vec::new();
	let mut secs: Vec<u64> = Vec::new();
	let ident = |c: u8| c.is_ascii_alphanumeric() || c == b'_';
	let mut i = 0;
	while i < b.len() {
		if !b[i].is_ascii_uppercase() || (i > 0 && ident(b[i - 1])) {
			i += 1;
			continue;
		}
		let mut j = i;
		while j < b.len() && ident(b[j]) {
			j += 1;
		}
		let word = &dbg[i..j];
		let follows = j < b.len() && (b[j] == b' ' || b[j] == b'{');
		if follows {
			if let Some(name) = MON_STEP_NAMES.iter().find(|n| **n == word) {
				if !kinds.contains(name) {
					kinds.push(*name);
				}
				if *name == "CommitmentSecret" {
					let rest = &dbg[j..];
					if let Some(r) = rest.strip_prefix(" { idx: ") {
						let digits: String = r.chars().take_while(|c| c.is_ascii_digit()).collect();
						if let Ok(v) = digits.parse::<u64>() {
							secs.push(v);
						}
					}
				}
			}
		}
		i = j.max(i + 1);
	}
	(kinds, secs)
}

struct QMsg {
	id: u64,
	w: Wire,
	/// the sender asked to disconnect right after this message
	disc_after: bool,
	/// number of entries in the sender's raa / cs history BEFORE this message
	hist_idx: usize,
}

#[derive(Default)]
struct Obs {
	log: Vec<String>,
	sent: Vec<String>,
	bcast: Vec<String>,
	closed: Option<String>,
	/// ChannelMonitorUpdates of the observed channel handed to the node's chain monitor
	mon: Vec<String>,
}

// ------------------------------------------------------------------------------------------
// record shared with the panic path
// ------------------------------------------------------------------------------------------
#[derive(Default)]
struct Rec {
	/// "<state>:<kind>" of a focused scenario
	focus: Option<String>,
	keys: Vec<String>,
	init: Vec<String>,
	steps: Vec<String>,
	/// header of the step being executed: `"i":..,"act":..,"node":..,"args":{..}`
	pending: Option<String>,
	// statistics
	acts: Vec<String>,
	corrupt: Vec<String>,
	releases: u64,
	closed: bool,
	reloaded: bool,
	stale: bool,
	retx_raa: bool,
	retx_cs: bool,
	async_completed: bool,
	htlc_signed: bool,
	fc_with_htlcs: bool,
	open_mode: String,
	zero_conf: bool,
	init_sent: Vec<String>,
	/// "<kind> ready=.. ours=.. theirs=.. wfb=.." of the receiver before an injected channel_ready
	dup_states: Vec<String>,
	dup_violations: u64,
	/// "<kind> nh=<0|1|2+>"
	cs_htlc: Vec<String>,
	cs_violations: u64,
	/// `deliver` steps whose receiving node was held
	held_deliveries: u64,
	/// `release` log entries of a node at or after a step in which it did mon_broadcast
	release_while_locked: u64,
}

#[derive(Clone)]
struct Flags {
	raw: String,
	adv: bool,
	asyn: bool,
	reload: bool,
	close: bool,
}
impl Flags {
	fn parse(s: &str) -> Flags {
		let mut f = Flags { raw: s.to_string(), adv: false, asyn: false, reload: false, close: false };
		for t in s.split(',') {
			match t.trim() {
				"all" => {
					f.adv = true;
					f.asyn = true;
					f.reload = true;
					f.close = true;
				},
				"adv" => f.adv = true,
				"async" => f.asyn = true,
				"reload" => f.reload = true,
				"close" => f.close = true,
				_ => {},
			}
		}
		f
	}
}

#[derive(Clone, Copy, Debug)]
enum Act {
	Deliver(usize),
	/// deliver a message nobody sent (reported as `deliver` with corrupt = the kind); the second
	/// field indexes INJECT_KINDS
	Inject(usize, usize),
	/// ChannelMonitor::broadcast_latest_holder_commitment_txn on the open channel
	MonBroadcast(usize),
	/// release the hold on the node's ChannelManager event processing
	ProcessEvents(usize),
	Quiesce(usize),
	ExitQuiesce(usize),
	Send(usize),
	Claim(usize),
	Fail(usize),
	Fwd(usize),
	Fee,
	Disconnect,
	Reconnect,
	MonAsync(usize),
	MonComplete(usize),
	Reload(usize),
	Snapshot(usize),
	ReloadStale(usize),
	ForceClose(usize),
	Blocks(usize),
	Confirm(usize),
	FundConfirm(usize),
	BatchComplete,
	/// inject a channel_ready nobody sent (reported as `deliver`); bool = different point
	ReadyDup(usize, bool),
}
impl Act {
	fn name(&self) -> &'static str {
		match self {
			Act::Deliver(_) | Act::Inject(_, _) | Act::ReadyDup(_, _) => "deliver",
			Act::MonBroadcast(_) => "mon_broadcast",
			Act::ProcessEvents(_) => "process_events",
			Act::Quiesce(_) => "quiesce",
			Act::ExitQuiesce(_) => "exit_quiesce",
			Act::FundConfirm(_) => "fund_confirm",
			Act::BatchComplete => "batch_complete",
			Act::Send(_) => "send",
			Act::Claim(_) => "claim",
			Act::Fail(_) => "fail",
			Act::Fwd(_) => "process_forwards",
			Act::Fee => "fee",
			Act::Disconnect => "disconnect",
			Act::Reconnect => "reconnect",
			Act::MonAsync(_) => "mon_async",
			Act::MonComplete(_) => "mon_complete",
			Act::Reload(_) => "reload",
			Act::Snapshot(_) => "snapshot",
			Act::ReloadStale(_) => "reload_stale",
			Act::ForceClose(_) => "force_close",
			Act::Blocks(_) => "blocks",
			Act::Confirm(_) => "confirm",
		}
	}
	fn node(&self) -> Option<usize> {
		match self {
			Act::Deliver(n)
			| Act::Inject(n, _)
			| Act::MonBroadcast(n)
			| Act::ProcessEvents(n)
			| Act::Quiesce(n)
			| Act::ExitQuiesce(n)
			| Act::Send(n)
			| Act::Claim(n)
			| Act::Fail(n)
			| Act::Fwd(n)
			| Act::MonAsync(n)
			| Act::MonComplete(n)
			| Act::Reload(n)
			| Act::Snapshot(n)
			| Act::ReloadStale(n)
			| Act::ForceClose(n)
			| Act::Blocks(n)
			| Act::FundConfirm(n)
			| Act::ReadyDup(n, _)
			| Act::Confirm(n) => Some(*n),
			Act::Fee | Act::BatchComplete => Some(0),
			Act::Disconnect | Act::Reconnect => None,
		}
	}
}

// ------------------------------------------------------------------------------------------
// the world
// ------------------------------------------------------------------------------------------
struct World {
	nodes: Vec<Node<'static, 'static, 'static>>,
	cfgs: &'static Vec<TestChanMonCfg>,
	persisters: &'static Vec<ModePersister>,
	ids: [PublicKey; 2],
	chan_id: ChannelId,
	funding_txid: Txid,
	keys: [[u8; 32]; 2],
	/// address of each node's shared signer EnforcementState (never printed)
	state_ids: [usize; 2],
	q: [VecDeque<QMsg>; 2],
	connected: bool,
	want_disc: bool,
	next_mid: u64,
	intern: Intern,
	raa_hist: [Vec<[u8; 32]>; 2],
	/// (visible to messages whose raa hist_idx is >= this, point)
	point_hist: [Vec<(usize, PublicKey)>; 2],
	cs_hist: [Vec<Signature>; 2],
	claimable: [Vec<PaymentHash>; 2],
	preimages: HashMap<PaymentHash, PaymentPreimage>,
	pay_ctr: u64,
	closed_seen: [bool; 2],
	spends: Vec<(usize, Transaction)>,
	confirmed_spend: [Option<Txid>; 2],
	snapshot: [Option<Vec<u8>>; 2],
	fee: u32,
	fee0: u32,
	last_replayed: usize,
	funding_vout: u32,
	funding_tx: Transaction,
	funding_broadcast: bool,
	funding_confirmed: [bool; 2],
	/// batch open: the second channel's funding_signed, not yet delivered to node 0
	held_fs: Option<msgs::FundingSigned>,
	batch: bool,
	skip_dbg: Option<String>,
	/// last channel_ready emitted by each node
	last_ready: [Option<msgs::ChannelReady>; 2],
	/// per receiver: commitment number k whose point was substituted by an accepted
	/// ready_dup_diff, and whether a raa_subst is to follow
	subst: [Option<(u64, bool)>; 2],
	/// set by `deliver` when it applied an HTLC-signature corruption: (kind, nh before)
	last_cs_corrupt: Option<(&'static str, usize)>,
	/// set by `ready_dup`
	dup_ctx: Option<DupCtx>,
	/// while set, `drain` does not let that node's ChannelManager process its events
	hold: [bool; 2],
	/// step ends seen since the hold began
	hold_steps: [u32; 2],
	/// last revoke_and_ack / commitment_signed handed to each node by `deliver` (as delivered)
	last_raa_in: [Option<msgs::RevokeAndACK>; 2],
	last_cs_in: [Option<msgs::CommitmentSigned>; 2],
	/// the node's channel object may still hold a quiescence proposal that was never consumed
	/// (proposing again would trip an API-misuse assertion of the test utility)
	quiesce_pending: [bool; 2],
}

struct DupCtx {
	n: usize,
	diff: bool,
	k: u64,
	before: Option<RevocationView>,
}

impl World {
	fn view_json(&mut self, v: &RevocationView) -> String {
		let pc = self.intern.opt_point(&v.counterparty_current_point);
		let pn = self.intern.opt_point(&v.counterparty_next_point);
		format!(
			"{{\"hn\":{},\"cn\":{},\"ready\":{},\"aw\":{},\"dc\":{},\"mon\":{},\"mpr\":{},\"mpc\":{},\"rf\":{},\"min\":{},\"ours\":{},\"theirs\":{},\"wfb\":{},\"pc\":{},\"pn\":{},\"sl\":{},\"sr\":{},\"qu\":{}}}",
			v.holder_next,
			v.counterparty_next,
			v.channel_ready,
			v.awaiting_remote_revoke,
			v.peer_disconnected,
			v.monitor_update_in_progress,
			v.monitor_pending_revoke_and_ack,
			v.monitor_pending_commitment_signed,
			v.resend_raa_first,
			v.min_seen_secret,
			v.awaiting_our_channel_ready_sent,
			v.awaiting_their_channel_ready_received,
			v.awaiting_waiting_for_batch,
			pc,
			pn,
			v.local_stfu_sent,
			v.remote_stfu_sent,
			v.quiescent
		)
	}

	/// One ChannelMonitorUpdate node `n`'s chain monitor was handed, for OBS `mon`.
	fn mon_json(&self, n: usize, u: &ChannelMonitorUpdate) -> String {
		let dbg = format!("{:?}", u);
		let (kinds, secs) = mon_update_kinds(&dbg);
		let cp: Vec<String> = match self.nodes[n].chain_monitor.chain_monitor.get_monitor(self.chan_id) {
			Ok(m) => m.counterparty_commitment_txs_from_update(u).iter().map(|t| t.commitment_number().to_string()).collect(),
			Err(()) => Vec::new(),
		};
		let kinds: Vec<String> = kinds.iter().map(|k| js(k)).collect();
		let secs: Vec<String> = secs.iter().map(|s| s.to_string()).collect();
		format!("{{\"id\":{},\"kinds\":{},\"cp\":{},\"sec\":{}}}", u.update_id, jarr(&kinds), jarr(&cp), jarr(&secs))
	}

	/// How completely the counterparty signed the monitor's current holder commitment.
	fn holder_json(&self, n: usize) -> String {
		match self.nodes[n].chain_monitor.chain_monitor.get_monitor(self.chan_id) {
			Ok(m) => {
				let h = m.verif_current_holder_sigs();
				format!(
					"{{\"num\":{},\"txid\":\"{}\",\"nsig\":{},\"nnd\":{},\"nvalid\":{},\"csig\":{}}}",
					h.number,
					tx8(&h.txid),
					h.n_htlc_sigs,
					h.n_nondust_htlcs,
					h.n_valid_htlc_sigs,
					h.commitment_sig_valid
				)
			},
			Err(()) => "null".to_string(),
		}
	}

	fn view(&self, n: usize) -> Option<RevocationView> {
		vh::revocation_view(self.nodes[n].node, &self.ids[1 - n], &self.chan_id).map(|(_, v)| v)
	}

	fn wire_json(&mut self, w: &Wire, mid: u64) -> String {
		match w {
			Wire::Add(m) => format!("{{\"t\":\"add\",\"m\":{},\"id\":{},\"amt\":{}}}", mid, m.htlc_id, m.amount_msat),
			Wire::Fulfill(m) => format!("{{\"t\":\"fulfill\",\"m\":{},\"id\":{}}}", mid, m.htlc_id),
			Wire::FailHtlc(m) => format!("{{\"t\":\"fail\",\"m\":{},\"id\":{}}}", mid, m.htlc_id),
			Wire::FailMalformed(m) => format!("{{\"t\":\"fail_malformed\",\"m\":{},\"id\":{}}}", mid, m.htlc_id),
			Wire::Fee(m) => format!("{{\"t\":\"fee\",\"m\":{},\"rate\":{}}}", mid, m.feerate_per_kw),
			Wire::CS(m) => format!("{{\"t\":\"cs\",\"m\":{},\"nh\":{}}}", mid, m.htlc_signatures.len()),
			Wire::RAA(m) => {
				let s = self.intern.secret(&m.per_commitment_secret);
				let p = self.intern.point(&m.next_per_commitment_point);
				format!("{{\"t\":\"raa\",\"m\":{},\"secret\":{},\"next_point\":{}}}", mid, s, p)
			},
			Wire::Reest(m) => {
				let s = self.intern.secret(&m.your_last_per_commitment_secret);
				let p = self.intern.point(&m.my_current_per_commitment_point);
				format!(
					"{{\"t\":\"reest\",\"m\":{},\"nl\":{},\"nr\":{},\"secret\":{},\"point\":{}}}",
					mid, m.next_local_commitment_number, m.next_remote_commitment_number, s, p
				)
			},
			Wire::Ready(m) => {
				let p = self.intern.point(&m.next_per_commitment_point);
				format!("{{\"t\":\"ready\",\"m\":{},\"next_point\":{}}}", mid, p)
			},
			Wire::Error(m) => format!("{{\"t\":\"error\",\"m\":{},\"data\":{}}}", mid, js(&trunc(&m.data, 160))),
			Wire::Warn(m) => format!("{{\"t\":\"warn\",\"m\":{},\"data\":{}}}", mid, js(&trunc(&m.data, 160))),
			Wire::Shutdown(_) => format!("{{\"t\":\"shutdown\",\"m\":{}}}", mid),
			Wire::ClosingSigned(_) => format!("{{\"t\":\"other\",\"m\":{},\"kind\":\"closing_signed\"}}", mid),
			Wire::Stfu(m) => format!("{{\"t\":\"stfu\",\"m\":{},\"initiator\":{}}}", mid, m.initiator),
			Wire::Other(k) => format!("{{\"t\":\"other\",\"m\":{},\"kind\":{}}}", mid, js(k)),
		}
	}

	/// Reports `w` as sent by `from` and queues it towards the peer (unless it is gossip or the
	/// link is down).
	fn emit(&mut self, from: usize, w: Wire, disc_after: bool, obs: &mut [Obs; 2]) {
		// only one channel is observed: traffic of any other channel (second channel of a batch
		// open) is reported as dropped "other"; errors / warnings always travel
		let foreign = match &w {
			Wire::Add(m) => Some(m.channel_id),
			Wire::Fulfill(m) => Some(m.channel_id),
			Wire::FailHtlc(m) => Some(m.channel_id),
			Wire::FailMalformed(m) => Some(m.channel_id),
			Wire::Fee(m) => Some(m.channel_id),
			Wire::CS(m) => Some(m.channel_id),
			Wire::RAA(m) => Some(m.channel_id),
			Wire::Reest(m) => Some(m.channel_id),
			Wire::Ready(m) => Some(m.channel_id),
			Wire::Shutdown(m) => Some(m.channel_id),
			Wire::ClosingSigned(m) => Some(m.channel_id),
			Wire::Stfu(m) => Some(m.channel_id),
			_ => None,
		}
		.map(|c| c != self.chan_id)
		.unwrap_or(false);
		let w = if foreign { Wire::Other("other_channel".to_string()) } else { w };
		let mid = self.next_mid;
		self.next_mid += 1;
		let mut j = self.wire_json(&w, mid);
		let queue = self.connected && !matches!(w, Wire::Other(_));
		if !queue || disc_after {
			j.pop();
			if !queue {
				j.push_str(",\"drop\":true");
			}
			if disc_after {
				j.push_str(",\"disc\":true");
			}
			j.push('}');
		}
		obs[from].sent.push(j);
		let hist_idx = match &w {
			Wire::RAA(m) => {
				let i = self.raa_hist[from].len();
				self.raa_hist[from].push(m.per_commitment_secret);
				self.point_hist[from].push((i + 1, m.next_per_commitment_point));
				i
			},
			Wire::Ready(m) => {
				let vis = self.raa_hist[from].len();
				self.point_hist[from].push((vis, m.next_per_commitment_point));
				self.last_ready[from] = Some(m.clone());
				0
			},
			Wire::CS(m) => {
				let i = self.cs_hist[from].len();
				self.cs_hist[from].push(m.signature);
				i
			},
			_ => 0,
		};
		if queue {
			self.q[1 - from].push_back(QMsg { id: mid, w, disc_after, hist_idx });
		} else if disc_after {
			self.want_disc = true;
		}
	}

	fn on_msg_event(&mut self, n: usize, ev: MessageSendEvent, obs: &mut [Obs; 2]) {
		// batch open: whatever is addressed to the third node is none of our business (and its
		// interleaving with the observed traffic is not reproducible: per-peer HashMap order)
		if let Some(skip) = &self.skip_dbg {
			if format!("{:?}", ev).contains(skip.as_str()) {
				return;
			}
		}
		let peer = self.ids[1 - n];
		let other = |k: &str| Wire::Other(k.to_string());
		match ev {
			MessageSendEvent::UpdateHTLCs { node_id, updates, .. } if node_id == peer => {
				for m in updates.update_add_htlcs {
					self.emit(n, Wire::Add(m), false, obs);
				}
				for m in updates.update_fulfill_htlcs {
					self.emit(n, Wire::Fulfill(m), false, obs);
				}
				for m in updates.update_fail_htlcs {
					self.emit(n, Wire::FailHtlc(m), false, obs);
				}
				for m in updates.update_fail_malformed_htlcs {
					self.emit(n, Wire::FailMalformed(m), false, obs);
				}
				if let Some(m) = updates.update_fee {
					self.emit(n, Wire::Fee(m), false, obs);
				}
				for m in updates.commitment_signed {
					self.emit(n, Wire::CS(m), false, obs);
				}
			},
			MessageSendEvent::SendRevokeAndACK { node_id, msg } if node_id == peer => self.emit(n, Wire::RAA(msg), false, obs),
			MessageSendEvent::SendChannelReestablish { node_id, msg } if node_id == peer => self.emit(n, Wire::Reest(msg), false, obs),
			MessageSendEvent::SendChannelReady { node_id, msg } if node_id == peer => self.emit(n, Wire::Ready(msg), false, obs),
			MessageSendEvent::SendShutdown { node_id, msg } if node_id == peer => self.emit(n, Wire::Shutdown(msg), false, obs),
			MessageSendEvent::SendClosingSigned { node_id, msg } if node_id == peer => self.emit(n, Wire::ClosingSigned(msg), false, obs),
			MessageSendEvent::SendStfu { node_id, msg } if node_id == peer => self.emit(n, Wire::Stfu(msg), false, obs),
			MessageSendEvent::HandleError { node_id, action } if node_id == peer => match action {
				ErrorAction::SendErrorMessage { msg } => self.emit(n, Wire::Error(msg), false, obs),
				ErrorAction::SendWarningMessage { msg, .. } => self.emit(n, Wire::Warn(msg), false, obs),
				ErrorAction::DisconnectPeer { msg: Some(msg) } => self.emit(n, Wire::Error(msg), true, obs),
				ErrorAction::DisconnectPeer { msg: None } => self.emit(n, other("disconnect_peer"), true, obs),
				ErrorAction::DisconnectPeerWithWarning { msg } => self.emit(n, Wire::Warn(msg), true, obs),
				_ => {},
			},
			MessageSendEvent::SendAnnouncementSignatures { .. } => self.emit(n, other("announcement_signatures"), false, obs),
			MessageSendEvent::SendChannelUpdate { .. } => self.emit(n, other("channel_update"), false, obs),
			MessageSendEvent::BroadcastChannelAnnouncement { .. } => self.emit(n, other("bcast_channel_announcement"), false, obs),
			MessageSendEvent::BroadcastChannelUpdate { .. } => self.emit(n, other("bcast_channel_update"), false, obs),
			MessageSendEvent::BroadcastNodeAnnouncement { .. } => self.emit(n, other("bcast_node_announcement"), false, obs),
			MessageSendEvent::SendChannelAnnouncement { .. } => self.emit(n, other("channel_announcement"), false, obs),
			ev => {
				let dbg = format!("{:?}", ev);
				let name: String = dbg.chars().take_while(|c| c.is_alphanumeric()).collect();
				self.emit(n, Wire::Other(name), false, obs);
			},
		}
	}

	fn on_event(&mut self, n: usize, ev: Event, obs: &mut [Obs; 2]) {
		match ev {
			Event::PaymentClaimable { payment_hash, .. } => {
				if self.preimages.contains_key(&payment_hash) && !self.claimable[n].contains(&payment_hash) {
					self.claimable[n].push(payment_hash);
				}
			},
			Event::ChannelClosed { reason, channel_id, .. } if channel_id == self.chan_id => {
				self.closed_seen[n] = true;
				obs[n].closed = Some(format!("{:?}", reason));
			},
			_ => {},
		}
	}

	/// Collects everything observable after a call into any manager.
	fn drain(&mut self, obs: &mut [Obs; 2]) {
		for _round in 0..50 {
			let mut activity = false;
			for n in 0..2 {
				// a held manager is not asked for anything: these two calls are the only places where
				// it processes the chain monitor's pending monitor events
				if !self.hold[n] {
					let evs = self.nodes[n].node.get_and_clear_pending_msg_events();
					for ev in evs {
						activity = true;
						self.on_msg_event(n, ev, obs);
					}
					let evs = self.nodes[n].node.get_and_clear_pending_events();
					for ev in evs {
						activity = true;
						self.on_event(n, ev, obs);
					}
				}
				let ups = self.nodes[n].chain_monitor.monitor_updates.lock().unwrap().remove(&self.chan_id).unwrap_or_default();
				for u in ups.iter() {
					let j = self.mon_json(n, u);
					obs[n].mon.push(j);
				}
				// the ChainMonitor is a message handler / event provider too: drop what it has
				let _ = self.nodes[n].chain_monitor.chain_monitor.get_and_clear_pending_msg_events();
				let _ = self.nodes[n].chain_monitor.chain_monitor.get_and_clear_pending_events();
				self.nodes[n].chain_monitor.added_monitors.lock().unwrap().clear();
				// The on-chain claim machinery walks std HashMaps (randomly keyed per process): the
				// ORDER of the claim transactions handed to the broadcaster within one call is not
				// reproducible, the set is. Canonicalise the order within one drain.
				let mut txn = self.nodes[n].tx_broadcaster.txn_broadcast();
				txn.sort_by_key(|t| t.compute_txid().to_string());
				for tx in txn {
					activity = true;
					let txid = tx.compute_txid();
					let spends = tx
						.input
						.iter()
						.any(|i| i.previous_output.txid == self.funding_txid && i.previous_output.vout == self.funding_vout);
					if txid == self.funding_txid {
						self.funding_broadcast = true;
					}
					obs[n].bcast.push(format!(
						"{{\"txid\":\"{}\",\"spends_funding\":{},\"nin\":{},\"nout\":{},\"locktime\":{},\"seq0\":{}}}",
						tx8(&txid),
						spends,
						tx.input.len(),
						tx.output.len(),
						tx.lock_time.to_consensus_u32(),
						tx.input.get(0).map(|i| i.sequence.0 as i64).unwrap_or(-1)
					));
					if spends && !self.spends.iter().any(|(_, t)| t.compute_txid() == txid) {
						self.spends.push((n, tx));
					}
				}
			}
			if !activity {
				break;
			}
		}
	}

	fn collect_log(&self, obs: &mut [Obs; 2]) {
		for c in vh::signer_log::take() {
			let txs = c.commitment_txid.map(|t| tx8(&t)).unwrap_or_default();
			let tail = if c.kind == "validate_holder" {
				// 5-tuple: .., n_htlc_sigs, n_nondust_htlcs
				let (a, b) = c.htlc_sig_counts.map(|(a, b)| (a as i64, b as i64)).unwrap_or((-1, -1));
				format!("\"{}\",{},{}", txs, a, b)
			} else {
				format!("\"{}\"", txs)
			};
			// by the node-local signer state first (channel_keys_ids can coincide between nodes)
			let known = (0..2)
				.find(|n| self.state_ids[*n] == c.state_id)
				.or_else(|| (0..2).find(|n| self.state_ids[*n] == 0 && self.keys[*n] == c.channel_keys_id));
			match known {
				Some(n) => obs[n].log.push(format!("[\"{}\",{},{}]", c.kind, c.number, tail)),
				None => {
					// signers of the second channel of a batch open are not observed
					if self.batch && !self.keys.contains(&c.channel_keys_id) {
						continue;
					}
					for n in 0..2 {
						obs[n].log.push(format!("[\"?{}\",{},{}]", c.kind, c.number, tail));
					}
				},
			}
		}
		for n in 0..2 {
			Self::canon_log(&mut obs[n].log);
		}
	}

	/// The on-chain claim machinery (OnchainTxHandler) walks randomly keyed std HashMaps, so the
	/// relative order of the holder-side signing calls it makes within one call is not
	/// reproducible across processes. Every maximal contiguous run of `sign_holder` /
	/// `sign_holder_htlc` / `unsafe_sign_holder` entries is therefore sorted (the multiset of
	/// entries and their position relative to all other kinds of calls are preserved).
	fn canon_log(log: &mut Vec<String>) {
		let onchain = |s: &String| {
			s.starts_with("[\"sign_holder\"") || s.starts_with("[\"sign_holder_htlc\"") || s.starts_with("[\"unsafe_sign_holder\"")
		};
		let mut i = 0;
		while i < log.len() {
			if onchain(&log[i]) {
				let mut j = i;
				while j < log.len() && onchain(&log[j]) {
					j += 1;
				}
				log[i..j].sort();
				i = j;
			} else {
				i += 1;
			}
		}
	}

	fn do_disconnect(&mut self) {
		assert!(!self.hold[0] && !self.hold[1], "harness: disconnect while a manager is held");
		self.nodes[0].node.peer_disconnected(self.ids[1]);
		self.nodes[1].node.peer_disconnected(self.ids[0]);
		self.connected = false;
		self.want_disc = false;
		self.q[0].clear();
		self.q[1].clear();
	}

	fn do_reconnect(&mut self) {
		let init0 = msgs::Init { features: self.nodes[0].node.init_features(), networks: None, remote_network_address: None };
		let init1 = msgs::Init { features: self.nodes[1].node.init_features(), networks: None, remote_network_address: None };
		self.connected = true;
		let _ = self.nodes[0].node.peer_connected(self.ids[1], &init1, true);
		let _ = self.nodes[1].node.peer_connected(self.ids[0], &init0, false);
	}

	fn send(&mut self, a: usize, amt: u64) -> Result<(), String> {
		let b = 1 - a;
		let scid = self
			.nodes[a]
			.node
			.list_channels()
			.iter()
			.find(|d| d.channel_id == self.chan_id)
			.and_then(|d| d.get_outbound_payment_scid())
			.ok_or_else(|| "no scid".to_string())?;
		let hops = vec![RouteHop {
			pubkey: self.ids[b],
			node_features: self.nodes[b].node.node_features(),
			short_channel_id: scid,
			channel_features: self.nodes[b].node.channel_features(),
			fee_msat: amt,
			cltv_expiry_delta: TEST_FINAL_CLTV,
			maybe_announced_channel: true,
		}];
		self.pay_ctr += 1;
		let mut pre = [0u8; 32];
		pre[0..8].copy_from_slice(&self.pay_ctr.to_be_bytes());
		pre[31] = 0x5a;
		let preimage = PaymentPreimage(pre);
		let hash = PaymentHash(Sha256::hash(&pre).to_byte_array());
		let secret = match self.nodes[b].node.create_inbound_payment_for_hash(hash, None, 7200, None, None) {
			Ok((s, _)) => s,
			Err(_) => return Err("create_inbound_payment".to_string()),
		};
		let route_params =
			RouteParameters::from_payment_params_and_value(PaymentParameters::from_node_id(self.ids[b], TEST_FINAL_CLTV), amt);
		let route = Route { paths: vec![Path { hops, blinded_tail: None }], route_params };
		let onion = RecipientOnionFields::secret_only(secret, amt);
		let mut id = [0u8; 32];
		id[0..8].copy_from_slice(&self.pay_ctr.to_be_bytes());
		self.preimages.insert(hash, preimage);
		self.nodes[a].node.send_payment_with_route(route, hash, onion, PaymentId(id)).map_err(|e| format!("{:?}", e))
	}

	fn pending_updates(&self, n: usize) -> Vec<(ChannelId, u64)> {
		let m = self.nodes[n].chain_monitor.chain_monitor.list_pending_monitor_updates();
		let mut chans: Vec<ChannelId> = m.keys().copied().collect();
		chans.sort();
		let mut out = Vec::new();
		for c in chans {
			for id in m[&c].iter() {
				out.push((c, *id));
			}
		}
		out
	}

	/// Restarts node `n` from `mgr_bytes` and the CURRENT monitors.
	fn do_reload(&mut self, n: usize, mgr_bytes: &[u8]) -> Result<(), String> {
		assert!(!self.hold[0] && !self.hold[1], "harness: reload while a manager is held");
		if self.connected {
			self.nodes[1 - n].node.peer_disconnected(self.ids[n]);
		}
		self.connected = false;
		self.want_disc = false;
		self.held_fs = None;
		self.q[0].clear();
		self.q[1].clear();
		// a restart is the one moment at which a persister may go back to synchronous operation
		self.persisters[n].async_mode.store(false, Ordering::SeqCst);

		let node = &self.nodes[n];
		let mut mon_ids = node.chain_monitor.chain_monitor.list_monitors();
		mon_ids.sort();
		let mon_bytes: Vec<Vec<u8>> =
			mon_ids.iter().map(|id| node.chain_monitor.chain_monitor.get_monitor(*id).unwrap().encode()).collect();
		let config = node.node.get_current_config();
		let km = node.keys_manager;
		let mut monitors = Vec::new();
		for b in mon_bytes.iter() {
			let mut r = &b[..];
			let (_, m) = <(BlockLocator, ChannelMonitor<TestChannelSigner>)>::read(&mut r, (km, km))
				.map_err(|e| format!("monitor read: {:?}", e))?;
			monitors.push(m);
		}
		let new_cm: &'static TestChainMonitor<'static> = Box::leak(Box::new(TestChainMonitor::new(
			Some(node.chain_source),
			node.tx_broadcaster,
			node.logger,
			node.fee_estimator,
			&self.persisters[n],
			km,
		)));
		let args = ChannelManagerReadArgs::new(
			km,
			km,
			km,
			node.fee_estimator,
			new_cm,
			node.tx_broadcaster,
			node.router,
			node.message_router,
			node.logger,
			config,
			monitors.iter().collect(),
		);
		let mut r = &mgr_bytes[..];
		let (_, mgr) = <(BlockLocator, TestChannelManager<'static, 'static>)>::read(&mut r, args)
			.map_err(|e| format!("manager read: {:?}", e))?;
		for m in monitors {
			let cid = m.channel_id();
			let res = new_cm.load_existing_monitor(cid, m);
			if res != Ok(ChannelMonitorUpdateStatus::Completed) {
				return Err(format!("load_existing_monitor: {:?}", res));
			}
		}
		new_cm.added_monitors.lock().unwrap().clear();
		let mgr_ref: &'static TestChannelManager<'static, 'static> = Box::leak(Box::new(mgr));
		let node = &mut self.nodes[n];
		node.chain_monitor = new_cm;
		node.node = mgr_ref;
		node.onion_messenger.set_offers_handler(mgr_ref);
		node.onion_messenger.set_async_payments_handler(mgr_ref);
		// A restarted manager must be brought to the chain tip before anything else (a stale one
		// is behind the monitors): replay the blocks it has not seen, in order, with their
		// transactions. The monitors are already at the tip.
		let bb = mgr_ref.current_best_block();
		let blocks = node.blocks.lock().unwrap().clone();
		let mut replayed = 0;
		if let Some(pos) = blocks.iter().position(|(b, h)| b.block_hash() == bb.block_hash && *h == bb.height) {
			for (b, h) in blocks[pos + 1..].iter() {
				Listen::block_connected(mgr_ref, b, *h);
				replayed += 1;
			}
		} else {
			return Err("manager best block not on the node's chain".to_string());
		}
		self.last_replayed = replayed;
		// the restored channel object holds no quiescence proposal (not serialized)
		self.quiesce_pending[n] = false;
		Ok(())
	}

	/// Whether the message of INJECT_KINDS[kind] can be built for receiver `n`, whose view is `v`.
	fn inject_available(&self, n: usize, kind: usize, v: &RevocationView) -> bool {
		match INJECT_KINDS[kind] {
			"raa_extra" | "raa_wrong" => v.counterparty_next > 0,
			"raa_stale" => v.counterparty_next > 0 && !self.raa_hist[1 - n].is_empty(),
			"raa_dup" => self.last_raa_in[n].is_some(),
			_ => self.last_cs_in[n].is_some(),
		}
	}

	/// A message nobody sent, for receiver `n`, and the kind it is reported as. The revoke_and_acks
	/// are those of the peer `p` of `n` "revoking" its CURRENT commitment, built from p's raw key
	/// material (neither the TestChannelSigner log nor its assertions are touched).
	fn build_inject(&self, n: usize, kind: usize, rng: &mut Rng) -> Option<(Wire, &'static str)> {
		const INITIAL: u64 = (1 << 48) - 1;
		let p = 1 - n;
		let name = INJECT_KINDS[kind];
		match name {
			"raa_dup" => return self.last_raa_in[n].clone().map(|m| (Wire::RAA(m), name)),
			"cs_dup" => return self.last_cs_in[n].clone().map(|m| (Wire::CS(m), name)),
			_ => {},
		}
		let v = self.view(n)?;
		if v.counterparty_next == 0 {
			return None;
		}
		let sg = self.nodes[p].keys_manager.derive_channel_signer(self.keys[p]);
		let point = sg.inner.get_per_commitment_point(v.counterparty_next - 1, &self.intern.secp).ok()?;
		let (secret, reported) = match name {
			"raa_extra" => {
				let s = sg.inner.release_commitment_secret(v.counterparty_next + 1).ok()?;
				(s, if v.awaiting_remote_revoke { "raa_early" } else { "raa_extra" })
			},
			"raa_wrong" => {
				let k = v.counterparty_next + 3;
				// 0x11..11 is a valid secret key that matches no announced point
				let s = if k <= INITIAL { sg.inner.release_commitment_secret(k).ok()? } else { [0x11; 32] };
				(s, name)
			},
			_ => {
				let hist = &self.raa_hist[p];
				if hist.is_empty() {
					return None;
				}
				(hist[rng.below(hist.len() as u64) as usize], name)
			},
		};
		let m = msgs::RevokeAndACK {
			channel_id: self.chan_id,
			per_commitment_secret: secret,
			next_per_commitment_point: point,
			release_htlc_message_paths: Vec::new(),
		};
		Some((Wire::RAA(m), reported))
	}

	/// Delivers to `n` a channel_ready nobody sent: a copy of the peer's last one (`diff` = false)
	/// or one announcing a different, valid per-commitment point of the peer (`diff` = true).
	fn ready_dup(&mut self, n: usize, diff: bool, rng: &mut Rng, rec: &Rc<RefCell<Rec>>, hdr: &str) {
		const INITIAL: u64 = (1 << 48) - 1;
		let p = 1 - n;
		let sg = self.nodes[p].keys_manager.derive_channel_signer(self.keys[p]);
		let mut msg = match &self.last_ready[p] {
			Some(m) => m.clone(),
			None => msgs::ChannelReady {
				channel_id: self.chan_id,
				next_per_commitment_point: sg.inner.get_per_commitment_point(INITIAL - 1, &self.intern.secp).unwrap(),
				short_channel_id_alias: None,
			},
		};
		let mut k = INITIAL - 1;
		if diff {
			k = [INITIAL, INITIAL - 2, INITIAL - 3, INITIAL - 5][rng.below(4) as usize];
			msg.next_per_commitment_point = sg.inner.get_per_commitment_point(k, &self.intern.secp).unwrap();
		}
		let kind = if diff { "ready_dup_diff" } else { "ready_dup_same" };
		let before = self.view(n);
		self.dup_ctx = Some(DupCtx { n, diff, k, before });
		let mid = self.next_mid;
		self.next_mid += 1;
		let mut j = self.wire_json(&Wire::Ready(msg.clone()), mid);
		j.pop();
		let body = format!("{},\"corrupt\":\"{}\"", &j[1..], kind);
		{
			let mut r = rec.borrow_mut();
			r.pending = Some(format!("{},\"args\":{{{}}}", hdr, body));
			r.corrupt.push(kind.to_string());
		}
		self.nodes[n].node.handle_channel_ready(self.ids[p], &msg);
	}

	/// Hands `w` (a message nobody sent, reported as `kind`) to node `n`.
	fn deliver_injected(&mut self, n: usize, w: Wire, kind: &'static str, rec: &Rc<RefCell<Rec>>, hdr: &str) {
		let mid = self.next_mid;
		self.next_mid += 1;
		let mut j = self.wire_json(&w, mid);
		j.pop();
		let body = format!("{},\"corrupt\":\"{}\"", &j[1..], kind);
		{
			let mut r = rec.borrow_mut();
			r.pending = Some(format!("{},\"args\":{{{}}}", hdr, body));
			r.corrupt.push(kind.to_string());
		}
		let from_id = self.ids[1 - n];
		match w {
			Wire::RAA(m) => self.nodes[n].node.handle_revoke_and_ack(from_id, &m),
			Wire::CS(m) => self.nodes[n].node.handle_commitment_signed(from_id, &m),
			_ => {},
		}
	}

	/// Pops the head of `q[n]`, possibly corrupts it, hands it to node `n`. The args body is left
	/// in `rec.pending`.
	fn deliver(&mut self, n: usize, rng: &mut Rng, adv: bool, rec: &Rc<RefCell<Rec>>, hdr: &str) {
		if adv {
			if let Some(v) = self.view(n) {
				let avail: Vec<usize> = (0..INJECT_RAA_KINDS).filter(|k| self.inject_available(n, *k, &v)).collect();
				if !avail.is_empty() && rng.below(6) == 0 {
					let kind = avail[rng.below(avail.len() as u64) as usize];
					if let Some((w, reported)) = self.build_inject(n, kind, rng) {
						// inserted BEFORE the head of the queue, which stays where it is
						self.deliver_injected(n, w, reported, rec, hdr);
						return;
					}
				}
			}
		}
		let mut qm = self.q[n].pop_front().unwrap();
		let from = 1 - n;
		let from_id = self.ids[from];
		let mut corrupt: Option<&'static str> = None;
		let corruptible = matches!(qm.w, Wire::RAA(_) | Wire::CS(_) | Wire::Reest(_));
		// a commitment_signed carrying HTLC signatures is corrupted more often
		let one_in = match &qm.w {
			Wire::CS(m) if !m.htlc_signatures.is_empty() => 2,
			_ => 12,
		};
		let armed_subst = match (&qm.w, self.subst[n]) {
			(Wire::RAA(_), Some((k, true))) => Some(k),
			_ => None,
		};
		if let Some(k) = armed_subst {
			// follow-up of an accepted ready_dup_diff: the secret whose point is the substituted one
			self.subst[n] = None;
			let sg = self.nodes[from].keys_manager.derive_channel_signer(self.keys[from]);
			if let (Wire::RAA(m), Ok(sec)) = (&mut qm.w, sg.inner.release_commitment_secret(k)) {
				m.per_commitment_secret = sec;
				corrupt = Some("raa_subst");
			}
		} else if adv && corruptible && self.view(n).is_some() && rng.below(one_in) == 0 {
			match &mut qm.w {
				Wire::RAA(m) => {
					let olds: Vec<[u8; 32]> = {
						let mut v: Vec<[u8; 32]> = Vec::new();
						for s in self.raa_hist[from][..qm.hist_idx.min(self.raa_hist[from].len())].iter() {
							if *s != m.per_commitment_secret && !v.contains(s) {
								v.push(*s);
							}
						}
						v
					};
					let pts: Vec<PublicKey> = {
						let mut v: Vec<PublicKey> = Vec::new();
						for (vis, p) in self.point_hist[from].iter() {
							if *vis <= qm.hist_idx && *p != m.next_per_commitment_point && !v.contains(p) {
								v.push(*p);
							}
						}
						v
					};
					let mut kinds = vec!["raa_flip"];
					if !olds.is_empty() {
						kinds.push("raa_old");
					}
					if !pts.is_empty() {
						kinds.push("raa_point");
					}
					let kind = kinds[rng.below(kinds.len() as u64) as usize];
					match kind {
						"raa_flip" => {
							let bit = rng.below(256) as usize;
							m.per_commitment_secret[bit / 8] ^= 1 << (bit % 8);
						},
						"raa_old" => m.per_commitment_secret = olds[rng.below(olds.len() as u64) as usize],
						_ => m.next_per_commitment_point = pts[rng.below(pts.len() as u64) as usize],
					}
					corrupt = Some(kind);
				},
				Wire::CS(m) => {
					let mut olds: Vec<Signature> = Vec::new();
					for s in self.cs_hist[from][..qm.hist_idx.min(self.cs_hist[from].len())].iter() {
						if *s != m.signature && !olds.contains(s) {
							olds.push(*s);
						}
					}
					let nh = m.htlc_signatures.len();
					let mut kinds: Vec<&'static str> = Vec::new();
					if !olds.is_empty() {
						kinds.push("cs_sig");
					}
					if nh >= 1 {
						kinds.push("cs_drop_htlc_sigs");
						kinds.push("cs_empty_htlc_sigs");
						kinds.push("cs_corrupt_htlc_sig");
					}
					kinds.push("cs_extra_htlc_sig");
					if nh >= 2 {
						kinds.push("cs_swap_htlc_sigs");
					}
					let kind = kinds[rng.below(kinds.len() as u64) as usize];
					match kind {
						"cs_sig" => m.signature = olds[rng.below(olds.len() as u64) as usize],
						"cs_drop_htlc_sigs" => {
							// either a valid prefix stays (drop from the end) or arbitrary positions go
							let r = 1 + rng.below(nh as u64);
							let from_end = rng.below(2) == 0;
							for _ in 0..r {
								let len = m.htlc_signatures.len();
								let i = if from_end { len - 1 } else { rng.below(len as u64) as usize };
								m.htlc_signatures.remove(i);
							}
						},
						"cs_empty_htlc_sigs" => m.htlc_signatures.clear(),
						"cs_corrupt_htlc_sig" => {
							let i = rng.below(nh as u64) as usize;
							m.htlc_signatures[i] = m.signature;
						},
						"cs_extra_htlc_sig" => {
							let extra = if nh == 0 { m.signature } else { m.htlc_signatures[rng.below(nh as u64) as usize] };
							m.htlc_signatures.push(extra);
						},
						_ => {
							let i = rng.below(nh as u64) as usize;
							let mut j = rng.below(nh as u64 - 1) as usize;
							if j >= i {
								j += 1;
							}
							m.htlc_signatures.swap(i, j);
						},
					}
					corrupt = Some(kind);
					if kind != "cs_sig" {
						self.last_cs_corrupt = Some((kind, nh));
					}
				},
				Wire::Reest(m) => {
					let kind = ["reest_nl+1", "reest_nl-1", "reest_nr+1", "reest_nr-1", "reest_secret"][rng.below(5) as usize];
					match kind {
						"reest_nl+1" => m.next_local_commitment_number = m.next_local_commitment_number.saturating_add(1),
						"reest_nl-1" => m.next_local_commitment_number = m.next_local_commitment_number.saturating_sub(1),
						"reest_nr+1" => m.next_remote_commitment_number = m.next_remote_commitment_number.saturating_add(1),
						"reest_nr-1" => m.next_remote_commitment_number = m.next_remote_commitment_number.saturating_sub(1),
						_ => {
							let bit = rng.below(256) as usize;
							m.your_last_per_commitment_secret[bit / 8] ^= 1 << (bit % 8);
						},
					}
					corrupt = Some(kind);
				},
				_ => {},
			}
		}
		// args = the message AS DELIVERED
		let mut j = self.wire_json(&qm.w, qm.id);
		j.pop();
		let body = format!("{},\"corrupt\":{}", &j[1..], jopt(&corrupt.map(|s| s.to_string())));
		{
			let mut r = rec.borrow_mut();
			r.pending = Some(format!("{},\"args\":{{{}}}", hdr, body));
			if let Some(c) = corrupt {
				r.corrupt.push(c.to_string());
			}
		}
		let node = self.nodes[n].node;
		match &qm.w {
			Wire::RAA(m) => self.last_raa_in[n] = Some(m.clone()),
			Wire::CS(m) => self.last_cs_in[n] = Some(m.clone()),
			_ => {},
		}
		match qm.w {
			Wire::Stfu(m) => {
				let before = self.view(n);
				node.handle_stfu(from_id, &m);
				// a node that had sent its own stfu and becomes quiescent as the initiator (the peer
				// answered, or the funder -- node 0 -- wins the tie) consumes its pending proposal
				let sl = before.map(|v| v.local_stfu_sent).unwrap_or(false);
				let qu = self.view(n).map(|v| v.quiescent).unwrap_or(false);
				if sl && qu && (!m.initiator || n == 0) {
					self.quiesce_pending[n] = false;
				}
			},
			Wire::Add(m) => node.handle_update_add_htlc(from_id, &m),
			Wire::Fulfill(m) => node.handle_update_fulfill_htlc(from_id, m),
			Wire::FailHtlc(m) => node.handle_update_fail_htlc(from_id, &m),
			Wire::FailMalformed(m) => node.handle_update_fail_malformed_htlc(from_id, &m),
			Wire::Fee(m) => node.handle_update_fee(from_id, &m),
			Wire::CS(m) => node.handle_commitment_signed(from_id, &m),
			Wire::RAA(m) => node.handle_revoke_and_ack(from_id, &m),
			Wire::Reest(m) => node.handle_channel_reestablish(from_id, &m),
			Wire::Ready(m) => node.handle_channel_ready(from_id, &m),
			Wire::Error(m) => node.handle_error(from_id, &m),
			Wire::Warn(_) => {},
			Wire::Shutdown(m) => node.handle_shutdown(from_id, &m),
			Wire::ClosingSigned(m) => node.handle_closing_signed(from_id, &m),
			Wire::Other(_) => {},
		}
		if qm.disc_after {
			self.want_disc = true;
		}
	}
}

fn style_from(k: u64) -> ConnectStyle {
	match k % 11 {
		0 => ConnectStyle::BestBlockFirst,
		1 => ConnectStyle::BestBlockFirstSkippingBlocks,
		2 => ConnectStyle::BestBlockFirstReorgsOnlyTip,
		3 => ConnectStyle::TransactionsFirst,
		4 => ConnectStyle::TransactionsFirstSkippingBlocks,
		5 => ConnectStyle::TransactionsDuplicativelyFirstSkippingBlocks,
		6 => ConnectStyle::HighlyRedundantTransactionsFirstSkippingBlocks,
		7 => ConnectStyle::TransactionsFirstReorgsOnlyTip,
		8 => ConnectStyle::FullBlockViaListen,
		9 => ConnectStyle::ReplayedFullBlockViaListen,
		_ => ConnectStyle::FullBlockDisconnectionsSkippingViaListen,
	}
}

fn obs_json(w: &mut World, o: &Obs, n: usize) -> String {
	let view = match w.view(n) {
		Some(v) => w.view_json(&v),
		None => "null".to_string(),
	};
	// ids of the observed channel's monitor updates whose persistence has not completed yet
	let chan = w.chan_id;
	let pend: Vec<String> = w.pending_updates(n).iter().filter(|(c, _)| *c == chan).map(|(_, id)| id.to_string()).collect();
	format!(
		"{{\"log\":{},\"view\":{},\"holder\":{},\"sent\":{},\"bcast\":{},\"closed\":{},\"mon\":{},\"pend\":{}}}",
		jarr(&o.log),
		view,
		w.holder_json(n),
		jarr(&o.sent),
		jarr(&o.bcast),
		jopt(&o.closed),
		jarr(&o.mon),
		jarr(&pend)
	)
}

// ------------------------------------------------------------------------------------------
// one scenario
// ------------------------------------------------------------------------------------------
fn run_scenario(seed: u64, k: u64, max_steps: u64, flags: &Flags, rec: &Rc<RefCell<Rec>>) {
	let mut rng = Rng(seed ^ k.wrapping_mul(0x9E3779B97F4A7C15));
	let _ = vh::signer_log::take();

	// Everything the nodes borrow is leaked: reloads need fresh chain monitors / managers that
	// outlive `nodes`, and nothing here may run its test-suite Drop assertions.
	// how the channel comes to life (a batch open needs a third node for the second channel, which is
	// never looked at again)
	let (open_mode, zero_conf) = match rng.below(4) {
		0 | 1 => ("normal", false),
		2 => ("manual", rng.below(2) == 0),
		_ => ("batch", true),
	};
	{
		let mut r = rec.borrow_mut();
		r.open_mode = open_mode.to_string();
		r.zero_conf = zero_conf;
	}
	let nn = if open_mode == "batch" { 3 } else { 2 };
	let persisters: &'static Vec<ModePersister> =
		Box::leak(Box::new((0..nn).map(|_| ModePersister { async_mode: AtomicBool::new(false) }).collect()));
	let cfgs: &'static Vec<TestChanMonCfg> = Box::leak(Box::new(create_chanmon_cfgs(nn)));
	let node_cfgs: &'static Vec<NodeCfg<'static>> =
		Box::leak(Box::new(create_node_cfgs_with_persisters(nn, cfgs, persisters.iter().collect())));
	let ucfg = test_legacy_channel_config(); // anchors off: the monitor signs holder commitments directly
	let ucfgs: Vec<Option<lightning::util::config::UserConfig>> = (0..nn).map(|_| Some(ucfg.clone())).collect();
	let node_chanmgrs: &'static Vec<TestChannelManager<'static, 'static>> =
		Box::leak(Box::new(create_node_chanmgrs(nn, node_cfgs, &ucfgs)));
	let nodes = create_network(nn, node_cfgs, node_chanmgrs);
	// one Rc shared by all nodes
	*nodes[0].connect_style.borrow_mut() = style_from(rng.below(11));
	for n in nodes.iter() {
		// the lower bound a node tolerates from its peer does not move with the estimate (otherwise an
		// update_fee in flight while the estimate rises again legitimately closes the channel)
		let mut o = n.fee_estimator.target_override.lock().unwrap();
		o.insert(ConfirmationTarget::MinAllowedAnchorChannelRemoteFee, 253);
		o.insert(ConfirmationTarget::MinAllowedNonAnchorChannelRemoteFee, 253);
	}
	let ids = [nodes[0].node.get_our_node_id(), nodes[1].node.get_our_node_id()];
	// By default both ends of a test channel derive the SAME channel_keys_id (it only depends on the
	// user_channel_id and a per-node counter); the signer log is attributed by that id, so force
	// distinct ones (consumed by the first channel each node creates / accepts).
	for n in 0..2 {
		let mut id = [0u8; 32];
		id[0] = 0xc0 + n as u8;
		id[31] = 0x2a;
		cfgs[n].keys_manager.set_next_keys_id(id);
	}
	// message events pulled during a hand-driven handshake that still have to travel
	let mut leftover: [Vec<MessageSendEvent>; 3] = [Vec::new(), Vec::new(), Vec::new()];
	let mut held_fs: Option<msgs::FundingSigned> = None;
	let chan_id;
	let funding_tx;
	let mut funding_vout = 0u32;
	let funding_broadcast;
	let funding_confirmed;
	if open_mode == "normal" {
		let (_, _, c, t) = create_announced_chan_between_nodes_with_value(&nodes, 0, 1, 1_000_000, 400_000_000);
		chan_id = c;
		funding_tx = t;
		funding_broadcast = true;
		funding_confirmed = [true, true];
	} else {
		// open_channel .. funding_signed by hand; channel_ready travels through the queues
		fn pick<T>(
			nodes: &Vec<Node<'static, 'static, 'static>>, n: usize, leftover: &mut [Vec<MessageSendEvent>; 3],
			f: &dyn Fn(&MessageSendEvent) -> Option<T>,
		) -> T {
			let mut found = None;
			for ev in nodes[n].node.get_and_clear_pending_msg_events() {
				if found.is_none() {
					if let Some(x) = f(&ev) {
						found = Some(x);
						continue;
					}
				}
				leftover[n].push(ev);
			}
			found.expect("handshake message")
		}
		let n_chans = if open_mode == "batch" { 2 } else { 1 };
		let mut tmp_ids = Vec::new();
		let mut outs = Vec::new();
		let peer_of = |c: usize| if c == 0 { 1usize } else { 2usize };
		let all_ids: Vec<PublicKey> = nodes.iter().map(|n| n.node.get_our_node_id()).collect();
		for c in 0..n_chans {
			let user_id = 42 + c as u128;
			let pn = peer_of(c);
			nodes[0].node.create_channel(all_ids[pn], 1_000_000, 400_000_000, user_id, None, None).unwrap();
			let open = pick(&nodes, 0, &mut leftover, &|e| match e {
				MessageSendEvent::SendOpenChannel { msg, .. } => Some(msg.clone()),
				_ => None,
			});
			nodes[pn].node.handle_open_channel(ids[0], &open);
			for ev in nodes[pn].node.get_and_clear_pending_events() {
				if let Event::OpenChannelRequest { temporary_channel_id, .. } = ev {
					if zero_conf && c == 0 {
						nodes[pn]
							.node
							.accept_inbound_channel_from_trusted_peer(
								&temporary_channel_id,
								&ids[0],
								user_id,
								TrustedChannelFeatures::ZeroConf,
								None,
							)
							.unwrap();
					} else {
						nodes[pn].node.accept_inbound_channel(&temporary_channel_id, &ids[0], user_id, None).unwrap();
					}
				}
			}
			let accept = pick(&nodes, pn, &mut leftover, &|e| match e {
				MessageSendEvent::SendAcceptChannel { msg, .. } => Some(msg.clone()),
				_ => None,
			});
			nodes[0].node.handle_accept_channel(all_ids[pn], &accept);
			for ev in nodes[0].node.get_and_clear_pending_events() {
				if let Event::FundingGenerationReady { temporary_channel_id, channel_value_satoshis, output_script, .. } = ev {
					tmp_ids.push(temporary_channel_id);
					outs.push(TxOut { value: Amount::from_sat(channel_value_satoshis), script_pubkey: output_script });
				}
			}
		}
		assert_eq!(tmp_ids.len(), n_chans);
		let tx = Transaction {
			version: bitcoin::transaction::Version::TWO,
			lock_time: bitcoin::absolute::LockTime::ZERO,
			input: Vec::new(),
			output: outs,
		};
		if n_chans == 1 {
			nodes[0].node.funding_transaction_generated(tmp_ids[0], ids[1], tx.clone()).unwrap();
		} else {
			let chans: Vec<(&ChannelId, &PublicKey)> = tmp_ids.iter().enumerate().map(|(c, t)| (t, &all_ids[peer_of(c)])).collect();
			nodes[0].node.batch_funding_transaction_generated(&chans, tx.clone()).unwrap();
		}
		let mut fc_all: Vec<msgs::FundingCreated> = Vec::new();
		for ev in nodes[0].node.get_and_clear_pending_msg_events() {
			match ev {
				MessageSendEvent::SendFundingCreated { msg, .. } => fc_all.push(msg),
				ev => leftover[0].push(ev),
			}
		}
		let fcs: Vec<msgs::FundingCreated> = tmp_ids
			.iter()
			.map(|t| fc_all.iter().find(|m| m.temporary_channel_id == *t).expect("funding_created").clone())
			.collect();
		assert_eq!(fcs.len(), n_chans);
		let cid_of = |fc: &msgs::FundingCreated| ChannelId::v1_from_funding_txid(fc.funding_txid.as_byte_array(), fc.funding_output_index);
		chan_id = cid_of(&fcs[0]);
		funding_vout = fcs[0].funding_output_index as u32;
		let mut fss = Vec::new();
		for (c, fc) in fcs.iter().enumerate() {
			let pn = peer_of(c);
			nodes[pn].node.handle_funding_created(ids[0], fc);
			let want = cid_of(fc);
			fss.push(pick(&nodes, pn, &mut leftover, &|e| match e {
				MessageSendEvent::SendFundingSigned { msg, .. } if msg.channel_id == want => Some(msg.clone()),
				_ => None,
			}));
		}
		// the observed channel's funding_signed first; a batch then waits for the other one
		nodes[0].node.handle_funding_signed(ids[1], &fss[0]);
		if n_chans == 2 {
			held_fs = Some(fss[1].clone());
		}
		funding_tx = tx;
		funding_broadcast = false; // noticed by `drain` when node 0 hands it to the broadcaster
		funding_confirmed = [false, false];
	}
	let fee0 = *cfgs[0].fee_estimator.sat_per_kw.lock().unwrap();

	let mut w = ManuallyDrop::new(World {
		nodes,
		cfgs,
		persisters,
		ids,
		chan_id,
		funding_txid: funding_tx.compute_txid(),
		keys: [[0u8; 32]; 2],
		state_ids: [0; 2],
		q: [VecDeque::new(), VecDeque::new()],
		connected: true,
		want_disc: false,
		next_mid: 0,
		intern: Intern { map: HashMap::new(), secp: Secp256k1::new() },
		raa_hist: [Vec::new(), Vec::new()],
		point_hist: [Vec::new(), Vec::new()],
		cs_hist: [Vec::new(), Vec::new()],
		claimable: [Vec::new(), Vec::new()],
		preimages: HashMap::new(),
		pay_ctr: 0,
		closed_seen: [false; 2],
		spends: Vec::new(),
		confirmed_spend: [None, None],
		snapshot: [None, None],
		fee: fee0,
		fee0,
		last_replayed: 0,
		funding_vout,
		funding_tx: funding_tx.clone(),
		funding_broadcast,
		funding_confirmed,
		held_fs,
		batch: open_mode == "batch",
		skip_dbg: None,
		last_ready: [None, None],
		subst: [None, None],
		last_cs_corrupt: None,
		dup_ctx: None,
		hold: [false; 2],
		hold_steps: [0; 2],
		last_raa_in: [None, None],
		last_cs_in: [None, None],
		quiesce_pending: [false; 2],
	});

	if nn == 3 {
		w.skip_dbg = Some(format!("{:?}", w.nodes[2].node.get_our_node_id()));
	}
	// setup noise is not part of the trace; channel_ready messages of a hand-driven open stay queued
	{
		let mut scratch: [Obs; 2] = Default::default();
		let lo: Vec<Vec<MessageSendEvent>> = leftover.iter_mut().map(|v| v.drain(..).collect()).collect();
		for (n, evs) in lo.into_iter().enumerate().take(2) {
			for ev in evs {
				w.on_msg_event(n, ev, &mut scratch);
			}
		}
		w.drain(&mut scratch);
		let _ = vh::signer_log::take();
		// monitor updates of the channel open are not part of the trace either
		for n in 0..2 {
			w.nodes[n].chain_monitor.monitor_updates.lock().unwrap().clear();
		}
		w.claimable = [Vec::new(), Vec::new()];
		w.spends.clear();
		if open_mode == "normal" {
			w.q[0].clear();
			w.q[1].clear();
			w.raa_hist = [Vec::new(), Vec::new()];
			w.point_hist = [Vec::new(), Vec::new()];
			w.cs_hist = [Vec::new(), Vec::new()];
			w.last_ready = [None, None];
			w.next_mid = 0;
		} else {
			let mut r = rec.borrow_mut();
			r.init_sent = vec![jarr(&scratch[0].sent), jarr(&scratch[1].sent)];
		}
	}
	// init
	{
		let mut init = Vec::new();
		let mut keys = Vec::new();
		for n in 0..2 {
			let (kid, v) = vh::revocation_view(w.nodes[n].node, &w.ids[1 - n], &w.chan_id).expect("channel open after setup");
			w.keys[n] = kid;
			let sg = w.nodes[n].keys_manager.derive_channel_signer(kid);
			w.state_ids[n] = std::sync::Arc::as_ptr(&sg.state) as usize;
			keys.push(js(&hex(&kid)));
			// points announced by the PEER of n during the open
			if let Some(p) = v.counterparty_current_point {
				w.point_hist[1 - n].insert(0, (0, p));
			}
			if let Some(p) = v.counterparty_next_point {
				let at = if v.counterparty_current_point.is_some() { 1 } else { 0 };
				if !w.point_hist[1 - n].iter().any(|(_, q)| *q == p) {
					w.point_hist[1 - n].insert(at, (0, p));
				}
			}
			let (p0, p1) = if open_mode == "normal" {
				(w.intern.opt_point(&v.counterparty_current_point), w.intern.opt_point(&v.counterparty_next_point))
			} else {
				// before any channel_ready: only the first per-commitment point is known
				(w.intern.opt_point(&v.counterparty_next_point), -1)
			};
			let vj = w.view_json(&v);
			init.push(format!("{{\"view\":{},\"holder\":{},\"p0\":{},\"p1\":{}}}", vj, w.holder_json(n), p0, p1));
		}
		let mut r = rec.borrow_mut();
		r.keys = keys;
		r.init = init;
	}

	// destructive behaviours start at a random point of the scenario so that closes are spread in time
	// Each destructive family is active in about half of the scenarios and starts at a random point,
	// so that channel lifetimes are spread (some channels live through the whole scenario).
	let late = |rng: &mut Rng| max_steps / 4 + rng.below((max_steps - max_steps / 4).max(1));
	let adv_on = rng.below(3) != 0;
	let adv_at = rng.below((max_steps / 2).max(1));
	let close_on = rng.below(2) == 0;
	let close_at = late(&mut rng);
	let stale_on = rng.below(2) == 0;
	let stale_at = late(&mut rng);
	let adv_start = if flags.adv && adv_on { adv_at } else { u64::MAX };
	let close_start = if flags.close && close_on { close_at } else { u64::MAX };
	let stale_start = if flags.reload && stale_on { stale_at } else { u64::MAX };
	let inject_on = rng.below(3) != 0;
	let hs_dup_on = rng.below(2) == 0;
	let late_dup_on = rng.below(3) == 0;
	let quiesce_on = rng.below(3) == 0;
	// A FOCUSED scenario (every second one with flag adv) aims ONE injected message at ONE receiver
	// state: until it has fired, nothing else is injected or corrupted, the scheduler steers towards
	// the state (async persistence, stfu, a held manager), and as soon as a node is in that state and
	// the message can be built the injection is all but certain. Afterwards the scenario goes on as
	// an ordinary one. States: 0 = not awaiting a revocation, monitor update in progress; 1 = awaiting,
	// monitor update in progress with our commitment_signed still pending on it; 2 = our stfu sent;
	// 3 = quiescent; 4 = manager held back after a monitor-API broadcast; 5 = reconnected, no
	// channel_reestablish yet; 6 = idle; 7 = awaiting, no monitor update.
	let mut focus: Option<(u64, usize)> = None;
	if flags.adv && rng.below(2) == 0 {
		// the states that need steering and the unsolicited / early revoke_and_ack get most of the mass
		let mut st = [0u64, 0, 0, 0, 1, 1, 1, 2, 3, 4, 4, 4, 5, 6, 7][rng.below(15) as usize];
		let kind = [0usize, 0, 0, 0, 1, 2, 3, 4, 4][rng.below(9) as usize];
		if (st == 0 || st == 1) && !flags.asyn {
			st += 6;
		}
		if st == 4 && !flags.close {
			st = 5;
		}
		focus = Some((st, kind));
	}
	let focus_state = focus.map(|f| f.0);
	// after the focused message nothing else is injected or corrupted for a while: its consequences
	// (monitor completions, retransmissions, the next update) get room to play out
	let mut quiet_until = 0u64;
	let (adv_start, inject_on, quiesce_on, close_start) = match focus_state {
		Some(st) => (
			adv_at.min(max_steps / 4),
			true,
			quiesce_on || st == 2 || st == 3,
			if st == 4 { adv_at.min(max_steps / 4) } else { close_start },
		),
		None => (adv_start, inject_on, quiesce_on, close_start),
	};
	{
		let mut r = rec.borrow_mut();
		r.focus = focus.map(|(st, k)| format!("{}:{}", st, INJECT_KINDS[k]));
	}
	// nodes whose monitor was told to broadcast its holder commitment (statistics only)
	let mut locked = [false; 2];

	for step in 0..max_steps {
		let views = [w.view(0), w.view(1)];
		let open = [views[0].is_some(), views[1].is_some()];
		let both_open = open[0] && open[1];
		let ready = both_open && views[0].as_ref().unwrap().channel_ready && views[1].as_ref().unwrap().channel_ready;
		let async_mode = [persisters[0].async_mode.load(Ordering::SeqCst), persisters[1].async_mode.load(Ordering::SeqCst)];

		// enabled actions, in a fixed order
		let mut en: Vec<(u64, Act)> = Vec::new();
		let any_hold = w.hold[0] || w.hold[1];
		// handshake phase: the channel exists on both sides but is not ChannelReady on both
		let hs = both_open && !ready;
		// injected messages (offered in both regimes below)
		let mut inj: Vec<(u64, Act)> = Vec::new();
		if flags.adv && inject_on && step >= adv_start && step >= quiet_until && w.connected {
			for n in 0..2 {
				if let Some(v) = views[n].as_ref() {
					if !v.channel_ready {
						continue;
					}
					let hot = v.monitor_update_in_progress || v.local_stfu_sent || v.quiescent || w.hold[n];
					let in_focus_state = match focus {
						Some((0, _)) => !v.awaiting_remote_revoke && v.monitor_update_in_progress && !v.peer_disconnected,
						Some((1, _)) => {
							v.awaiting_remote_revoke
								&& v.monitor_update_in_progress
								&& v.monitor_pending_commitment_signed
								&& !v.peer_disconnected
						},
						Some((2, _)) => v.local_stfu_sent,
						Some((3, _)) => v.quiescent,
						Some((4, _)) => w.hold[n] && !v.peer_disconnected,
						Some((5, _)) => v.peer_disconnected,
						Some((6, _)) => !v.awaiting_remote_revoke && !v.monitor_update_in_progress && !v.peer_disconnected,
						Some((_, _)) => v.awaiting_remote_revoke && !v.monitor_update_in_progress && !v.peer_disconnected,
						None => false,
					};
					for k in 0..INJECT_KINDS.len() {
						if w.inject_available(n, k, v) {
							match focus {
								Some((_, fk)) => {
									if fk == k && in_focus_state {
										inj.push((600, Act::Inject(n, k)));
									}
								},
								None => inj.push((if hot { 5 } else { 1 }, Act::Inject(n, k))),
							}
						}
					}
				}
			}
		}
		if any_hold {
			// a manager is held: only deliveries, monitor completions, a user force-close of the held
			// node and the release; a forced disconnect waits (want_disc stays set)
			let forced: Vec<usize> = (0..2).filter(|n| w.hold[*n] && w.hold_steps[*n] >= 4).collect();
			if !forced.is_empty() {
				for n in forced {
					en.push((8, Act::ProcessEvents(n)));
				}
			} else {
				for n in 0..2 {
					if w.connected && !w.q[n].is_empty() {
						en.push((28, Act::Deliver(n)));
					}
				}
				en.extend(inj.iter().copied());
				if flags.asyn {
					for n in 0..2 {
						if async_mode[n] {
							en.push((6, Act::MonComplete(n)));
						}
					}
				}
				for n in 0..2 {
					if w.hold[n] {
						if flags.close && open[n] {
							en.push((2, Act::ForceClose(n)));
						}
						en.push((8, Act::ProcessEvents(n)));
					}
				}
			}
		} else if w.want_disc && w.connected {
			en.push((1, Act::Disconnect));
		} else {
			w.want_disc = false;
			let blocks_ok = |w: &World, n: usize| w.funding_confirmed[n] || (!hs && !w.funding_broadcast);
			for n in 0..2 {
				if w.connected && !w.q[n].is_empty() {
					en.push((28, Act::Deliver(n)));
				}
			}
			if w.funding_broadcast {
				for n in 0..2 {
					if !w.funding_confirmed[n] {
						en.push((if hs { 8 } else { 3 }, Act::FundConfirm(n)));
					}
				}
			}
			if w.held_fs.is_some() && w.connected && open[0] {
				en.push((6, Act::BatchComplete));
			}
			// (before its one message a focused scenario only re-sends the SAME channel_ready during the
			// handshake: a different point closes the channel)
			if flags.adv && w.connected && step >= quiet_until {
				for n in 0..2 {
					if !open[n] {
						continue;
					}
					if hs && hs_dup_on && w.last_ready[1 - n].is_some() {
						en.push((4, Act::ReadyDup(n, false)));
						if focus.is_none() {
							en.push((2, Act::ReadyDup(n, true)));
						}
					} else if focus.is_some() {
					} else if !hs && late_dup_on && step >= adv_start {
						en.push((1, Act::ReadyDup(n, false)));
						en.push((1, Act::ReadyDup(n, true)));
					}
				}
			}
			en.extend(inj.iter().copied());
			if flags.adv && quiesce_on && ready && w.connected {
				for n in 0..2 {
					let v = views[n].as_ref().unwrap();
					// the proposal is a test utility with API-misuse assertions: only on a usable channel
					// (ChannelDetails::is_channel_ready) that holds no earlier, unconsumed proposal
					if !v.local_stfu_sent && !v.quiescent && !w.quiesce_pending[n] {
						let usable = w
							.nodes[n]
							.node
							.list_channels()
							.iter()
							.find(|d| d.channel_id == w.chan_id)
							.map(|d| d.is_channel_ready)
							.unwrap_or(false);
						if usable {
							en.push((if matches!(focus_state, Some(2) | Some(3)) { 8 } else { 2 }, Act::Quiesce(n)));
						}
					}
				}
			}
			for n in 0..2 {
				if views[n].as_ref().map(|v| v.quiescent && !v.local_stfu_sent && !v.remote_stfu_sent).unwrap_or(false) {
					en.push((3, Act::ExitQuiesce(n)));
				}
			}
			for n in 0..2 {
				if w.nodes[n].node.needs_pending_htlc_processing() {
					en.push((16, Act::Fwd(n)));
				}
			}
			for n in 0..2 {
				if ready && w.connected {
					// (with a steady stream of payments a node that gets a revocation commits again at once)
					// while a focus on a not-awaiting state is pending, a new payment starts only from rest
					let calm = matches!(focus, Some((0, _)) | Some((6, _))) && step >= adv_start;
					let at_rest = views.iter().all(|v| v.as_ref().map(|v| !v.awaiting_remote_revoke).unwrap_or(true));
					if !calm {
						en.push((6, Act::Send(n)));
					} else if at_rest {
						en.push((3, Act::Send(n)));
					}
				}
			}
			for n in 0..2 {
				if !w.claimable[n].is_empty() {
					en.push((5, Act::Claim(n)));
					en.push((2, Act::Fail(n)));
				}
			}
			if ready && w.connected && !(matches!(focus, Some((0, _)) | Some((6, _))) && step >= adv_start) {
				en.push((2, Act::Fee));
			}
			if w.connected {
				// in the handshake phase only once a funding confirmation (or 0-conf) lets channel_ready
				// messages flow, and never while a batch is incomplete
				let hs_ok = w.held_fs.is_none() && (zero_conf || w.funding_confirmed[0] || w.funding_confirmed[1]);
				if !hs || hs_ok {
					en.push((2, Act::Disconnect));
				}
			} else {
				en.push((16, Act::Reconnect));
			}
			if flags.asyn {
				for n in 0..2 {
					if async_mode[n] {
						en.push((if matches!(focus_state, Some(0) | Some(1)) { 2 } else { 6 }, Act::MonComplete(n)));
					} else if open[n] && !hs {
						en.push((if matches!(focus_state, Some(0) | Some(1)) { 12 } else { 1 }, Act::MonAsync(n)));
					}
				}
			}
			if flags.reload && !hs {
				for n in 0..2 {
					if !async_mode[n] && w.pending_updates(n).is_empty() {
						en.push((1, Act::Reload(n)));
						if w.snapshot[n].is_none() && open[n] {
							en.push((1, Act::Snapshot(n)));
						}
						if w.snapshot[n].is_some() && step >= stale_start {
							en.push((2, Act::ReloadStale(n)));
						}
					}
				}
			}
			if flags.close {
				for n in 0..2 {
					if open[n] && !hs && step >= close_start {
						en.push((2, Act::ForceClose(n)));
						// preferably with a commitment_signed about to reach the node
						let cs_queued = w.connected && w.q[n].iter().any(|m| matches!(m.w, Wire::CS(_)));
						let base = if focus_state == Some(4) { 6 } else { 2 };
						en.push((if cs_queued { 10 } else { base }, Act::MonBroadcast(n)));
					}
					if blocks_ok(&w, n) {
						en.push((if open[n] { 1 } else { 4 }, Act::Blocks(n)));
					}
					if !hs && w.confirmed_spend[n].is_none() && !w.spends.is_empty() {
						en.push((8, Act::Confirm(n)));
					}
				}
			}
		}
		if en.is_empty() {
			break;
		}
		let total: u64 = en.iter().map(|(wt, _)| *wt).sum();
		let mut pick = rng.below(total);
		let mut act = en[0].1;
		for (wt, a) in en.iter() {
			if pick < *wt {
				act = *a;
				break;
			}
			pick -= *wt;
		}

		let hdr = format!(
			"\"i\":{},\"act\":\"{}\",\"node\":{}",
			step,
			act.name(),
			match act.node() {
				Some(n) => n.to_string(),
				None => "null".to_string(),
			}
		);
		{
			let mut r = rec.borrow_mut();
			r.pending = Some(format!("{},\"args\":{{}}", hdr));
			r.acts.push(act.name().to_string());
			if act.name() == "deliver" && act.node().map(|n| w.hold[n]).unwrap_or(false) {
				r.held_deliveries += 1;
			}
		}
		let mut obs: [Obs; 2] = Default::default();
		let mut args = String::new();
		let mut end = false;
		let mut delivered_reest = false;
		match act {
			Act::Deliver(n) => {
				// (a focused scenario corrupts nothing before its one message has been delivered)
				let adv = flags.adv && step >= adv_start && focus.is_none() && step >= quiet_until;
				w.deliver(n, &mut rng, adv, rec, &hdr);
				// args were fixed (and stored) before the handler ran
				let p = rec.borrow().pending.clone().unwrap();
				let at = p.find("\"args\":{").unwrap() + 8;
				args = p[at..p.len() - 1].to_string();
				delivered_reest = args.starts_with("\"t\":\"reest\"");
			},
			Act::Inject(n, kind) => match w.build_inject(n, kind, &mut rng) {
				Some((m, reported)) => {
					if focus.is_some() {
						focus = None;
						quiet_until = step + 20;
					}
					w.deliver_injected(n, m, reported, rec, &hdr);
					let p = rec.borrow().pending.clone().unwrap();
					let at = p.find("\"args\":{").unwrap() + 8;
					args = p[at..p.len() - 1].to_string();
				},
				None => {
					let t = if kind < INJECT_RAA_KINDS { "raa" } else { "cs" };
					args = format!("\"t\":\"{}\",\"corrupt\":\"{}\",\"skipped\":true", t, INJECT_KINDS[kind]);
				},
			},
			Act::MonBroadcast(n) => {
				let done = match w.nodes[n].chain_monitor.chain_monitor.get_monitor(w.chan_id) {
					Ok(m) => {
						m.broadcast_latest_holder_commitment_txn(&w.nodes[n].tx_broadcaster, &w.nodes[n].fee_estimator, &w.nodes[n].logger);
						true
					},
					Err(()) => false,
				};
				if done {
					locked[n] = true;
					let hold = rng.below(4) != 0;
					if hold {
						w.hold[n] = true;
						w.hold_steps[n] = 0;
					}
					args = format!("\"hold\":{}", hold);
				} else {
					args = "\"err\":\"no monitor\"".to_string();
				}
			},
			Act::ProcessEvents(n) => {
				args = format!("\"held_steps\":{}", w.hold_steps[n]);
				w.hold[n] = false;
			},
			Act::Quiesce(n) => {
				let peer = w.ids[1 - n];
				let res = w.nodes[n].node.maybe_propose_quiescence(&peer, &w.chan_id);
				if res.is_ok() {
					w.quiesce_pending[n] = true;
				}
				args = format!("\"err\":{}", jopt(&res.err().map(|e| format!("{:?}", e))));
			},
			Act::ExitQuiesce(n) => {
				let peer = w.ids[1 - n];
				let res = w.nodes[n].node.exit_quiescence(&peer, &w.chan_id);
				args = format!("\"res\":{}", js(&format!("{:?}", res)));
			},
			Act::ReadyDup(n, diff) => {
				w.ready_dup(n, diff, &mut rng, rec, &hdr);
				let p = rec.borrow().pending.clone().unwrap();
				let at = p.find("\"args\":{").unwrap() + 8;
				args = p[at..p.len() - 1].to_string();
			},
			Act::FundConfirm(n) => {
				let h = w.nodes[n].best_block_info().1 + 1;
				args = format!("\"height\":{}", h);
				rec.borrow_mut().pending = Some(format!("{},\"args\":{{{}}}", hdr, args));
				w.funding_confirmed[n] = true;
				let tx = w.funding_tx.clone();
				confirm_transaction_at(&w.nodes[n], &tx, h);
				connect_blocks(&w.nodes[n], CHAN_CONFIRM_DEPTH - 1);
			},
			Act::BatchComplete => {
				let fs = w.held_fs.take().unwrap();
				let from = w.nodes[2].node.get_our_node_id();
				w.nodes[0].node.handle_funding_signed(from, &fs);
			},
			Act::Send(n) => {
				let (kind, amt) = [("dust", 100_000u64), ("small", 2_000_000), ("medium", 40_000_000), ("small", 2_000_000), ("medium", 40_000_000), ("dust", 100_000), ("small", 2_000_000), ("medium", 40_000_000)][rng.below(8) as usize];
				let pre = format!("\"kind\":\"{}\",\"amt\":{}", kind, amt);
				rec.borrow_mut().pending = Some(format!("{},\"args\":{{{}}}", hdr, pre));
				let res = w.send(n, amt);
				args = format!("{},\"err\":{}", pre, jopt(&res.err()));
			},
			Act::Claim(n) | Act::Fail(n) => {
				let i = rng.below(w.claimable[n].len() as u64) as usize;
				let h = w.claimable[n].remove(i);
				args = format!("\"hash\":\"{}\"", hex(&h.0[..4]));
				rec.borrow_mut().pending = Some(format!("{},\"args\":{{{}}}", hdr, args));
				if let Act::Claim(_) = act {
					let pre = w.preimages[&h];
					w.nodes[n].node.claim_funds(pre);
				} else {
					w.nodes[n].node.fail_htlc_backwards(&h);
				}
			},
			Act::Fwd(n) => w.nodes[n].node.process_pending_htlc_forwards(),
			Act::Fee => {
				let pct = 10 + rng.below(41);
				let nf = ((w.fee as u64) * (100 + pct) / 100).min(4 * w.fee0 as u64) as u32;
				w.fee = nf;
				*w.cfgs[0].fee_estimator.sat_per_kw.lock().unwrap() = nf;
				*w.cfgs[1].fee_estimator.sat_per_kw.lock().unwrap() = nf;
				args = format!("\"sat_per_kw\":{}", nf);
				rec.borrow_mut().pending = Some(format!("{},\"args\":{{{}}}", hdr, args));
				w.nodes[0].node.timer_tick_occurred();
			},
			Act::Disconnect => {
				args = format!("\"forced\":{}", w.want_disc);
				w.do_disconnect();
			},
			Act::Reconnect => w.do_reconnect(),
			Act::MonAsync(n) => persisters[n].async_mode.store(true, Ordering::SeqCst),
			Act::MonComplete(n) => {
				persisters[n].async_mode.store(false, Ordering::SeqCst);
				let pend = w.pending_updates(n);
				args = format!("\"had_pending\":{},\"n\":{}", !pend.is_empty(), pend.len());
				rec.borrow_mut().pending = Some(format!("{},\"args\":{{{}}}", hdr, args));
				if !pend.is_empty() {
					rec.borrow_mut().async_completed = true;
				}
				for (c, id) in pend {
					let _ = w.nodes[n].chain_monitor.chain_monitor.channel_monitor_updated(c, id);
				}
			},
			Act::Reload(n) => {
				let bytes = w.nodes[n].node.encode();
				rec.borrow_mut().reloaded = true;
				match w.do_reload(n, &bytes) {
					Ok(()) => args = format!("\"err\":null,\"replayed\":{}", w.last_replayed),
					Err(e) => {
						args = format!("\"err\":{}", js(&e));
						end = true;
					},
				}
			},
			Act::Snapshot(n) => {
				w.snapshot[n] = Some(w.nodes[n].node.encode());
			},
			Act::ReloadStale(n) => {
				let bytes = w.snapshot[n].take().unwrap();
				rec.borrow_mut().stale = true;
				match w.do_reload(n, &bytes) {
					Ok(()) => args = format!("\"err\":null,\"replayed\":{}", w.last_replayed),
					Err(e) => {
						args = format!("\"err\":{}", js(&e));
						end = true;
					},
				}
			},
			Act::ForceClose(n) => {
				let pending_htlcs = w
					.nodes[n]
					.node
					.list_channels()
					.iter()
					.find(|d| d.channel_id == w.chan_id)
					.map(|d| d.pending_inbound_htlcs.len() + d.pending_outbound_htlcs.len())
					.unwrap_or(0);
				if pending_htlcs > 0 {
					rec.borrow_mut().fc_with_htlcs = true;
				}
				let peer = w.ids[1 - n];
				let res = w.nodes[n].node.force_close_broadcasting_latest_txn(&w.chan_id, &peer, "x".to_string());
				args = format!("\"htlcs\":{},\"err\":{}", pending_htlcs, jopt(&res.err().map(|e| format!("{:?}", e))));
			},
			Act::Blocks(n) => {
				let cnt = if open[n] { 1 + rng.below(3) } else { 1 + rng.below(20) } as u32;
				args = format!("\"n\":{}", cnt);
				rec.borrow_mut().pending = Some(format!("{},\"args\":{{{}}}", hdr, args));
				connect_blocks(&w.nodes[n], cnt);
			},
			Act::Confirm(n) => {
				let i = rng.below(w.spends.len() as u64) as usize;
				let (from, tx) = w.spends[i].clone();
				let txid = tx.compute_txid();
				args = format!("\"txid\":\"{}\",\"from\":{}", tx8(&txid), from);
				rec.borrow_mut().pending = Some(format!("{},\"args\":{{{}}}", hdr, args));
				w.confirmed_spend[n] = Some(txid);
				mine_transaction(&w.nodes[n], &tx);
			},
		}
		w.drain(&mut obs);
		w.collect_log(&mut obs);
		{
			let mut r = rec.borrow_mut();
			for n in 0..2 {
				for l in obs[n].log.iter() {
					if l.starts_with("[\"release\"") {
						r.releases += 1;
						if locked[n] {
							r.release_while_locked += 1;
						}
						if delivered_reest {
							r.retx_raa = true;
						}
					}
					if l.starts_with("[\"sign_counterparty\"") && delivered_reest {
						r.retx_cs = true;
					}
					if l.starts_with("[\"sign_holder_htlc\"") {
						r.htlc_signed = true;
					}
				}
				if obs[n].closed.is_some() {
					r.closed = true;
				}
			}
			if let Some(ctx) = w.dup_ctx.take() {
				let kind = if ctx.diff { "ready_dup_diff" } else { "ready_dup_same" };
				if let Some(b) = &ctx.before {
					r.dup_states.push(format!(
						"{} ready={} ours={} theirs={} wfb={}",
						kind,
						b.channel_ready as u8,
						b.awaiting_our_channel_ready_sent as u8,
						b.awaiting_their_channel_ready_received as u8,
						b.awaiting_waiting_for_batch as u8
					));
					if let Some(a) = w.view(ctx.n) {
						let changed = a.counterparty_current_point != b.counterparty_current_point
							|| a.counterparty_next_point != b.counterparty_next_point;
						if changed {
							// legitimate only as the FIRST channel_ready this node sees
							if b.channel_ready || b.awaiting_their_channel_ready_received {
								r.dup_violations += 1;
							}
							if ctx.diff {
								w.subst[ctx.n] = Some((ctx.k, rng.below(2) == 0));
							}
						}
					}
				}
			}
			if let Some((kind, nh)) = w.last_cs_corrupt.take() {
				r.cs_htlc.push(format!("{} nh={}", kind, if nh >= 2 { "2+".to_string() } else { nh.to_string() }));
				let n = act.node().unwrap();
				let released = obs[n].log.iter().any(|l| l.starts_with("[\"release\""));
				if obs[n].closed.is_none() || released {
					r.cs_violations += 1;
				}
			}
			let o0 = obs_json(&mut w, &obs[0], 0);
			let o1 = obs_json(&mut w, &obs[1], 1);
			r.steps.push(format!("{{{},\"args\":{{{}}},\"obs\":[{},{}]}}", hdr, args, o0, o1));
			r.pending = None;
		}
		for n in 0..2 {
			if w.hold[n] {
				w.hold_steps[n] += 1;
			}
		}
		if end {
			break;
		}
	}
	// ManuallyDrop: never run Node::drop (test-suite expectations do not apply to random schedules)
}

// ------------------------------------------------------------------------------------------
// main
// ------------------------------------------------------------------------------------------
thread_local! {
	static LAST_PANIC: RefCell<String> = RefCell::new(String::new());
}

#[derive(Default)]
struct Stats {
	scenarios: u64,
	acts: BTreeMap<String, u64>,
	corrupt: BTreeMap<String, u64>,
	releases: u64,
	closed: u64,
	reloaded: u64,
	stale: u64,
	retx_raa: u64,
	retx_cs: u64,
	async_completed: u64,
	htlc_signed: u64,
	fc_with_htlcs: u64,
	panics: u64,
	open_modes: BTreeMap<String, u64>,
	dup_states: BTreeMap<String, u64>,
	dup_violations: u64,
	cs_htlc: BTreeMap<String, u64>,
	cs_violations: u64,
	held_deliveries: u64,
	release_while_locked: u64,
}

fn run_one(seed: u64, k: u64, max_steps: u64, flags: &Flags, stats: &mut Stats) {
	let rec = Rc::new(RefCell::new(Rec::default()));
	LAST_PANIC.with(|p| p.borrow_mut().clear());
	let r = panic::catch_unwind(AssertUnwindSafe(|| run_scenario(seed, k, max_steps, flags, &rec)));
	let panic_msg = match r {
		Ok(()) => None,
		Err(_) => {
			let _ = vh::signer_log::take();
			Some(LAST_PANIC.with(|p| p.borrow().clone()))
		},
	};
	let mut r = rec.borrow_mut();
	if let Some(p) = r.pending.take() {
		r.steps.push(format!("{{{},\"obs\":null,\"panicked\":true}}", p));
	}
	println!(
		"R {{\"k\":{},\"seed\":{},\"max_steps\":{},\"flags\":{},\"panic\":{},\"focus\":{},\"open\":{},\"zero_conf\":{},\"keys\":{},\"init\":{},\"init_sent\":{},\"steps\":{}}}",
		k,
		seed,
		max_steps,
		js(&flags.raw),
		jopt(&panic_msg),
		jopt(&r.focus),
		js(&r.open_mode),
		r.zero_conf,
		jarr(&r.keys),
		jarr(&r.init),
		jarr(&r.init_sent),
		jarr(&r.steps)
	);
	stats.scenarios += 1;
	for a in r.acts.iter() {
		*stats.acts.entry(a.clone()).or_insert(0) += 1;
	}
	for c in r.corrupt.iter() {
		*stats.corrupt.entry(c.clone()).or_insert(0) += 1;
	}
	stats.releases += r.releases;
	stats.closed += r.closed as u64;
	stats.reloaded += r.reloaded as u64;
	stats.stale += r.stale as u64;
	stats.retx_raa += r.retx_raa as u64;
	stats.retx_cs += r.retx_cs as u64;
	stats.async_completed += r.async_completed as u64;
	stats.htlc_signed += r.htlc_signed as u64;
	stats.fc_with_htlcs += r.fc_with_htlcs as u64;
	stats.panics += panic_msg.is_some() as u64;
	let om = format!("{}{}", r.open_mode, if r.zero_conf && r.open_mode == "manual" { "+0conf" } else { "" });
	*stats.open_modes.entry(om).or_insert(0) += 1;
	for d in r.dup_states.iter() {
		*stats.dup_states.entry(d.clone()).or_insert(0) += 1;
	}
	for d in r.cs_htlc.iter() {
		*stats.cs_htlc.entry(d.clone()).or_insert(0) += 1;
	}
	stats.dup_violations += r.dup_violations;
	stats.cs_violations += r.cs_violations;
	stats.held_deliveries += r.held_deliveries;
	stats.release_while_locked += r.release_while_locked;
}

fn json_u64(s: &str, key: &str) -> Option<u64> {
	let pat = format!("\"{}\"", key);
	let at = s.find(&pat)? + pat.len();
	let rest = s[at..].trim_start().strip_prefix(':')?.trim_start();
	let digits: String = rest.chars().take_while(|c| c.is_ascii_digit()).collect();
	digits.parse().ok()
}
fn json_str(s: &str, key: &str) -> Option<String> {
	let pat = format!("\"{}\"", key);
	let at = s.find(&pat)? + pat.len();
	let rest = s[at..].trim_start().strip_prefix(':')?.trim_start().strip_prefix('"')?;
	Some(rest.chars().take_while(|c| *c != '"').collect())
}

fn print_stats(st: &Stats) {
	eprintln!("h_revoke: scenarios={} panics={}", st.scenarios, st.panics);
	eprintln!("h_revoke: actions:");
	for (a, c) in st.acts.iter() {
		eprintln!("h_revoke:   {:<22}{}", a, c);
	}
	eprintln!("h_revoke: corrupted deliveries:");
	for (a, c) in st.corrupt.iter() {
		eprintln!("h_revoke:   {:<22}{}", a, c);
	}
	eprintln!("h_revoke: open modes:");
	for (a, c) in st.open_modes.iter() {
		eprintln!("h_revoke:   {:<22}{}", a, c);
	}
	eprintln!("h_revoke: injected channel_ready by receiver state before delivery:");
	for (a, c) in st.dup_states.iter() {
		eprintln!("h_revoke:   {:<52}{}", a, c);
	}
	eprintln!("h_revoke: commitment_signed htlc-signature corruptions by nh:");
	for (a, c) in st.cs_htlc.iter() {
		eprintln!("h_revoke:   {:<30}{}", a, c);
	}
	eprintln!(
		"h_revoke: violations: injected channel_ready changed counterparty points after a channel_ready had been received={} htlc-signature corruption not closed or followed by release={}",
		st.dup_violations, st.cs_violations
	);
	let n = st.scenarios.max(1);
	eprintln!("h_revoke: release calls total={} avg/scenario={:.1}", st.releases, st.releases as f64 / n as f64);
	eprintln!("h_revoke: scenarios with close={} reload={} stale_reload={} retransmitted_raa={} retransmitted_cs={} async_completion_with_pending={} force_close_with_htlcs={} sign_holder_htlc={}; totals: held_deliveries={} release_while_locked={}",
		st.closed, st.reloaded, st.stale, st.retx_raa, st.retx_cs, st.async_completed, st.fc_with_htlcs, st.htlc_signed, st.held_deliveries, st.release_while_locked);
}

fn main() {
	panic::set_hook(Box::new(|info| {
		let msg = format!("{}", info).replace('\n', " ");
		LAST_PANIC.with(|p| *p.borrow_mut() = msg.chars().take(500).collect());
	}));
	let args: Vec<String> = std::env::args().collect();
	let mut stats = Stats::default();
	match args.get(1).map(|s| s.as_str()) {
		Some("run") if args.len() >= 6 => {
			let seed: u64 = args[2].parse().expect("seed");
			let n: u64 = args[3].parse().expect("n_scenarios");
			let max_steps: u64 = args[4].parse().expect("max_steps");
			let flags = Flags::parse(&args[5]);
			for k in 0..n {
				run_one(seed, k, max_steps, &flags, &mut stats);
			}
		},
		Some("replay") if args.len() >= 3 => {
			let j = &args[2];
			let seed = json_u64(j, "seed").expect("seed");
			let k = json_u64(j, "k").expect("k");
			let max_steps = json_u64(j, "max_steps").expect("max_steps");
			let flags = Flags::parse(&json_str(j, "flags").unwrap_or_else(|| "none".to_string()));
			run_one(seed, k, max_steps, &flags, &mut stats);
		},
		_ => {
			eprintln!("usage: h_revoke run <seed> <n_scenarios> <max_steps> <flags> | h_revoke replay '<json>'");
			std::process::exit(2);
		},
	}
	print_stats(&stats);
}
