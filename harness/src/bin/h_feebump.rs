//! C07 functional correspondence: claim fee-bumping arithmetic, bump timer, package locktime,
//! confirmation threshold. One result line per case line; a panic (debug overflow check,
//! `debug_assert!`) prints `PANIC`.
//!   consts
//!   cf <fee_sat> <weight>                               compute_feerate_sat_per_1000_weight
//!   cs <input_amounts> <weight> <estimate>              compute_fee_from_spent_amounts
//!   fb <weight> <input_amounts> <dust> <prev_feerate> <strategy> <estimate>   feerate_bump
//!   pf <prev_feerate> <strategy> <estimate>             compute_package_feerate
//!   ht <counterparty_spendable_height> <current_height> <kind>:<expiry>,...   get_height_timer
//!   lt <current_height> <kind>:<expiry>,...             package_locktime
//!   thr <height> <kind> <csv|-1>                        confirmation_threshold
//!   traj <weight> <input_amounts> <dust> <estimate0> <strategy>:<estimate>,...
//!        first broadcast (compute_fee_from_spent_amounts) then successive feerate_bump calls, each
//!        fed the feerate recorded by the previous successful call; prints `fee/rate` or `None` per step
use lightning::chain::verif_hooks_package as pk;
use lightning::ln::verif_hooks as vh;
use verif_harness::*;

fn opt2(r: Option<(u64, u64)>) -> String {
	match r {
		Some((a, b)) => format!("{} {}", a, b),
		None => "None".to_string(),
	}
}

fn inputs(s: &str) -> Vec<(u8, u32)> {
	s.split(',')
		.filter(|t| !t.is_empty())
		.map(|t| {
			let mut p = t.split(':');
			(p.next().unwrap().parse::<u8>().unwrap(), p.next().unwrap().parse::<u32>().unwrap())
		})
		.collect()
}

fn main() {
	for_each_case(|l| {
		let toks: Vec<&str> = l.split_whitespace().collect();
		let n = |i: usize| toks[i].parse::<u64>().unwrap();
		match toks[0] {
			"consts" => {
				let mut v = pk::constants();
				v.extend(vh::timing_constants().into_iter().filter(|(k, _)| *k == "ANTI_REORG_DELAY"));
				v.iter().map(|(k, x)| format!("{}={}", k, x)).collect::<Vec<_>>().join(" ")
			},
			"cf" => format!("{}", pk::run_compute_feerate_sat_per_1000_weight(n(1), n(2))),
			"cs" => opt2(pk::run_compute_fee_from_spent_amounts(n(1), n(2), n(3) as u32)),
			"fb" => opt2(pk::run_feerate_bump(n(1), n(2), n(3), n(4), n(5) as u8, n(6) as u32)),
			"pf" => format!("{}", pk::run_compute_package_feerate(n(1), n(2) as u8, n(3) as u32)),
			"ht" => format!("{}", pk::run_get_height_timer(&inputs(toks[3]), n(1) as u32, n(2) as u32)),
			"lt" => format!("{}", pk::run_package_locktime(&inputs(toks[2]), n(1) as u32)),
			"traj" => {
				let (w, amt, dust) = (n(1), n(2), n(3));
				let mut out = Vec::new();
				match pk::run_compute_fee_from_spent_amounts(amt, w, n(4) as u32) {
					None => out.push("None".to_string()),
					Some((f, r)) => {
						out.push(format!("{}/{}", f, r));
						let mut prev = r;
						for (strat, est) in inputs(toks.get(5).copied().unwrap_or("")) {
							match pk::run_feerate_bump(w, amt, dust, prev, strat, est) {
								Some((f, r)) => {
									out.push(format!("{}/{}", f, r));
									prev = r;
								},
								None => out.push("None".to_string()),
							}
						}
					},
				}
				out.join(" ")
			},
			"thr" => {
				let csv: i64 = toks[3].parse().unwrap();
				let csv = if csv < 0 { None } else { Some(csv as u16) };
				format!("{}", vh::channelmonitor::confirmation_threshold(n(1) as u32, n(2) as u8, csv))
			},
			_ => "BADCMD".to_string(),
		}
	});
}
